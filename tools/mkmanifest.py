"""Regenerate /verif/MANIFEST.json from the rule modules present (one check per property that has sa/rules/Cxx.py)."""
import json, os, sys
V = os.path.dirname(os.path.dirname(os.path.abspath(__file__)))

META = {
 'C01': ('ALIAS operand-purity abstract interpretation; PATH+PROP truth table on the column-store guard; empty-records taint; AST template matching',
         'no write to operands at depth 0/1, length guard of __setitem__/__init__/lens valid on every path, empty results rebuilt with columns, None-fill and order of concatenation',
         'equality with the list-of-records model on values and arbitrary histories'),
 'C02': ('PATH+PROP loop-progress proof under the cmp trichotomy axiom; NUM range of cmp; SIBLING skeleton of join/xor merge loops; ALIAS purity',
         'termination of the merge loops on every key pair, cursor/outcome table, cross-product alignment of all column expansions, anti-join collection and tail flush, operands untouched',
         'multiset equality of the join result (depends on sort correctness for the keys)'),
 'C03': ('TABLES extraction of the join-policy dispatch; decorator resolution; PATH identity of pass-through; MATCH of the reindex idioms',
         'policy letter -> index operation table, as-of fill applied to the NaN-stripped series, numpy tail/front-pad, pass-through of non-timeseries, container preservation, lifting decorators',
         'values produced by pandas reindex/ffill'),
 'C04': ('NUM interval analysis over the num2dt guard chain; regex AST (re._parser) vs. separator stripping agreement; PATH dispatch table',
         'ordinal and yyyymmdd ranges reach exactly their branch, month overflow normalisation, dialect rejection paths, separators admitted = separators stripped, dispatcher completeness',
         'dateutil parsing of each string; dt(dt2str(t)) round trip'),
 'C05': ('PROP equivalence (truth table) of is_bday/is_holiday; TYPESTATE populate-before-read; NUM threshold; MATCH polarity of adjust',
         'is_bday == not weekend and not holiday, is_holiday its complement, direction of f/p stepping, |n|<=1 loop vs table path, table populated before every read, inverse zips',
         'the arithmetic laws on table contents (bdays(t, add(t,n)) == n etc.)'),
 'C06': ('SIBLING case agreement between inc keyword loop and _row_check; polarity MATCH; empty-records TAINT; PATH',
         'inc and exc test the same cell predicate case by case with opposite polarity, order-preserving comprehensions, columns kept on empty results, identity without condition, find_ contract',
         'the partition on arbitrary cell values'),
 'C07': ('NUM range; MIRROR closure of cmp under operand swap; CONTRADICTION (guarded vs unguarded empty-dict idiom, NaN-unguarded native sort); MATCH of decorate-sort-undecorate',
         'cmp returns only -1/0/1, is closed under x<->y with negated results, NaN -> +inf and int -> float on both sides, Cmp follows cmp, stable (key, index) decoration applied to every column',
         'transitivity over the mixed universe; agreement of native order with cmp'),
 'C08': ('TABLES decorator default vs operator neutral element; DENOMINATOR zero-mask dataflow; SIBLING keyword forwarding across the public wrappers',
         'neutral default per kernel, default reaches df_column where columns can be missing, zero-masked denominator, join/method/columns forwarded by every wrapper, left fold',
         'cell values computed by pandas arithmetic on partially overlapping indices'),
 'C09': ('TABLES agreement regex/unit chain; NUM linear-form abstract evaluation of the business-day closed form on n = r + 5W for all 35 (weekday, r) cases',
         "unit letters admitted = handled, exact unit arithmetic per branch, the 'b' closed form equals day-by-day weekday counting for every start weekday and every n, tokens consumed left to right",
         'composition/inverse laws beyond the closed form; tz handling'),
 'C10': ('PATH dominance of direction guards over stepping loops; sign-domain check of rrule arguments; TABLES _LY vs period regex',
         'every stepping loop is guarded against a bump pointing away, rrule called with dtstart<=until and positive interval, inclusive comparisons, reversal before striding, t0==t1 short-circuit',
         'equality of int/timedelta/nd spellings as lists; rrule month semantics'),
 'C11': ('PATH partition of indices in the run-length loop; MATCH of (key, index) decoration and of the id-list gathering',
         'each row index enters exactly one group on every path, last group flushed, same id lists for every column, None-initialised pivot grid, inverse shapes',
         'inversion laws on values; distinctness of keys under NaN'),
 'C12': ('ALIAS purity with pandas profile and inplace= ban; TABLES method dispatcher; PROP polarity of the all-NaN row mask',
         'input never written, method names mean what they say and receive limit/axis, methods chained on the running result, keep-row iff any non-NaN, trailing-run fill value, array path forwards the same arguments',
         'which NaN a limit reaches (pandas)'),
 'C13': ('TABLES bracket parser; MATCH of mask comparators; PROP fast-path condition; FORWARDING of the openclose policy parameter',
         'bracket -> closed/open table, >=/> and <=/< chosen by the bracket, label-slice fast path only when closed-closed, time-of-day comparison, interval construction, policy forwarded on every recursive call',
         'each timestamp at most once for arbitrary indices; round trip on values'),
 'C14': ('DISPATCH-SYMMETRY of the type-directed chain; MIRROR of the NaN branch; CONTRADICTION on rank/shape tests; call graph (no raw == between elements)',
         'fallback == unreachable when y is a dispatched container, every container branch starts with type(x)==type(y), shapes compared for arrays, len() guarded by rank, foreign == under try/except, in_ built on eq',
         'transitivity; agreement with == on NaN-free values'),
 'C15': ('interprocedural ALIAS purity; SIBLING skeleton of tree_items/keys/values; TABLES separator/sigil agreement',
         'no write to tree/update at any depth, same traversal in items/keys/values, branch creation and ignore semantics of _tree_setitem, duplicate rejection, pattern languages agree',
         'items_to_tree(tree_items(t)) == t on values'),
 'C16': ('ALIAS purity at any depth; class-preservation MATCH; who-may-call on unique=True; PATH progress of Dict.__call__',
         'operators do not write receiver/arguments, results built with type(self), trusted unique fast path only on duplicate-free arguments, dedup keeps first occurrences, dependency loop shrinks or raises',
         'the set-algebra identities on values'),
 'C17': ('DEF-USE dominance of the as-of filter; TYPESTATE stable-order (sort kind reaching tie-sensitive consumers); MATCH',
         'per-date selection only sees rows with stamp <= asof, stamp sort feeding keep=last/adjacent-row tests is stable, ffill before repeat test, nth clamps, stamp assignment',
         'the read-back law over arbitrary histories'),
 'C18': ('SIBLING wrapper protocol over all subclasses; PATH try/except shape; ALIAS purity of wrapper construction; call graph',
         'subclasses forward function/function_fullargspec, fallback returned only inside except, exact keyword filter, same-type unwrapping, construction does not write the wrapped chain, cache store/return under one key',
         'getcallargs == inspect.getcallargs; call counts under exceptions'),
 'C19': ('TYPESTATE one-shot iterator (generator bound to a multi-use parameter); decorator resolution; MATCH; who-may-call',
         'no generator reaches a parameter iterated repeatedly, container type/keys rebuilt, companions indexed by length/keys, public helpers delegate to loop(list,dict,tuple) functions, gather-only pairing in waiter',
         'leaf values for arbitrary nestings'),
 'C20': ('MATCH of the inner/outer join construction; polarity TABLES of the expiry gate; call graph',
         'inner join by *, defaults attached to the anti-join of the right side, scalars broadcast, sorted by key, f evaluated iff run_if_none or run_expiry, scalar short-circuit, signature extension',
         'keyed-join result on values; call counts'),
}


def main():
    checks, na = [], []
    for i in range(1, 21):
        pid = 'C%02d' % i
        tech, decided, undecided = META[pid]
        if os.path.exists(os.path.join(V, 'sa', 'rules', pid + '.py')):
            checks.append(dict(
                property_id=pid,
                quick_cmd='/venv/bin/python -W ignore sa/run.py %s --tier quick' % pid,
                thorough_cmd='/venv/bin/python -W ignore sa/run.py %s --tier thorough' % pid,
                evidence_file='evidence/%s.json' % pid,
                replay_cmd_template='/venv/bin/python -W ignore sa/run.py --replay {path}',
                engine='sa',
                level_claimed=dict(category='other',
                                   text='Static necessary conditions, decided exactly on every path of the anchored code: ' + decided +
                                        '. Each obligation is a rule instance whose violation makes the property false for a constructible input; '
                                        'this is the strongest level static analysis reaches here because the rest of the property quantifies over runtime values.',
                                   design_ref='DESIGN.md section 5, ' + pid),
                level_note='Decides the structural clauses only; NOT decided: ' + undecided + '. Trusted: Python/pandas/dateutil axioms A1-A5 of DESIGN.md section 4; '
                           'callee resolution by imports/self/super/type(self) and by method name; unknown third-party callees assumed not to mutate arguments.',
                technique='static analysis: ' + tech + '; symbolic path summaries, guard tables by truth table, closed set of exits against the reference snapshot (EXITS), DEF-USE integrity; all evaluated on the program normalised by behaviour-preserving rewrites (else-elimination, helper inlining, def-use webs, reference-guided reshaping)'))
        else:
            na.append(dict(property_id=pid, reason='static check not built yet in this tree (planned: %s)' % tech))
    m = dict(version=1, setup_cmd='true',
             hooks=dict(guard='PYG_BASE_VERIF', enable='none needed: checks parse /repo/src/pyg_base with ast and never import it',
                        baseline_off_cmd='cd /repo && /venv/bin/python -m pytest -ra -q -p no:cacheprovider --timeout=900 --continue-on-collection-errors',
                        source_commits=[], add_only=True),
             engines=[dict(name='sa', path='sa/', serves_properties=[c['property_id'] for c in checks],
                           kind_free_text='repository-specific static analysis over the Python AST: resolver + call graph, structured path enumerator, propositional discharger, '
                                          'operand-purity abstract interpretation, gen/kill dataflow (taint, typestate, def-use), finite tables (dispatch chains, regex ASTs), '
                                          'template matcher, interval/linear-form evaluator, mirror/sibling skeleton comparison, symbolic path summaries, normaliser (sa/normal.py, sa/webs.py) with reference snapshot sa/reference.json')],
             checks=checks,
             notes='All checks are static: nothing under /repo is imported or executed. Exit 0 pass / 1 VIOLATION / 2 ANALYSIS-ERROR (checker cannot see its subject). '
                   'thorough = quick + self-validation by seeded in-memory faults and benign twins + exploration of generic single-edit mutants (reported in the evidence file only). '
                   'sa/reference.json must be regenerated (tools/mkreference.py) whenever a fix: commit changes /repo.',
             not_applicable=na)
    with open(os.path.join(V, 'MANIFEST.json'), 'w') as fh:
        json.dump(m, fh, indent=1)
    print('MANIFEST: %d checks, %d not yet built' % (len(checks), len(na)))


if __name__ == '__main__':
    main()
