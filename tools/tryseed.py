"""Evaluate sub-agent changes:  tools/tryseed.py C04 [m1 m2 ...] [--keep]
For each /tmp/wt/<P>.out/<m>.diff: in the scratch worktree /tmp/wt/eval (never /repo): apply, run the demo (must fail), run the pinned
suite (must equal the baseline), run the property's quick check against the scratch tree (PYG_BASE_REPO), revert, run the demo (must pass).
With --keep a confirmed change is stored under /verif/seeded/<P>-<m>/ (patch.diff, demo.py, meta.json)."""
import json, os, shutil, subprocess, sys, time
V = os.path.dirname(os.path.dirname(os.path.abspath(__file__)))
EV = os.environ.get('TRYSEED_EV', '/tmp/wt/eval')


def sh(cmd, **kw):
    return subprocess.run(cmd, shell=True, capture_output=True, text=True, **kw)


def ensure_eval():
    head = sh('git -C /repo rev-parse HEAD').stdout.strip()
    if not os.path.isdir(EV):
        sh('git -C /repo worktree add --detach %s HEAD' % EV)
    sh('git -C %s checkout -q --detach %s' % (EV, head))
    sh('git -C %s checkout -- . && git -C %s clean -fdq' % (EV, EV))
    return head


def run_check(prop, root):
    env = dict(os.environ, PYG_BASE_REPO=root)
    p = subprocess.run('/venv/bin/python -W ignore sa/run.py %s --tier quick --no-evidence' % prop, shell=True, capture_output=True, text=True, cwd=V, env=env)
    viol = [l for l in p.stdout.split('\n') if l.startswith('VIOLATION') or l.startswith('ANALYSIS-ERROR') or l.strip().startswith('rule ')]
    return p.returncode, viol, p.stdout


def main():
    prop = sys.argv[1]
    keep = '--keep' in sys.argv
    allprops = '--all' in sys.argv
    args = sys.argv[2:]
    sub, tag = 'out', ''
    for a in list(args):
        if a.startswith('--dir='):
            sub = a.split('=', 1)[1]; args.remove(a)
        if a.startswith('--tag='):
            tag = a.split('=', 1)[1]; args.remove(a)
    names = [a for a in args if not a.startswith('--')]
    out = '/tmp/wt/%s.%s' % (prop, sub)
    if not names:
        names = sorted(f[:-5] for f in os.listdir(out) if f.endswith('.diff'))
    head = ensure_eval()
    for m in names:
        diff = os.path.join(out, m + '.diff')
        demo = os.path.join(out, m + '_demo.py')
        res = dict(id='%s-%s%s' % (prop, tag, m), property=prop, base_commit=head)
        a = sh('git -C %s apply %s' % (EV, diff))
        if a.returncode:
            print(m, 'PATCH DOES NOT APPLY', a.stderr[:200])
            continue
        d1 = sh('cd %s && PYTHONPATH=%s/src timeout 120 /venv/bin/python -W ignore %s' % (EV, EV, demo))
        res['demo_with_change_exit'] = d1.returncode
        t0 = time.time()
        s = sh('cd %s && PYTHONPATH=%s/src /venv/bin/python %s/tools/suite_at.py %s' % (EV, EV, V, EV))
        res['suite_with_change'] = s.stdout.strip().split('\n')[-1] if s.stdout.strip() else s.stderr[-200:]
        res['suite_ok'] = (s.returncode == 0)
        code, viol, full = run_check(prop, EV)
        res['check_exit'] = code
        res['check_lines'] = viol[:8]
        others = {}
        if allprops:
            for i in range(1, 21):
                q = 'C%02d' % i
                if q != prop and os.path.exists(os.path.join(V, 'sa', 'rules', q + '.py')):
                    c2, v2, _ = run_check(q, EV)
                    if c2:
                        others[q] = c2
            res['other_checks_nonzero'] = others
        sh('git -C %s checkout -- . && git -C %s clean -fdq' % (EV, EV))
        d0 = sh('cd %s && PYTHONPATH=%s/src timeout 120 /venv/bin/python -W ignore %s' % (EV, EV, demo))
        res['demo_without_change_exit'] = d0.returncode
        confirmed = d1.returncode != 0 and d0.returncode == 0 and res['suite_ok']
        res['confirmed'] = confirmed
        res['detected'] = (code == 1)
        print('%s-%s%s  confirmed=%s (demo with=%s without=%s, suite: %s)  CHECK exit=%s %s' % (
            prop, tag, m, confirmed, d1.returncode, d0.returncode, res['suite_with_change'], code, 'DETECTED' if code == 1 else 'MISSED' if code == 0 else 'ANALYSIS-ERROR'))
        for l in viol[:6]:
            print('      ', l[:230])
        if others:
            print('       other properties reacting:', others)
        if keep and confirmed:
            dst = os.path.join(V, 'seeded', '%s-%s%s' % (prop, tag, m))
            os.makedirs(dst, exist_ok=True)
            shutil.copy(diff, os.path.join(dst, 'patch.diff'))
            shutil.copy(demo, os.path.join(dst, 'demo.py'))
            md = os.path.join(out, m + '.md')
            res['needs'] = open(md).read() if os.path.exists(md) else ''
            res['ran'] = ['git apply patch.diff in a scratch worktree of /repo@%s' % head[:8], 'demo.py with the change: exit %s; without: exit %s' % (d1.returncode, d0.returncode),
                          'pinned test suite with the change: %s' % res['suite_with_change'], 'sa/run.py %s --tier quick against the changed tree: exit %s' % (prop, code)]
            json.dump(res, open(os.path.join(dst, 'meta.json'), 'w'), indent=1)


if __name__ == '__main__':
    main()
