"""(maintenance) record, for every obligation, the functions it resolves through Repo.fn on the current tree -> sa/anchors.json.
Used by run.py to share obligations between properties along the call graph (an obligation on a helper is run under every property whose
anchored functions reach that helper)."""
import json, os, sys
V = os.path.dirname(os.path.dirname(os.path.abspath(__file__)))
sys.path.insert(0, V)
from sa import core, run as R
from sa.core import Repo
out = {}
repo = Repo()
for i in range(1, 21):
    prop = 'C%02d' % i
    for ob in R.load_rules(prop):
        repo.touched = []
        core.run_obligation(ob, repo, 'quick', [])
        out[ob.oid] = sorted({'%s:%s%s' % (k[0], (k[1] + '.') if k[1] else '', k[2]) for k in repo.touched})
json.dump(out, open(os.path.join(V, 'sa', 'anchors.json'), 'w'), indent=0, sort_keys=True)
print(len(out), 'obligations;', sum(len(v) for v in out.values()), 'anchor entries')
