"""generic mutants of a property's anchored functions: tools/gm.py C05 [-v]"""
import sys, os
sys.path.insert(0, os.path.dirname(os.path.dirname(os.path.abspath(__file__))))
from sa import mutate
r = mutate.run(sys.argv[1])
print(r['by_kind'])
for s in r['survivors']:
    print('  SURVIVED', s)
