#!/bin/sh
# run the quick tier of every check in parallel and print one line each
cd /verif
for i in $(seq -w 1 20); do (/venv/bin/python -W ignore sa/run.py C$i > /tmp/out_C$i.txt 2>&1; echo "C$i exit=$? $(tail -1 /tmp/out_C$i.txt | cut -c1-110)") & done; wait
