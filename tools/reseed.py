"""Re-run the property check on every stored seeded change (seeded/<id>/patch.diff) and every benign refactoring (benign/<id>/patch.diff),
each applied to a throw-away copy of /repo/src (never /repo):  tools/reseed.py [seeded|benign] [ids...]   (16 in parallel)"""
import json, os, shutil, subprocess, sys, tempfile
from concurrent.futures import ThreadPoolExecutor
V = os.path.dirname(os.path.dirname(os.path.abspath(__file__)))


def one(kind, d):
    prop = d[:3]
    tmp = tempfile.mkdtemp(prefix='rs_')
    try:
        shutil.copytree('/repo/src', os.path.join(tmp, 'src'))
        p = subprocess.run('patch -p1 -s -d %s < %s' % (tmp, os.path.join(kind if os.path.isabs(kind) else os.path.join(V, kind), d, 'patch.diff')), shell=True, capture_output=True, text=True)
        if p.returncode:
            return d, 'PATCH-FAIL', [p.stdout[:200]]
        env = dict(os.environ, PYG_BASE_REPO=tmp)
        q = subprocess.run('/venv/bin/python -W ignore sa/run.py %s --tier quick --no-evidence' % prop, shell=True, capture_output=True, text=True, cwd=V, env=env)
        lines = [l.strip()[:230] for l in q.stdout.split('\n') if l.strip().startswith('rule ') or l.startswith('ANALYSIS-ERROR')]
        return d, q.returncode, lines
    finally:
        shutil.rmtree(tmp, ignore_errors=True)


def main():
    kind = sys.argv[1] if len(sys.argv) > 1 else 'seeded'
    base = kind if os.path.isabs(kind) else os.path.join(V, kind)
    ids = [a for a in sys.argv[2:] if not a.startswith('-')] or sorted(os.listdir(base))
    ids = [i for i in ids if os.path.exists(os.path.join(base, i, 'patch.diff'))]
    with ThreadPoolExecutor(16) as ex:
        res = list(ex.map(lambda d: one(kind, d), ids))
    tally = {}
    for d, code, lines in res:
        tally[code] = tally.get(code, 0) + 1
        want = 0 if 'benign' in kind else 1
        if code != want or '-v' in sys.argv:
            print(d, 'exit', code)
            for l in lines[:4]:
                print('     ', l)
    print(kind, 'exit codes:', tally)


main()
