"""(maintenance) regenerate sa/reference.json from the tree the rules are confirmed on (run after every fix: commit in /repo)."""
import json, os, sys
V = os.path.dirname(os.path.dirname(os.path.abspath(__file__)))
sys.path.insert(0, V)
from sa.core import Repo
from sa import normal
r = Repo(normalise='noref')
ref = normal.make_reference(r.trees)
import subprocess
ref['commit'] = subprocess.run('git -C /repo rev-parse HEAD', shell=True, capture_output=True, text=True).stdout.strip()
json.dump(ref, open(normal.REF_PATH, 'w'), indent=0, sort_keys=True)
print(len(ref['functions']), 'functions in reference at', ref['commit'][:8])
