"""Print a repo module without long docstrings (reading aid, not part of any check)."""
import ast,sys
def show(path, lo=1, hi=10**9):
    src=open(path).read(); t=ast.parse(src); lines=src.split('\n'); skip=set()
    for n in ast.walk(t):
        if isinstance(n,(ast.FunctionDef,ast.ClassDef,ast.AsyncFunctionDef,ast.Module)) and n.body and isinstance(n.body[0],ast.Expr) and isinstance(n.body[0].value,ast.Constant) and isinstance(n.body[0].value.value,str):
            d=n.body[0]
            if d.end_lineno-d.lineno>2:
                for i in range(d.lineno+1,d.end_lineno): skip.add(i)
    for i,l in enumerate(lines,1):
        if lo<=i<=hi and i not in skip and l.strip(): print(i,l)
if __name__=='__main__':
    a=sys.argv[1:]
    show('/repo/src/pyg_base/'+a[0], *(int(x) for x in a[1:]))
