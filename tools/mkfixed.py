"""(maintenance) run all checks against the original pinned commit (a scratch worktree) and record every violation found there as a
`fixed` entry of known_findings.json, keyed exactly like a finding. Fixed entries suppress nothing; they document what the fix: commits repaired."""
import json, os, sys, subprocess
V = os.path.dirname(os.path.dirname(os.path.abspath(__file__)))
sys.path.insert(0, V)
os.environ['PYG_BASE_REPO'] = sys.argv[1]
from sa import core, run as R
FIX = {  # obligation -> (commit subject prefix, failing input)
 'C02.1': ('fix: join/xor merge loops spin forever', "dictable(a=[float('nan')]).join(dictable(a=[float('nan')]), 'a') never returned"),
 'C04.4': ("fix: dt('3.15.2000', dialect='us') died", "dt('3.15.2000', dialect='us') raised ValueError from int('3.')"),
 'C06.4': ('fix: inc(callable, key=...) raised KeyError', 'dictable(x=[1,2,3], y=[1,1,2]).inc(lambda x: x>5, y=1) raised KeyError'),
 'C07.4': ('fix: cmp of two distinct empty dicts', 'cmp({}, {}) raised ValueError'),
 'C10.2': ('fix: drange with a backward single period', "drange(dt(2000,1,10), dt(2000,1,5), '-1d') == []"),
 'C13.7': ('fix: df_slice ignored openclose', "df_slice(ts, time(22), time(2), '[)') returned the '(]' rows"),
 'C14.1': ('fix: eq(scalar, container)', 'eq(np.float64(1), [1]) True but eq([1], np.float64(1)) False'),
 'C14.4': ('fix: eq on numpy arrays ignored the shape', 'eq(np.array(1), np.array(1)) raised TypeError'),
 'C14.7': ('fix: eq on numpy arrays ignored the shape', 'eq(np.array([[1],[1]]), np.array([1,1])) was True'),
 'C15.1': ('fix: tree_update (and Dict + dict) modified', "t={'a':{'b':1}}; tree_update(t, {'a':{'c':2}}) changed t"),
 'C16.1': ("fix: d - ('a', 'b') deleted", "dictattr(a=dictattr(b=1,c=2)) - ('a','b') deleted d['a']['b'] in d"),
 'C17.2': ('fix: bi_merge picked an arbitrary version', '20 dates x 3 versions sharing a stamp: bi_read returned version 1 or 2 for most dates'),
 'C18.5': ("fix: wrapping a decorator chain rewrote", 'x = try_back(try_none(and_add(f, add=3))); and_add(x, add=10) changed x(1,2) from 6 to 3'),
 'C19.1': ('fix: loop-lifted functions failed on nesting depth', 'loop(list)(lambda a, b: a + b)([[1, 2], [3, 4]], 10) raised TypeError'),
}
log = subprocess.run('git -C /repo log --format="%h %s"', shell=True, capture_output=True, text=True).stdout.strip().split('\n')
def commit_of(prefix):
    for l in log:
        h, s = l.split(' ', 1)
        if s.startswith(prefix):
            return h
    raise SystemExit('no commit for ' + prefix)
known = [k for k in json.load(open(os.path.join(V, 'known_findings.json'))) if k['status'] == 'known']
out = []
repo = core.Repo(root=sys.argv[1])
for i in range(1, 21):
    p = 'C%02d' % i
    code, results = R.check(p, 'quick', repo=repo, quiet=True, write=False)
    for r in results:
        for f in r['findings']:
            if f.status != core.VIOLATION:
                continue
            oid = r['ob'].oid
            prefix, inp = FIX[oid]
            h = commit_of(prefix)
            out.append(dict(status='fixed', property=p, obligation=oid, construct=f.fn.construct, statement=f.statement, commit=h,
                            what='fixed: property=%s %s %s' % (p, h, f.msg[:160]), input=inp))
json.dump(out + known, open(os.path.join(V, 'known_findings.json'), 'w'), indent=1)
print(len(out), 'fixed entries,', len(known), 'known')
