"""(maintenance) dynamic validation of the normaliser (sa/normal.py): for every stored benign refactoring and seeded change, apply the patch to a
scratch copy, NORMALISE the package, write the normalised source back (ast.unparse) and run the case's own check.py / demo.py on the
normalised code: a benign refactoring must still pass (exit 0), a seeded change must still fail (the normaliser must neither break nor
repair behaviour). Usage: tools/normal_validate.py [benign|seeded] [ids...]"""
import ast, os, shutil, subprocess, sys, tempfile
from concurrent.futures import ThreadPoolExecutor
V = os.path.dirname(os.path.dirname(os.path.abspath(__file__)))
sys.path.insert(0, V)


def one(kind, d):
    tmp = tempfile.mkdtemp(prefix='nv_')
    try:
        shutil.copytree('/repo/src', tmp + '/src')
        p = subprocess.run('patch -p1 -s -d %s < %s/%s/patch.diff' % (tmp, base, d), shell=True, capture_output=True, text=True)
        if p.returncode:
            return d, 'PATCH-FAIL'
        prog = os.path.join(base, d, 'check.py' if 'ben' in kind else 'demo.py')
        raw = subprocess.run('cd %s && PYTHONPATH=%s/src timeout 300 /venv/bin/python -W ignore %s' % (tmp, tmp, prog), shell=True, capture_output=True, text=True).returncode
        code = ("import sys, ast, os; sys.path.insert(0, %r)\nfrom sa.core import Repo\nr = Repo(root=%r)\n"
                "for m, t in r.trees.items():\n    open(r.files[m], 'w').write(ast.unparse(t))\nprint(len(r.renamed))" % (V, tmp))
        q = subprocess.run(['/venv/bin/python', '-W', 'ignore', '-c', code], capture_output=True, text=True)
        if q.returncode:
            return d, 'NORMALISE-FAIL ' + q.stderr[-300:]
        prog = os.path.join(base, d, 'check.py' if 'ben' in kind else 'demo.py')
        run = subprocess.run('cd %s && PYTHONPATH=%s/src timeout 300 /venv/bin/python -W ignore %s' % (tmp, tmp, prog), shell=True, capture_output=True, text=True)
        # (some check programs have expectations relative to today's date and fail on the raw tree as well: the criterion is "same verdict as the raw patched tree")
        return d, (0 if run.returncode == raw else 1) if 'ben' in kind else run.returncode, q.stdout.strip(), ('raw exit %s, normalised exit %s ' % (raw, run.returncode)) + (run.stderr[-200:] if run.returncode != raw else '')
    finally:
        shutil.rmtree(tmp, ignore_errors=True)


kind = sys.argv[1]
base = kind if os.path.isabs(kind) else os.path.join(V, kind)
ids = sys.argv[2:] or sorted(os.listdir(base))
with ThreadPoolExecutor(12) as ex:
    res = list(ex.map(lambda d: one(kind, d), ids))
bad = 0
for r in res:
    ok = (r[1] == 0) if 'ben' in kind else (isinstance(r[1], int) and r[1] != 0)
    if not ok:
        bad += 1
        print('UNEXPECTED', r)
print(kind, len(res), 'cases,', bad, 'unexpected')
