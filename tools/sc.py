"""print self-validation details for a property: tools/sc.py C04"""
import sys, os
sys.path.insert(0, os.path.dirname(os.path.dirname(os.path.abspath(__file__))))
from sa import selfcheck
r = selfcheck.run(sys.argv[1])
for d in r['details']:
    if d['verdict'] not in ('detected', 'silent') or '-v' in sys.argv:
        print(d)
