"""Evaluate behaviour-preserving refactorings against the checks (false-alarm measurement): tools/trybenign.py 06 07 ...
For /tmp/wt/B<nn>.ben/b*.diff: apply in the scratch worktree /tmp/wt/eval, run the accompanying b*_check.py (must pass), run check C<nn>
against the scratch tree; report exit codes (1 = false alarm, 2 = analysis error)."""
import os, subprocess, sys, json
V = os.path.dirname(os.path.dirname(os.path.abspath(__file__)))
sys.path.insert(0, os.path.join(V, 'tools'))
import tryseed as T
EV = T.EV
def main():
    T.ensure_eval()
    tot = {0: 0, 1: 0, 2: 0}
    for nn in sys.argv[1:]:
        prop = 'C' + nn
        d = '/tmp/wt/B%s.ben' % nn
        if not os.path.isdir(d):
            continue
        for f in sorted(x for x in os.listdir(d) if x.endswith('.diff')):
            b = f[:-5]
            a = T.sh('git -C %s apply %s' % (EV, os.path.join(d, f)))
            if a.returncode:
                print(prop, b, 'PATCH DOES NOT APPLY'); continue
            chk = os.path.join(d, b + '_check.py')
            c = T.sh('cd %s && PYTHONPATH=%s/src timeout 300 /venv/bin/python -W ignore %s' % (EV, EV, chk)) if os.path.exists(chk) else None
            code, viol, full = T.run_check(prop, EV)
            T.sh('git -C %s checkout -- . && git -C %s clean -fdq' % (EV, EV))
            tot[code] = tot.get(code, 0) + 1
            print('%s-%s  check_script=%s  CHECK exit=%s %s' % (prop, b, c.returncode if c else 'n/a', code, {0: 'silent', 1: 'FALSE ALARM', 2: 'ANALYSIS-ERROR'}[code]))
            if code:
                for l in viol[:4]:
                    print('      ', l[:240])
    print('totals: silent %d, false alarms %d, analysis errors %d' % (tot[0], tot[1], tot[2]))
main()
