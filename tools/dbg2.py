"""tools/dbg2.py <abs patch dir> spec... : like dbg.py for an absolute case directory"""
import sys, os, shutil, subprocess, tempfile, ast
V = os.path.dirname(os.path.dirname(os.path.abspath(__file__)))
sys.path.insert(0, V)
from sa.core import Repo
d, specs = sys.argv[1], sys.argv[2:]
tmp = tempfile.mkdtemp(prefix='dbg_')
shutil.copytree('/repo/src', tmp + '/src')
subprocess.run('patch -p1 -s -d %s < %s/patch.diff' % (tmp, d), shell=True)
r = Repo(root=tmp)
for k, v in r.renamed:
    print('NORMALISER', k, v)
for s in specs:
    print(ast.unparse(r.fn(s).node))
shutil.rmtree(tmp)
