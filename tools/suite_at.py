"""run the pinned suite inside a given tree (argv[1]) and compare with BASELINE stable_pass; exit 0 iff none of them is lost"""
import json, subprocess, sys, os, tempfile, xml.etree.ElementTree as ET
root = sys.argv[1]
b = json.load(open('/root/.vp/BASELINE.json'))
fd, x = tempfile.mkstemp(suffix='.xml'); os.close(fd)
cmd = 'cd %s && PYTHONPATH=%s/src /venv/bin/python -m pytest -q -p no:cacheprovider --timeout=900 --continue-on-collection-errors -n 8 --junitxml=%s' % (root, root, x)
p = subprocess.run(cmd, shell=True, capture_output=True, text=True)
passed = set()
for tc in ET.parse(x).getroot().iter('testcase'):
    if not any(c.tag in ('failure', 'error', 'skipped') for c in tc):
        passed.add('%s::%s' % (tc.get('classname'), tc.get('name')))
os.remove(x)
missing = sorted(set(b['stable_pass']) - passed)
print('passed %d; baseline tests lost: %d %s' % (len(passed), len(missing), missing[:3]))
sys.exit(1 if missing else 0)
