"""run ALL 20 checks on every stored seeded change: which properties raise an alarm on a change seeded for another one?
tools/cross.py [ids...]  -> /tmp/cross.json and a summary"""
import json, os, shutil, subprocess, sys, tempfile
from concurrent.futures import ThreadPoolExecutor
V = os.path.dirname(os.path.dirname(os.path.abspath(__file__)))
CODE = r'''
import sys, json, os
sys.path.insert(0, %r)
from sa import run as R
from sa.core import Repo
repo = Repo()
out = {}
for i in range(1, 21):
    p = 'C%%02d' %% i
    code, results = R.check(p, 'quick', repo=repo, quiet=True, write=False)
    out[p] = [code, [r['ob'].oid for r in results if r['status'] == 'VIOLATION']]
print('JSON' + json.dumps(out))
''' % V


def one(d):
    tmp = tempfile.mkdtemp(prefix='cx_')
    try:
        shutil.copytree('/repo/src', tmp + '/src')
        subprocess.run('patch -p1 -s -d %s < %s/seeded/%s/patch.diff' % (tmp, V, d), shell=True)
        q = subprocess.run(['/venv/bin/python', '-W', 'ignore', '-c', CODE], capture_output=True, text=True, env=dict(os.environ, PYG_BASE_REPO=tmp), cwd=V)
        line = [l for l in q.stdout.split('\n') if l.startswith('JSON')]
        return d, json.loads(line[0][4:]) if line else {'error': q.stderr[-300:]}
    finally:
        shutil.rmtree(tmp, ignore_errors=True)


ids = sys.argv[1:] or sorted(x for x in os.listdir(os.path.join(V, 'seeded')) if os.path.exists(os.path.join(V, 'seeded', x, 'patch.diff')))
with ThreadPoolExecutor(14) as ex:
    res = dict(ex.map(one, ids))
if sys.argv[1:] and os.path.exists('/tmp/cross.json'):  # ids given: merge into the existing table
    old = json.load(open('/tmp/cross.json')); old.update(res); new = res; res = old
json.dump(res, open('/tmp/cross.json', 'w'), indent=0)
cross = 0
for d, r in sorted(res.items()):
    tgt = d[:3]
    others = sorted(p for p, (c, obs) in r.items() if p != tgt and c == 1) if 'error' not in r else ['ERR']
    own = r.get(tgt, [None])[0] if 'error' not in r else None
    if others or own != 1:
        cross += bool(others)
        print(d, 'own exit', own, 'also alarmed:', {p: r[p][1][:3] for p in others} if others != ['ERR'] else r)
print(len(res), 'changes;', cross, 'raise an alarm in at least one other property')
