"""tools/dbg.py benign/C03-b1 _pandas:_df_reindex  -> print the normalised function of the patched tree and the normaliser stats"""
import sys, os, shutil, subprocess, tempfile, ast
V = os.path.dirname(os.path.dirname(os.path.abspath(__file__)))
sys.path.insert(0, V)
from sa.core import Repo
d, specs = sys.argv[1], sys.argv[2:]
tmp = tempfile.mkdtemp(prefix='dbg_')
shutil.copytree('/repo/src', tmp + '/src')
subprocess.run('patch -p1 -s -d %s < %s/%s/patch.diff' % (tmp, V, d), shell=True)
r = Repo(root=tmp)
for k, v in r.renamed:
    print('NORMALISER', k, v)
for s in specs:
    print(ast.unparse(r.fn(s).node))
shutil.rmtree(tmp)
