"""Run the pinned test suite of /repo and compare with BASELINE.json stable_pass (maintenance aid, not a check)."""
import json, subprocess, sys, os, tempfile, xml.etree.ElementTree as ET
b = json.load(open('/root/.vp/BASELINE.json'))
fd, x = tempfile.mkstemp(suffix='.xml'); os.close(fd)
cmd = b['cmd'].replace('<file>', x)
if len(sys.argv) > 1 and sys.argv[1] == '-n':
    cmd += ' -n 8'
p = subprocess.run(cmd, shell=True, capture_output=True, text=True)
passed = set()
for tc in ET.parse(x).getroot().iter('testcase'):
    if not any(c.tag in ('failure', 'error', 'skipped') for c in tc):
        passed.add('%s::%s' % (tc.get('classname'), tc.get('name')))
os.remove(x)
missing = sorted(set(b['stable_pass']) - passed)
print('passed %d; baseline %d; baseline tests no longer passing: %d' % (len(passed), len(b['stable_pass']), len(missing)))
for m in missing: print('  MISSING', m)
sys.exit(1 if missing else 0)
