"""(maintenance, one-off) validate sa/webs.py dynamically: write a copy of the package in which every function has its def-use webs
split into distinct identifiers (name__wK) and run the pinned suite on it - if the web computation were wrong the split program would
misbehave. Usage: tools/webs_validate.py /tmp/scratchdir"""
import ast, os, shutil, sys
V = os.path.dirname(os.path.dirname(os.path.abspath(__file__)))
sys.path.insert(0, V)
from sa import webs, normal
dst = sys.argv[1]
shutil.rmtree(dst, ignore_errors=True)
shutil.copytree('/repo', dst, ignore=shutil.ignore_patterns('.git'))
nsplit = 0
for root, _, files in os.walk(os.path.join(dst, 'src', 'pyg_base')):
    for f in files:
        if not f.endswith('.py'):
            continue
        p = os.path.join(root, f)
        tree = ast.parse(open(p).read())
        changed = 0
        for n in ast.walk(tree):
            if isinstance(n, (ast.FunctionDef, ast.AsyncFunctionDef)):
                k = webs.split(n, normal.fn_scope_locals(n))
                changed += k
        if changed:
            for n in ast.walk(tree):
                for fld in ('id', 'arg', 'name', 'asname'):
                    v = getattr(n, fld, None)
                    if isinstance(v, str) and webs.MARK in v:
                        setattr(n, fld, v.replace(webs.MARK, '__w'))
            open(p, 'w').write(ast.unparse(tree))
            nsplit += changed
print('names split:', nsplit)
