"""E1 loader/resolver + obligation model + verdict discipline for the pyg-base static checks.

Nothing here imports or executes pyg_base: sources under /repo/src are parsed with `ast` on every run.
"""
import ast, glob, hashlib, json, os, sys, time, traceback
from collections import defaultdict

REPO = os.environ.get('PYG_BASE_REPO', '/repo')
SRC_REL = 'src/pyg_base'
VERIF = os.path.dirname(os.path.dirname(os.path.abspath(__file__)))

DISCHARGED, VIOLATION, KNOWN, ERROR = 'DISCHARGED', 'VIOLATION', 'KNOWN-FINDING', 'ANALYSIS-ERROR'


class AnalysisError(Exception):
    """The locator cannot find or interpret its construct: never a pass, never an accusation."""


# --------------------------------------------------------------------------------------------- repo model

class Fn:
    """A resolved function: module, class (or None), name, ast node, enclosing Fn (for closures)."""
    __slots__ = ('mod', 'cls', 'name', 'node', 'outer', 'repo')

    def __init__(self, repo, mod, cls, name, node, outer=None):
        self.repo, self.mod, self.cls, self.name, self.node, self.outer = repo, mod, cls, name, node, outer

    @property
    def qual(self):
        q = self.name if self.cls is None else '%s.%s' % (self.cls, self.name)
        return q if self.outer is None else '%s.<locals>.%s' % (self.outer.qual, self.name)

    @property
    def construct(self):
        return '%s:%s' % (self.mod, self.qual)

    @property
    def file(self):
        return self.repo.files[self.mod]

    @property
    def body(self):
        """body without the docstring"""
        b = self.node.body
        if b and isinstance(b[0], ast.Expr) and isinstance(b[0].value, ast.Constant) and isinstance(b[0].value.value, str):
            return b[1:]
        return b

    @property
    def params(self):
        a = self.node.args
        return [x.arg for x in a.posonlyargs + a.args + a.kwonlyargs]

    def defaults(self):
        a = self.node.args
        pos = a.posonlyargs + a.args
        d = dict(zip([x.arg for x in pos][len(pos) - len(a.defaults):], a.defaults))
        for k, v in zip(a.kwonlyargs, a.kw_defaults):
            if v is not None:
                d[k.arg] = v
        return d

    def inner(self, name):
        for n in ast.walk(self.node):
            if n is not self.node and isinstance(n, (ast.FunctionDef, ast.AsyncFunctionDef)) and n.name == name:
                return Fn(self.repo, self.mod, self.cls, name, n, outer=self)
        raise AnalysisError('inner function %s not found in %s' % (name, self.construct))

    def where(self, node=None):
        n = node if node is not None and hasattr(node, 'lineno') else self.node
        src = getattr(n, '_src', None)
        if src:     # a statement of a helper inlined by sa/normal.py: report its own line
            return '%s:%d (in %s, inlined at line %d)' % (os.path.relpath(self.file, REPO), src[-1], src[0], getattr(n, '_line', n.lineno))
        return '%s:%d' % (os.path.relpath(self.file, REPO), getattr(n, '_line', n.lineno))

    def __repr__(self):
        return '<Fn %s>' % self.construct


class Repo:
    """Parsed package. `overrides` maps module name -> source text (used by self-validation on in-memory variants)."""

    def __init__(self, root=None, overrides=None, normalise=True):
        self.root = root or REPO
        self.renamed = []
        self.src_dir = os.path.join(self.root, SRC_REL)
        self.files, self.src, self.trees = {}, {}, {}
        self.funcs, self.classes = {}, {}
        self.imports = defaultdict(dict)        # mod -> local name -> (mod, name) for intra-package imports
        self.ext_imports = defaultdict(dict)    # mod -> local name -> dotted external origin
        self.class_alias = defaultdict(dict)    # (mod, cls) -> alias -> target name
        self.mod_alias = defaultdict(dict)      # mod -> alias -> ast expr (module-level `a = b`)
        self.mod_assign = defaultdict(dict)     # mod -> name -> ast value of module-level assignment
        paths = sorted(glob.glob(os.path.join(self.src_dir, '*.py')))
        if not paths:
            raise AnalysisError('no modules found under %s' % self.src_dir)
        for p in paths:
            m = os.path.basename(p)[:-3]
            self.files[m] = p
            text = overrides[m] if overrides and m in overrides else open(p, encoding='utf-8').read()
            self.src[m] = text
            try:
                self.trees[m] = ast.parse(text, filename=p)
            except SyntaxError as e:
                raise AnalysisError('module %s does not parse: %s' % (m, e))
        if normalise:
            from . import normal
            normal.normalise_repo(self.trees, use_reference=(normalise != 'noref'), stats=self.renamed)
        from .au import mark_containers
        for t in self.trees.values():
            for n in ast.walk(t):
                if isinstance(n, (ast.FunctionDef, ast.AsyncFunctionDef)):
                    mark_containers(n)          # reads of names that certainly hold a builtin container: `not x` is `len(x) == 0` there
        for m, t in self.trees.items():
            self._index(m, t)
        self._callgraph = None

    def _index(self, m, t):
        for n in t.body:
            if isinstance(n, (ast.FunctionDef, ast.AsyncFunctionDef)):
                self.funcs[(m, None, n.name)] = n
            elif isinstance(n, ast.ClassDef):
                self.classes.setdefault(n.name, (m, n))
                for b in n.body:
                    if isinstance(b, (ast.FunctionDef, ast.AsyncFunctionDef)):
                        self.funcs[(m, n.name, b.name)] = b
                    elif isinstance(b, ast.Assign) and isinstance(b.value, ast.Name):
                        for tg in b.targets:
                            if isinstance(tg, ast.Name):
                                self.class_alias[(m, n.name)][tg.id] = b.value.id
            elif isinstance(n, ast.ImportFrom) and n.module:
                for a in n.names:
                    if n.module.startswith('pyg_base.'):
                        self.imports[m][a.asname or a.name] = (n.module.split('.', 1)[1], a.name)
                    else:
                        self.ext_imports[m][a.asname or a.name] = n.module + '.' + a.name
            elif isinstance(n, ast.Import):
                for a in n.names:
                    self.ext_imports[m][a.asname or a.name.split('.')[0]] = a.name
            elif isinstance(n, ast.Assign):
                for tg in n.targets:
                    if isinstance(tg, ast.Name):
                        self.mod_assign[m][tg.id] = n.value
                        if isinstance(n.value, (ast.Name, ast.Attribute)):
                            self.mod_alias[m][tg.id] = n.value

    # ---- lookups
    def stats(self):
        return dict(modules=len(self.trees), functions=len(self.funcs), classes=len(self.classes))

    def mro(self, cname):
        out = []

        def rec(c):
            if c in out or c not in self.classes:
                return
            out.append(c)
            for b in self.classes[c][1].bases:
                if isinstance(b, ast.Name):
                    rec(b.id)
        rec(cname)
        return out

    def subclasses(self, cname):
        return sorted(c for c in self.classes if c != cname and cname in self.mro(c))

    def method(self, cname, name, after=None):
        """resolve a method by MRO (class aliases such as `__mul__ = join` followed)."""
        m = self.mro(cname)
        if after is not None and after in m:
            m = m[m.index(after) + 1:]
        for c in m:
            mod = self.classes[c][0]
            alias = self.class_alias.get((mod, c), {}).get(name)
            if alias and (mod, c, alias) in self.funcs:
                return Fn(self, mod, c, alias, self.funcs[(mod, c, alias)])
            if (mod, c, name) in self.funcs:
                return Fn(self, mod, c, name, self.funcs[(mod, c, name)])
        return None

    def fn(self, spec):
        """'mod:name' or 'mod:Class.name' (+ '.<inner>' via Fn.inner). If the module hint is stale, fall back to the
        unique definition of that qualified name anywhere in the package (functions may move between files)."""
        mod, _, qual = spec.partition(':')
        if not qual:
            mod, qual = None, spec
        parts = qual.split('.')
        cls, name = (parts[0], parts[1]) if len(parts) >= 2 else (None, parts[0])
        rest = parts[2:] if len(parts) > 2 else []
        key = (mod, cls, name)
        if key not in self.funcs:
            cands = [k for k in self.funcs if k[1] == cls and k[2] == name]
            if len(cands) == 1:
                key = cands[0]
            elif cls is not None and cls in self.classes:
                f = self.method(cls, name)
                if f is None:
                    raise AnalysisError('anchor %s not found (class %s has no method %s)' % (spec, cls, name))
                key = (f.mod, f.cls, f.name)
            else:
                raise AnalysisError('anchor %s not found (%d candidates)' % (spec, len(cands)))
        f = Fn(self, key[0], key[1], key[2], self.funcs[key])
        if not hasattr(self, 'touched'):
            self.touched = []
        if key not in self.touched:
            self.touched.append(key)
        for r in rest:
            f = f.inner(r)
        return f

    def has_fn(self, spec):
        try:
            self.fn(spec)
            return True
        except AnalysisError:
            return False

    def cls(self, name):
        if name not in self.classes:
            raise AnalysisError('class %s not found' % name)
        return self.classes[name]

    def methods(self, cname):
        mod, node = self.cls(cname)
        return [Fn(self, mod, cname, b.name, b) for b in node.body if isinstance(b, (ast.FunctionDef, ast.AsyncFunctionDef))]

    def resolve_name(self, mod, name):
        """module-level name -> Fn, ('class', cname), ('ext', dotted) or None; follows imports and `a = b` aliases."""
        seen = set()
        while (mod, name) not in seen:
            seen.add((mod, name))
            if (mod, None, name) in self.funcs:
                return Fn(self, mod, None, name, self.funcs[(mod, None, name)])
            if name in self.classes and self.classes[name][0] == mod:
                return ('class', name)
            if name in self.imports[mod]:
                mod, name = self.imports[mod][name]
                if mod not in self.trees:
                    return None
                continue
            if name in self.mod_alias[mod] and isinstance(self.mod_alias[mod][name], ast.Name):
                name = self.mod_alias[mod][name].id
                continue
            if name in self.ext_imports[mod]:
                return ('ext', self.ext_imports[mod][name])
            return None
        return None

    def module_value(self, mod, name):
        """AST of a module-level assignment (following intra-package imports)."""
        seen = set()
        while (mod, name) not in seen:
            seen.add((mod, name))
            if name in self.mod_assign[mod]:
                return mod, self.mod_assign[mod][name]
            if name in self.imports[mod]:
                mod, name = self.imports[mod][name]
                continue
            break
        raise AnalysisError('module-level value %s not found from %s' % (name, mod))

    def decorators(self, f):
        """[(resolved head name, Call-or-Name node)] for a function's decorators."""
        out = []
        for d in f.node.decorator_list:
            head = d.func if isinstance(d, ast.Call) else d
            out.append((ast.unparse(head), d))
        return out

    # ---- call graph (callee resolution by imports, self.m, super().m, type(self)/cls, and by method name)
    def callees(self, f, by_name=True):
        out = []
        for n in ast.walk(f.node):
            if not isinstance(n, ast.Call):
                continue
            for g in self.resolve_call(f, n, by_name=by_name):
                out.append((n, g))
        return out

    def resolve_call(self, f, call, by_name=True):
        fn = call.func
        if isinstance(fn, ast.Name):
            r = self.resolve_name(f.mod, fn.id)
            if isinstance(r, Fn):
                return [r]
            if isinstance(r, tuple) and r[0] == 'class':
                g = self.method(r[1], '__init__')
                return [g] if g else []
            return []
        if isinstance(fn, ast.Attribute):
            m = fn.attr
            v = fn.value
            if isinstance(v, ast.Name) and v.id in ('self', 'cls') and f.cls:
                g = self.method(f.cls, m)
                return [g] if g else []
            if isinstance(v, ast.Call) and isinstance(v.func, ast.Name) and v.func.id == 'super' and f.cls:
                after = v.args[0].id if v.args and isinstance(v.args[0], ast.Name) else f.cls
                g = self.method(f.cls, m, after=after)
                return [g] if g else []
            if isinstance(v, ast.Name):
                r = self.resolve_name(f.mod, v.id)
                if isinstance(r, tuple) and r[0] == 'class':
                    g = self.method(r[1], m)
                    return [g] if g else []
                if isinstance(r, tuple) and r[0] == 'ext':
                    return []
            if by_name and not m.startswith('__'):
                outs = []
                for c in self.classes:
                    mod = self.classes[c][0]
                    if (mod, c, m) in self.funcs:
                        outs.append(Fn(self, mod, c, m, self.funcs[(mod, c, m)]))
                return outs
        return []

    def reachable(self, f, depth=3, by_name=False):
        seen = {f.construct: f}
        frontier = [f]
        for _ in range(depth):
            nxt = []
            for g in frontier:
                for _, h in self.callees(g, by_name=by_name):
                    if h.construct not in seen:
                        seen[h.construct] = h
                        nxt.append(h)
            frontier = nxt
        return list(seen.values())


# --------------------------------------------------------------------------------------------- obligations

class Finding:
    def __init__(self, fn, node, msg, witness=None, stmt=None):
        self.fn, self.node, self.msg, self.witness = fn, node, msg, witness
        s = stmt if stmt is not None else node
        try:
            self.statement = ast.unparse(s) if isinstance(s, ast.AST) else str(s)
        except Exception:
            self.statement = '?'
        if len(self.statement) > 300:
            self.statement = self.statement[:300]
        self.status = VIOLATION
        self.known = None
        self.absent = isinstance(node, (ast.FunctionDef, ast.AsyncFunctionDef, ast.ClassDef, ast.Module))

    def as_dict(self):
        return dict(construct=self.fn.construct if self.fn else None, where=self.fn.where(self.node) if self.fn else None,
                    statement=self.statement, msg=self.msg, witness=self.witness, status=self.status)


class Ob:
    """One obligation = rule instance on an anchor."""
    registry = defaultdict(list)

    def __init__(self, oid, rule, anchor, why, func, axioms=()):
        self.oid, self.rule, self.anchor, self.why, self.func, self.axioms = oid, rule, anchor, why, func, axioms
        self.prop = oid.split('.')[0]


def obligation(oid, rule, anchor, why, axioms=()):
    def deco(func):
        Ob.registry[oid.split('.')[0]].append(Ob(oid, rule, anchor, why, func, axioms))
        return func
    return deco


class Ctx:
    """Passed to an obligation body: collects findings, facts and evaluation counts."""

    def __init__(self, repo, tier):
        self.repo, self.tier = repo, tier
        self.findings, self.facts, self.evals, self.sites, self.pending = [], {}, 0, [], []

    def fail(self, fn, node, msg, witness=None, stmt=None):
        self.findings.append(Finding(fn, node, msg, witness, stmt))

    def fact(self, k, v):
        self.facts[k] = v

    def count(self, n=1, site=None):
        self.evals += n
        if site is not None:
            self.sites.append(site)

    def need(self, cond, msg):
        if not cond:
            raise AnalysisError(msg)

    def at_least(self, n, got, what):
        """deferred: a vanished instance makes the obligation ANALYSIS-ERROR only if no violation was positively identified"""
        if got < n:
            self.pending.append('instance count for %s fell to %d (hand-confirmed minimum %d)' % (what, got, n))


def load_known():
    p = os.path.join(VERIF, 'known_findings.json')
    if not os.path.exists(p):
        return []
    return json.load(open(p))


def _nstmt(s):
    return ' '.join(str(s).split())


def match_known(known, prop, oid, finding):
    for k in known:
        if k.get('status') != 'known' or k.get('property') != prop:
            continue
        if k.get('obligation') not in (None, oid):
            continue
        if k.get('construct') != (finding.fn.construct if finding.fn else None):
            continue
        if _nstmt(k.get('statement')) != _nstmt(finding.statement):
            continue
        return k
    return None


def run_obligation(ob, repo, tier, known):
    ctx = Ctx(repo, tier)
    t0 = time.time()
    status, err = DISCHARGED, None
    try:
        ob.func(ctx)
        if ctx.pending and not ctx.findings:
            raise AnalysisError('; '.join(ctx.pending))
    except AnalysisError as e:
        status, err = ERROR, str(e)
    except RecursionError as e:
        status, err = ERROR, 'recursion limit in analysis: %s' % e
    except Exception as e:   # a crash of the checker is an analysis error, never a violation
        status, err = ERROR, 'checker exception %s: %s @ %s' % (type(e).__name__, e, traceback.format_exc().strip().split('\n')[-3:])
    if status != ERROR:
        # a finding inside a function that now delegates to a helper unknown to the reference which the normaliser could not inline:
        # the construct the rule looks for may live in that helper - the checker cannot see its subject (exit 2), it does not accuse
        opaque = [f for f in ctx.findings if f.fn is not None and getattr(f.fn.node, '_opaque', None) and f.absent]
        if opaque and len(opaque) == len(ctx.findings):      # only 'expected construct not found' reports, all in such functions
            status, err = ERROR, '%s delegates to new helper(s) %s that could not be inlined: %s' % (opaque[0].fn.construct, opaque[0].fn.node._opaque, opaque[0].msg[:120])
            ctx.findings = []
    if status != ERROR and os.environ.get('VERIF_ABSENT') == 'error':
        definite = [f for f in ctx.findings if not f.absent]
        if ctx.findings and not definite:
            status, err = ERROR, 'expected construct not found: ' + '; '.join(f.msg for f in ctx.findings[:3])
        ctx.findings = definite
    if status != ERROR:
        for f in ctx.findings:
            k = match_known(known, ob.prop, getattr(ob, 'base_oid', ob.oid), f)
            if k is not None:
                f.status, f.known = KNOWN, k
        if any(f.status == VIOLATION for f in ctx.findings):
            status = VIOLATION
        elif ctx.findings:
            status = KNOWN
    return dict(ob=ob, status=status, error=err, findings=ctx.findings, facts=ctx.facts, evals=ctx.evals, sites=ctx.sites,
                wall=time.time() - t0)


def replay_path(prop, oid, f):
    key = '%s|%s|%s' % (oid, f.fn.construct if f.fn else '', _nstmt(f.statement))
    h = hashlib.sha1(key.encode()).hexdigest()[:12]
    return os.path.join(VERIF, 'replays', '%s-%s.json' % (prop, h))


def write_replay(prop, r, f):
    p = replay_path(prop, r['ob'].oid, f)
    os.makedirs(os.path.dirname(p), exist_ok=True)
    d = dict(property=prop, obligation=r['ob'].oid, rule=r['ob'].rule, anchor=r['ob'].anchor, why=r['ob'].why,
             file=os.path.relpath(f.fn.file, REPO) if f.fn else None, line=getattr(f.node, 'lineno', None),
             function=f.fn.construct if f.fn else None, statement=f.statement, msg=f.msg, witness=f.witness,
             replay_cmd='/venv/bin/python sa/run.py --replay %s' % os.path.relpath(p, VERIF))
    with open(p, 'w') as fh:
        json.dump(d, fh, indent=1, default=str)
    return p
