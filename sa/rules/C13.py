"""C13 df_slice keeps exactly the rows in the interval; stitching switches at bounds (structural necessary conditions)."""
import ast
from ..core import obligation, AnalysisError
from .common import *


@obligation('C13.1', 'TABLES', '_pandas:_closed', "bracket parsing: ( ) o O are open, [ ] c C are closed, anything else raises", axioms=())
def c13_1(ctx):
    fn = ctx.repo.fn('_pandas:_closed')
    oc = fn.params[0]
    chain = if_chain([s for s in fn.body if isinstance(s, ast.If)][0])
    tab = {}
    for test, body in chain:
        r0 = [s for s in body if isinstance(s, ast.Return)]
        if test is None:
            tab['else'] = body
            continue
        kind, keys = classify_test(test)
        if kind == 'eq:' + oc and r0:
            for k in keys:
                tab[k] = const(r0[0].value)
    for ch, want in [(c, False) for c in '()oO'] + [(c, True) for c in '[]cC']:
        ctx.count(1, ch)
        if tab.get(ch) is not want:
            ctx.fail(fn, fn.node, "bracket %r parses as %r, expected %s" % (ch, tab.get(ch), 'closed' if want else 'open'))
    extra = [k for k in tab if k != 'else' and k not in '()oO[]cC']
    if extra:
        ctx.fail(fn, fn.node, 'unexpected bracket characters accepted: %s' % extra)
    ctx.count(1)
    if 'else' not in tab or not any(isinstance(s, ast.Raise) for s in tab['else']):
        ctx.fail(fn, fn.node, 'an unknown bracket character no longer raises')


@obligation('C13.2', 'MATCH', 'mask path of _pandas:_df_slice',
            'exactly where an off-by-one lives: a closed lower bound keeps index >= lb, an open one index > lb; a closed upper bound index <= ub, an open one index < ub',
            axioms=())
def c13_2(ctx):
    fn = ctx.repo.fn('_pandas:_df_slice')
    df = fn.params[0]
    # l, u flags
    lu = [s for s in ast.walk(fn.node) if isinstance(s, ast.Assign) and N(s.targets[0]) == '(l, u)']
    ctx.count(1, fn.where())
    if not lu or N(lu[0].value) != NS("openclose if openclose else '[)'"):
        ctx.fail(fn, lu[0] if lu else fn.node, 'the two bracket characters are not taken from openclose in (lower, upper) order')
    cl = {U(s.targets[0]): N(s.value) for s in ast.walk(fn.node) if isinstance(s, ast.Assign) and isinstance(s.value, ast.Call) and call_name(s.value) == '_closed'}
    if cl.get('l') != '_closed(l)' or cl.get('u') != '_closed(u)':
        ctx.fail(fn, fn.node, 'l/u are not parsed with _closed: %s' % cl)
    for bound, flag, closed_op, open_op in (('lb', 'l', '>=', '>'), ('ub', 'u', '<=', '<')):
        blk = [s for s in ast.walk(fn.node) if isinstance(s, ast.If) and N(s.test) == NS('%s is not None' % bound)]
        ctx.count(1, bound)
        if not blk:
            ctx.fail(fn, fn.node, 'mask for %s not found' % bound)
            continue
        a = [s for s in blk[-1].body if isinstance(s, ast.Assign) and U(s.targets[0]) == df and isinstance(s.value, ast.IfExp)]
        if not a:
            ctx.fail(fn, blk[-1], '%s is not applied as a closed/open mask' % bound)
            continue
        e = a[0].value
        if N(e.test) != flag:
            ctx.fail(fn, a[0], 'the %s mask is chosen by `%s`, expected the %s-bracket flag `%s`' % (bound, U(e.test), 'lower' if bound == 'lb' else 'upper', flag))
        want_c = NS('%s[index %s %s]' % (df, closed_op, bound))
        want_o = NS('%s[index %s %s]' % (df, open_op, bound))
        if N(e.body) != want_c or N(e.orelse) != want_o:
            ctx.fail(fn, a[0], '%s mask is `%s` when closed and `%s` when open; expected `index %s %s` / `index %s %s`' % (bound, U(e.body), U(e.orelse), closed_op, bound, open_op, bound))


@obligation('C13.3', 'PROP', 'fast path of _pandas:_df_slice',
            'label slicing df[lb:ub] on a sorted DatetimeIndex is closed on both ends (A4): it may be taken only when each bound is closed or absent',
            axioms=('A4',))
def c13_3(ctx):
    fn = ctx.repo.fn('_pandas:_df_slice')
    df = fn.params[0]
    ts = [s for s in ast.walk(fn.node) if isinstance(s, ast.If) and N(s.test) == 'is_ts(%s)' % df]
    ctx.need(ts, 'timeseries branch of _df_slice not found')
    fast = [s for s in ts[0].body if isinstance(s, ast.If) and any(isinstance(r, ast.Return) and N(r.value) == '%s[lb:ub]' % df for r in ast.walk(s))]
    ctx.count(1, fn.where(ts[0]))
    if not fast:
        # no `return df[lb:ub]`: is the label slice taken at all? If it is (assigned, trimmed afterwards ...) its guard is still the question
        pm = parent_map(fn.node)
        for sl in [x for x in ast.walk(ts[0]) if isinstance(x, ast.Subscript) and isinstance(x.slice, ast.Slice) and U(x.value) == df and isinstance(x.ctx, ast.Load)
                   and x.slice.lower is not None and x.slice.upper is not None and U(x.slice.lower) == 'lb' and U(x.slice.upper) == 'ub']:
            guards, n = [], sl
            while n is not ts[0] and n in pm:
                p = pm[n]
                if isinstance(p, ast.If) and p is not ts[0]:
                    guards.append(p.test if any(n is b or n in ast.walk(b) for b in p.body) else ast.UnaryOp(ast.Not(), p.test))
                n = p
            atoms0 = ['l', 'u', NS('lb is None'), NS('ub is None')]
            t_all = ast.BoolOp(ast.And(), guards) if len(guards) > 1 else (guards[0] if guards else ast.Constant(True))
            atoms_all = atoms0 + [a for a in bool_atoms(t_all) if a not in atoms0]
            import itertools
            ctx.count(1, fn.where(sl))
            for bits in itertools.product([False, True], repeat=len(atoms_all)):
                env = dict(zip(atoms_all, bits))
                if bool_eval(t_all, env) and not ((env['l'] or env[atoms0[2]]) and (env['u'] or env[atoms0[3]])):
                    st = enclosing_stmt(pm, sl)
                    trims = [x for x in ast.walk(ts[0]) if isinstance(x, ast.Subscript) and isinstance(x.value, ast.Attribute) and x.value.attr == 'iloc' and isinstance(x.slice, ast.Slice)]
                    if trims:
                        ctx.fail(fn, st, 'the closed-closed label slice %s[lb:ub] is taken although a bound is open (%s) and the boundary is then trimmed by position (`%s`): one row is removed, so with a repeated timestamp on the bound the other rows on it are kept' % (
                            df, {k: v for k, v in env.items() if k in atoms0}, U(trims[0])), witness=env)
                        return
                    raise AnalysisError('the label slice %s[lb:ub] is evaluated although a bound may be open (%s) and its result is post-processed in a way this rule cannot judge' % (df, env))
        return     # no fast path: nothing to guard
    t = fast[0].test
    atoms = ['l', 'u', NS('lb is None'), NS('ub is None')]
    extra = [a for a in bool_atoms(t) if a not in atoms]
    if extra:
        raise AnalysisError('unrecognised atoms in the fast-path condition: %s' % extra)
    import itertools
    bad = []
    for bits in itertools.product([False, True], repeat=4):
        env = dict(zip(atoms, bits))
        if bool_eval(t, env) and not ((env['l'] or env[atoms[2]]) and (env['u'] or env[atoms[3]])):
            bad.append(env)
    ctx.count(16)
    if bad:
        ctx.fail(fn, fast[0], 'the closed-closed label slice %s[lb:ub] is taken although a bound is open: %s' % (df, bad[0]), witness=bad[0])
    # the slice must sit in try/except falling through to the mask path
    tr = [s for s in fast[0].body if isinstance(s, ast.Try)]
    if not tr or not any(isinstance(x, ast.Pass) for h in tr[0].handlers for x in h.body):
        ctx.fail(fn, fast[0], 'a failing label slice no longer falls back to the mask path')


@obligation('C13.4', 'MATCH', 'time-of-day bounds in _pandas:_df_slice',
            'bounds given as times of day are compared with each row\'s time of day', axioms=())
def c13_4(ctx):
    fn = ctx.repo.fn('_pandas:_df_slice')
    for bound in ('lb', 'ub'):
        ctx.count(1, bound)
        blk = [s for s in ast.walk(fn.node) if isinstance(s, ast.If) and N(s.test) == NS('%s is not None' % bound)]
        ok = False
        if blk:
            t = [s for s in blk[-1].body if isinstance(s, ast.If) and N(s.test) == 'isinstance(%s, datetime.time)' % bound]
            if t and any(isinstance(a, ast.Assign) and U(a.targets[0]) == 'index' and N(a.value) == 'index.time' for a in t[0].body):
                ok = True
            ix = [s for s in blk[-1].body if isinstance(s, ast.Assign) and U(s.targets[0]) == 'index']
            if not ix or N(ix[0].value) != NS('%s if isinstance(%s, pd.Index) else %s.index' % (fn.params[0], fn.params[0], fn.params[0])):
                ctx.fail(fn, blk[-1], 'the compared index is not the (current) index of the data for %s' % bound)
        if not ok:
            ctx.fail(fn, blk[-1] if blk else fn.node, 'a datetime.time %s is no longer compared with index.time' % bound)
    # time bounds are not pushed through dt()
    ctx.count(1)
    conv = [s for s in ast.walk(fn.node) if isinstance(s, ast.Assign) and U(s.targets[0]) in ('lb', 'ub') and 'dt(' in U(s.value)]
    for s in conv:
        b = U(s.targets[0])
        if N(s.value) != NS('%s if %s is None or isinstance(%s, datetime.time) else dt(%s)' % (b, b, b, b)):
            ctx.fail(fn, s, 'bound conversion `%s` no longer leaves None / time-of-day bounds alone' % U(s.value))


def _wrap_branch(fn):
    for s in fn.body:
        if isinstance(s, ast.If) and 'datetime.time' in U(s.test) and N(conjuncts(s.test)[-1]) in (NS('lb > ub'), NS('ub < lb')):
            return s
    return None


@obligation('C13.5', 'MATCH', '_pandas:df_slice',
            'a time window whose start is later than its end wraps past midnight (rows up to ub plus rows from lb); bound lists become consecutive intervals AFTER being put in increasing order together with the data; n columns come from series i..i+n-1',
            axioms=())
def c13_5(ctx):
    fn = ctx.repo.fn('_pandas:df_slice')
    df = fn.params[0]
    w = _wrap_branch(fn)
    ctx.count(1, fn.where())
    if w is None:
        ctx.fail(fn, fn.node, 'the wrap-past-midnight branch (time bounds with lb > ub) is gone')
    else:
        calls = [c for c in calls_in(w, 'df_slice')]
        heads = sorted((U(c.args[1]), U(c.args[2])) for c in calls if len(c.args) >= 3)
        rets = [r for r in w.body if isinstance(r, ast.Return)]
        if heads == [('None', 'ub'), ('lb', 'None')] and rets and 'concat' in U(rets[0].value) and 'sort_index' in U(rets[0].value):
            pass
        elif any(h == ('ub', 'lb') for h in heads):
            ctx.fail(fn, w, 'the wrapped window is computed as the complement of the slice (ub, lb) with the SAME brackets: the complement needs the opposite closedness at both ends, so rows exactly at lb/ub are wrong for "[]" and "()"',
                     witness="df_slice(ts, time(22), time(2), '[]') must include rows at exactly 22:00 and 02:00")
        else:
            raise AnalysisError('unrecognised implementation of the wrapped time window')
    # list branches
    lists = [s for s in fn.body if isinstance(s, ast.If) and N(s.test) == 'isinstance(%s, list)' % df]
    ctx.need(len(lists) == 1, 'list branch of df_slice not found')
    inner = [s for s in lists[0].body if isinstance(s, ast.If) and 'isinstance(' in U(s.test)]
    ctx.need(inner, 'bound-list cases not found')
    cases = if_chain(inner[0])
    seen = set()
    for test, body in cases:
        if test is None:
            continue
        t = N(test)
        for given, derived, expr in (('lb', 'ub', NS('lb[1:] + [None]')), ('ub', 'lb', NS('[None] + ub[:-1]'))):
            if t == NS('isinstance(%s, list) and %s is None' % (given, derived)):
                seen.add(given)
                ctx.count(1, given)
                der = [s for s in body if isinstance(s, ast.Assign) and U(s.targets[0]) == derived]
                rev = [s for s in body if isinstance(s, ast.If) and N(s.test) == NS('not _is_non_decreasing(%s)' % given)]
                if not der or N(der[0].value) != expr:
                    ctx.fail(fn, der[0] if der else body[0], 'the %s list is derived as `%s`, expected `%s` (consecutive intervals)' % (derived, U(der[0].value) if der else '?', expr))
                if not rev:
                    ctx.fail(fn, body[0], 'a decreasing %s list is no longer put in increasing order (together with the data) before the intervals are derived from it: the derived intervals are then empty or unbounded' % given,
                             witness='df_slice([s1, s2, s3], ub = [d3, d2, d1])')
                else:
                    rv = {U(a.targets[0]): N(a.value) for a in rev[0].body if isinstance(a, ast.Assign)}
                    if rv.get(given) != '%s[::-1]' % given or rv.get(df) != '%s[::-1]' % df:
                        ctx.fail(fn, rev[0], 'bounds and data are not reversed together: %s' % rv)
                    if der and der[0].lineno < rev[0].lineno:
                        ctx.fail(fn, der[0], 'the other bound is derived before the list is put in increasing order')
        if t == NS('isinstance(ub, list) and isinstance(lb, list)'):
            seen.add('both')
            ctx.count(1, 'both')
            if not any(isinstance(r, ast.Raise) for r in ast.walk(ast.Module(body, []))):
                ctx.fail(fn, body[0], 'bound lists running in different directions are no longer rejected')
            rev = [s for s in body if isinstance(s, ast.If) and N(s.test) == NS('not lb_increasing')]
            if rev:
                rv = {U(a.targets[0]) for a in rev[0].body if isinstance(a, ast.Assign) and '[::-1]' in U(a.value)}
                if rv != {df, 'lb', 'ub'}:
                    ctx.fail(fn, rev[0], 'data, lower and upper bounds are not all reversed together: %s' % sorted(rv))
    for k in ('lb', 'ub', 'both'):
        if k not in seen:
            ctx.fail(fn, inner[0], 'df_slice no longer handles the case where %s given as list(s)' % ('both bounds are' if k == 'both' else k + ' alone is'))
    # n > 1: concat of df[i:i+n] column-wise
    ctx.count(1)
    nn = [s for s in lists[0].body if isinstance(s, ast.If) and N(s.test) == NS('n > 1')]
    ok = nn and any(isinstance(a, ast.Assign) and N(a.value) == NS('[pd.concat(%s[i:i + n], axis=1) for i in range(len(%s))]' % (df, df)) for a in nn[0].body)
    if not ok:
        ctx.fail(fn, nn[0] if nn else lists[0], 'n-column stitching is not pd.concat(df[i:i+n], axis = 1) per position i')
    # final slicing: every (d, l, u) through _df_slice with the brackets, concat when both are lists
    ctx.count(1)
    res = [s for s in fn.body if isinstance(s, ast.Assign) and U(s.targets[0]) == 'res' and isinstance(s.value, ast.ListComp)]
    if not res or N(res[0].value) != NS('[_df_slice(d, lb=l, ub=u, openclose=openclose) for d, l, u in dlu]'):
        ctx.fail(fn, res[0] if res else fn.node, 'the pieces are not _df_slice(d, lb = l, ub = u, openclose = openclose) over the zipped (data, lb, ub)')
    z = single_assign(fn, 'dlu')
    if z is None or N(z) != 'zipper(dfs, lb, ub)':
        ctx.fail(fn, fn.node, 'data and bounds are not zipped as zipper(dfs, lb, ub)')


@obligation('C13.6', 'SIBLING', '_pandas:df_unslice vs df_slice',
            'df_unslice is the inverse of the default stitching: same consecutive intervals (lb = [None] + ub[:-1]) and the same bracket literal',
            axioms=())
def c13_6(ctx):
    fn = ctx.repo.fn('_pandas:df_unslice')
    f2 = ctx.repo.fn('_pandas:df_slice')
    default_oc = const(f2.defaults().get('openclose'))
    ctx.count(1, fn.where())
    txt = U(fn.node)
    lbk = [k for c in calls_in(fn.node, 'dictable') for k in c.keywords if k.arg == 'lb']
    if not lbk or N(lbk[0].value) != NS('[None] + ub[:-1]'):
        ctx.fail(fn, fn.node, 'df_unslice intervals are not lb = [None] + ub[:-1]')
    sl = [c for c in calls_in(fn.node, 'df_slice')]
    ctx.count(1)
    if not sl:
        ctx.fail(fn, fn.node, 'df_unslice no longer cuts with df_slice')
    else:
        oc = sl[0].args[3] if len(sl[0].args) > 3 else kw(sl[0], 'openclose')
        if oc is not None and const(oc) != default_oc:
            ctx.fail(fn, sl[0], 'df_unslice cuts with brackets %r but df_slice stitches with %r by default' % (const(oc), default_oc))
        if [U(a) for a in sl[0].args[:3]] != ['df', 'lb', 'ub']:
            ctx.fail(fn, sl[0], 'df_unslice cuts df_slice(%s)' % ', '.join(U(a) for a in sl[0].args[:3]))
    ctx.count(1)
    if default_oc != '(]':
        ctx.fail(f2, f2.node, "default brackets of df_slice are %r, the statement's stitching is (ub[i-1], ub[i]]" % default_oc)
    if const(ctx.repo.fn('_pandas:_df_slice').defaults().get('openclose')) is None:
        ctx.fail(f2, f2.node, '_df_slice lost its bracket default')


@obligation('C13.7', 'FORWARDING', 'self-recursive calls of df_slice and its calls to _df_slice',
            'rows are kept "as the two bracket characters prescribe": every recursive call and every call to the worker must pass the openclose policy on, else that path silently reverts to the default brackets',
            axioms=())
def c13_7(ctx):
    fn = ctx.repo.fn('_pandas:df_slice')
    params = fn.params
    pos = params.index('openclose')
    n = 0
    pm = parent_map(fn.node)
    for c in calls_in(fn.node):
        if call_name(c) == 'df_slice' and isinstance(c.func, ast.Name):
            n += 1
            ctx.count(1, fn.where(c))
            v = c.args[pos] if len(c.args) > pos else kw(c, 'openclose')
            if v is None or U(v) != 'openclose':
                ctx.fail(fn, enclosing_stmt(pm, c), 'recursive call %s does not forward openclose: this path uses the default brackets whatever the caller asked for' % U(c), stmt=c)
        if call_name(c) == '_df_slice':
            n += 1
            ctx.count(1, fn.where(c))
            v = kw(c, 'openclose') or (c.args[3] if len(c.args) > 3 else None)
            if v is None or U(v) != 'openclose':
                ctx.fail(fn, enclosing_stmt(pm, c), 'call %s does not forward openclose' % U(c), stmt=c)
    ctx.at_least(2, n, 'recursive / worker calls in df_slice')
    # _nona's edge cuts use closed brackets explicitly (they must include the boundary row)
    g = ctx.repo.fn('_pandas:_nona')
    for c in calls_in(g.node, 'df_slice'):
        ctx.count(1)
        if const(kw(c, 'openclose')) != '[]':
            ctx.fail(g, c, 'edge cut of _nona does not use closed brackets: the first/last valid row would be dropped')


@obligation('C13.8', 'DEF-USE (bounds are what the caller gave)', '_pandas:_df_slice, _pandas:df_unslice',
            'rows are kept exactly as lb/ub and the brackets prescribe: inside the single-slice helper a bound may only be converted (dt) - dropping a bound because it "precedes the data" changes an open bracket into a closed one on the boundary row; '
            'df_unslice returns one series per bound, so no window may be filtered away',
            axioms=())
def c13_8(ctx):
    fn = ctx.repo.fn('_pandas:_df_slice')
    pm = parent_map(fn.node)
    for b in ('lb', 'ub'):
        for s in body_nodes(fn.node):
            if isinstance(s, ast.Assign) and U(s.targets[0]) == b:
                ctx.count(1, fn.where(s))
                if N(s.value) == NS('%s if %s is None or isinstance(%s, datetime.time) else dt(%s)' % (b, b, b, b)):
                    continue
                g = pm.get(s)
                if const(s.value, 'X') is None:
                    ctx.fail(fn, g if isinstance(g, ast.If) else s, 'the bound `%s` is discarded under `%s`: when it coincides with a row the open/closed bracket no longer decides whether that row is kept (the label slice is closed on both ends)' % (b, U(g.test) if isinstance(g, ast.If) else '?'),
                             witness="df_slice(ts, lb = ts.index[0], openclose = '(]') must drop the first row")
                else:
                    raise AnalysisError('unrecognised rebinding of %s in _df_slice: %s' % (b, U(s)))
    # the number of stitched columns and the brackets are the caller's: df_slice never rebinds n / openclose (a clamped n loses a column)
    top = ctx.repo.fn('_pandas:df_slice')
    for p in ('n', 'openclose'):
        ctx.count(1, '%s: parameter %s' % (top.qual, p))
        for s in ast.walk(top.node):
            tg = [t for t in ast.walk(s) if isinstance(t, ast.Name) and t.id == p and isinstance(t.ctx, ast.Store)] if isinstance(s, (ast.Assign, ast.AugAssign, ast.AnnAssign, ast.For, ast.NamedExpr)) else []
            if tg and not isinstance(s, ast.For) or (isinstance(s, ast.For) and any(isinstance(t, ast.Name) and t.id == p for t in ast.walk(s.target))):
                ctx.fail(top, s, 'df_slice rebinds its parameter `%s` (`%s`): the caller asked for exactly %s' % (p, U(s)[:80], 'n stitched columns' if p == 'n' else 'these brackets'),
                         witness='df_slice([a, b, c], ub = dates, n = 3) must return 3 columns')
    ctx.count(1)
    purity(ctx, [fn, ctx.repo.fn('_pandas:df_slice')], params={'df'}, what='sliced data')
    g = ctx.repo.fn('_pandas:df_unslice')
    ctx.count(1, g.where())
    body = [U(s) for s in g.body]
    want = ["n = df.shape[1] if is_df(df) else 1",
            "res = dictable(ub=ub, lb=[None] + ub[:-1], i=range(len(ub)))",
            "res = res(ts=lambda lb, ub: df_slice(df, lb, ub, '(]'))",
            "res = res(rs=lambda i, ts: dictable(u=ub[i:i + n], j=range(len(ub[i:i + n])))(ts=lambda j: ts[j]))",
            "rs = dictable.concat(res.rs).listby('u').do([pd.concat, nona], 'ts')",
            "return dict(rs['u', 'ts'])"]
    for c in calls_in(g.node):
        if call_name(c) in ('inc', 'exc') or (call_name(c) == 'filter'):
            ctx.fail(g, enclosing_stmt(parent_map(g.node), c), 'df_unslice filters its per-bound windows with %s(...): a bound whose windows are all empty disappears from the result, so there is no longer one series per bound and re-stitching cannot line up' % call_name(c),
                     witness='a frame whose history starts after the first roll date')
    if not ctx.findings and [b for b in body if b in want] != want:
        missing = [w for w in want if w not in body]
        raise AnalysisError('df_unslice pipeline changed: missing %s' % missing[:2])


@obligation('C13.9', 'TABLES (guards by truth table)', '_pandas:_df_slice, _pandas:df_slice',
            'the slice applies to non-empty pandas objects when at least one bound is given; bounds are converted with dt unless None or a time of day; the pieces of a stitch are concatenated, a single piece returned as is',
            axioms=())
def c13_9(ctx):
    r = ctx.repo
    f = r.fn('_pandas:_df_slice')
    df = f.params[0]
    top = [s for s in f.body if isinstance(s, ast.If)]
    ctx.count(1, f.where())
    ok, w = (False, None)
    if top:
        ok, w = prop_equiv(top[0].test, 'isinstance(%s, (pd.Index, pd.Series, pd.DataFrame)) and len(%s) > 0 and (ub is not None or lb is not None)' % (df, df))
    if not ok:
        ctx.fail(f, top[0] if top else f.node, 'slicing is applied when `%s`, expected: a non-empty pandas object and at least one bound' % (U(top[0].test) if top else '?'), witness=w)
    for b in ('lb', 'ub'):
        ctx.count(1)
        if not any(isinstance(s, ast.Assign) and U(s.targets[0]) == b and N(s.value) == NS('%s if %s is None or isinstance(%s, datetime.time) else dt(%s)' % (b, b, b, b)) for s in ast.walk(f.node)):
            ctx.fail(f, f.node, 'the bound %s is no longer converted with dt() (strings/ints would be compared with timestamps)' % b)
    nts = [s for s in ast.walk(f.node) if isinstance(s, ast.If) and N(s.test) == 'is_ts(%s)' % df]
    if nts and else_of(nts[0]) and isinstance(else_of(nts[0])[0], ast.If):
        ctx.count(1)
        ok, w = prop_equiv(else_of(nts[0])[0].test, '(l or lb is None) and (ub is None or not u)')
        if not ok:
            ctx.fail(f, else_of(nts[0])[0], 'positional slicing of a non-timeseries (closed start, open end) is taken when `%s`' % U(else_of(nts[0])[0].test), witness=w)
    rr = returns_of(f.node)
    if not rr or U(rr[-1].value) != df:
        ctx.fail(f, f.node, '_df_slice does not return the (masked) data')
    g = r.fn('_pandas:df_slice')
    dfp = g.params[0]
    ctx.count(1, g.where())
    d = g.defaults()
    if const(d.get('n')) != 1 or const(d.get('lb'), 'X') is not None or const(d.get('ub'), 'X') is not None:
        ctx.fail(g, g.node, 'defaults of df_slice changed: lb=%s ub=%s n=%s' % (U(d.get('lb')), U(d.get('ub')), U(d.get('n'))))
    expect_guards(ctx, g, [
        ('isinstance(lb, tuple) and len(lb) == 2 and ub is None', 'lb, ub = lb', 'a (lb, ub) pair'),
        ('len(res) == 0', 'return None', 'nothing to slice'),
        ('len(res) == 1', 'return res[0]', 'a single piece is returned as is'),
        ('isinstance(lb, list) and isinstance(ub, list)', 'res = pd.concat(res)', 'the pieces of a stitch are concatenated'),
        ('ub_increasing != lb_increasing', "raise ValueError('must have both lower bounds and upper bounds in same direction')", 'bound lists must run the same way'),
    ], where=g.body + [x for s in g.body if isinstance(s, ast.If) for x in ast.walk(s) if isinstance(x, ast.If)])
    ctx.count(1)
    defs = {U(s.targets[0]): N(s.value) for s in ast.walk(g.node) if isinstance(s, ast.Assign) and isinstance(s.targets[0], ast.Name)}
    if defs.get('boundaries') != NS('sorted(set([date for date in lb + ub if date is not None]))'):
        ctx.fail(g, g.node, 'boundaries are `%s`' % defs.get('boundaries'))
    if defs.get('dfs') != 'as_list(%s)' % dfp:
        ctx.fail(g, g.node, 'the data are not as_list(df)')
    conv = [s for s in ast.walk(g.node) if isinstance(s, ast.Assign) and U(s.targets[0]) == dfp and 'pd.Series(' in U(s.value)]
    if not conv or N(conv[0].value) != NS('[d if is_pd(d) else pd.Series(d, boundaries) for d in %s]' % dfp):
        ctx.fail(g, conv[0] if conv else g.node, 'constants to stitch are not turned into series over the boundaries')
    cols = [s for s in ast.walk(g.node) if isinstance(s, ast.Assign) and U(s.targets[0]) == 'd.columns']
    if not cols or N(cols[0].value) != 'range(d.shape[1])':
        ctx.fail(g, cols[0] if cols else g.node, 'the n stitched columns are not numbered 0..n-1')
    else:
        pm_ = parent_map(g.node)
        par = pm_.get(cols[0])
        if not isinstance(par, ast.For):
            ctx.fail(g, par if par is not None else cols[0], 'the stitched columns are renumbered only when `%s`: window i must ALWAYS have columns 0..n-1 (named series would otherwise be aligned by name when the windows are stacked)' % (U(par.test) if isinstance(par, ast.If) else '?'),
                     witness='df_slice of named series with n = 2')
    rr = returns_of(g.node)
    if not rr or U(rr[-1].value) != 'res':
        ctx.fail(g, g.node, 'df_slice does not return the sliced result')
    nn = r.fn('_pandas:_nona')
    ctx.count(1, nn.where())
    w_ = [s for s in nn.body if isinstance(s, ast.While)]
    if not w_ or not prop_equiv(w_[0].test, 'len(mask.shape) > 1')[0] or N(w_[0].body[0].value) != 'mask.min(axis=1)':
        ctx.fail(nn, w_[0] if w_ else nn.node, '_nona does not reduce the mask over the columns while it has more than one dimension')


@obligation('C13.10', 'TABLES (guards by truth table) + PATH', '_pandas:_is_non_decreasing',
            'stitching puts decreasing bound lists in chronological order first: the direction test answers "non-decreasing" without looking only for FEWER THAN TWO bounds (two bounds can be decreasing), ignores a leading/trailing None, and otherwise compares the list with its sorted self (reverse-sorted: decreasing; neither: error)',
            axioms=())
def c13_10(ctx):
    f = ctx.repo.fn('_pandas:_is_non_decreasing')
    v = f.params[0]
    expect_guards(ctx, f, [('len(%s) < 2' % v, 'return True', 'nothing to order'),
                           ('%s[-1] is None' % v, '%s = %s[:-1]' % (v, v), 'an open end is not a bound'),
                           ('%s[0] is None' % v, '%s = %s[1:]' % (v, v), 'an open start is not a bound')], where=f.body)
    ctx.count(1)
    sv = [s for s in f.body if isinstance(s, ast.Assign) and N(s.value) == 'sorted(%s)' % v]
    if not sv:
        ctx.fail(f, f.node, 'the bounds are not compared with their sorted self')
        return
    name = U(sv[0].targets[0])
    expect_guards(ctx, f, [('%s == %s' % (name, v), 'return True', 'already chronological'),
                           ('%s == %s[::-1]' % (name, v), 'return False', 'decreasing: to be reversed')])
    if not any(isinstance(n, ast.Raise) for n in ast.walk(f.node)):
        ctx.fail(f, f.node, 'bounds that are neither increasing nor decreasing are no longer rejected')
