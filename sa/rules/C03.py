"""C03 alignment puts all timeseries on the prescribed common index (structural necessary conditions)."""
import ast
from ..core import obligation, AnalysisError
from .common import *
from ..core import Fn


def _policy_table(ctx, fn, subject_param):
    """{letter: return-expression text} from the `X[0].lower() == 'l'` chain of _df_index/_np_index."""
    tab = {}
    for n in body_nodes(fn.node):
        if isinstance(n, ast.If):
            for test, body in if_chain(n):
                if test is None:
                    continue
                kind, keys = classify_test(test)
                if kind.startswith('eq:') and '[0]' in kind and 'lower' in kind and len(keys) == 1 and isinstance(keys[0], str) and len(keys[0]) == 1:
                    rets = [s for s in body if isinstance(s, ast.Return)]
                    if rets and keys[0] not in tab:
                        tab[keys[0]] = (rets[0], U(rets[0].value))
    return tab


@obligation('C03.1', 'TABLES', '_pandas:_df_index, _pandas:_np_index',
            'the join policies of the statement: inner = intersection (shortest array), outer = union (longest), left = first, right = last; an explicit index is used as given',
            axioms=('A4',))
def c03_1(ctx):
    fn = ctx.repo.fn('_pandas:_df_index')
    seq = fn.params[0]
    tab = _policy_table(ctx, fn, fn.params[1])
    expect = {'i': lambda t: 'intersection' in t and 'union' not in t, 'o': lambda t: 'union' in t and 'intersection' not in t,
              'l': lambda t: t.replace(' ', '') == '%s[0]' % seq, 'r': lambda t: t.replace(' ', '') == '%s[-1]' % seq}
    for k, ok in expect.items():
        ctx.count(1, fn.where())
        if k not in tab:
            ctx.fail(fn, fn.node, "join policy '%s' has no branch in _df_index" % k)
        elif not ok(tab[k][1]):
            ctx.fail(fn, tab[k][0], "join policy '%s' returns %s" % (k, tab[k][1]))
    _only_policy_returns(ctx, fn, seq, fn.params[1], {'i': lambda t: 'intersection' in t, 'o': lambda t: 'union' in t, 'l': lambda t: t == NS('%s[0]' % seq), 'r': lambda t: t == NS('%s[-1]' % seq)}, str_guard=True)
    # explicit index
    ctx.count(1)
    rets = [r for r in returns_of(fn.node) if isinstance(r.value, ast.Call) and call_name(r.value) == '_index' and U(r.value.args[0]) == fn.params[1]]
    if not rets:
        ctx.fail(fn, fn.node, 'an explicitly supplied index is no longer passed through _index(index)')
    fn = ctx.repo.fn('_pandas:_np_index')
    seq = fn.params[0]
    tab = _policy_table(ctx, fn, fn.params[1])
    expect = {'i': 'min(%s)' % seq, 'o': 'max(%s)' % seq, 'l': '%s[0]' % seq, 'r': '%s[-1]' % seq}
    for k, want in expect.items():
        ctx.count(1, fn.where())
        if k not in tab:
            ctx.fail(fn, fn.node, "join policy '%s' has no branch in _np_index" % k)
        elif tab[k][1].replace(' ', '') != want:
            ctx.fail(fn, tab[k][0], "array join policy '%s' returns %s, expected %s" % (k, tab[k][1], want))
    _only_policy_returns(ctx, fn, seq, fn.params[1], {k: (lambda t, w=w: t == NS(w)) for k, w in expect.items()}, str_guard=False)


def _only_policy_returns(ctx, fn, seq, policy, table, str_guard):
    """every path that returns a common index for a named policy must be a row of the policy table: a shortcut that returns before (or
    instead of) the set operation decides the index without looking at its members"""
    for p in sym_paths(fn):
        if p.term != 'return' or p.value is None or (isinstance(p.value, ast.Constant) and p.value.value is None):
            continue
        if str_guard and not p.holds('is_str(%s)' % policy, True):
            continue
        ctx.count(1, fn.where(p.node))
        letters = [k for k in table if p.holds("%s[0].lower() == '%s'" % (policy, k), True)]
        if not letters:
            ctx.fail(fn, p.node, '%s returns `%s` on the path [%s] without consulting the join policy: the common index must come from the policy table (inner = intersection, outer = union, left = first, right = last), not from a shortcut' % (
                fn.qual, p.text(), ' & '.join(('' if q else 'not ') + t for t, q, _ in p.conds)[:200]),
                witness='indices [d1, d2, d3, d6] and [d1, d2, d5, d6] have the same length and end points but a different intersection/union')
        elif not table[letters[0]](p.text()):
            ctx.fail(fn, p.node, "join policy '%s' returns %s" % (letters[0], p.text()))


@obligation('C03.2', 'MATCH', '_pandas:_df_reindex (pandas branch)',
            'a fill method means the last/next NON-NaN observation (as-of join): the series must be NaN-stripped before reindex(method=...)',
            axioms=('A4',))
def c03_2(ctx):
    fn = ctx.repo.fn('_pandas:_df_reindex')
    ts, index = fn.params[0], fn.params[1]
    calls = [c for c in calls_in(fn.node, 'reindex') if isinstance(c.func, ast.Attribute)]
    ctx.at_least(2, len(calls), '.reindex call sites in _df_reindex')
    filled = [c for c in calls if kw(c, 'method') is not None]
    if not filled:
        ctx.fail(fn, fn.node, 'no reindex(..., method=...) call: fill methods are no longer applied as an as-of join')
    for c in calls:
        ctx.count(1, fn.where(c))
        if not c.args or U(c.args[0]) != index:
            ctx.fail(fn, c, 'reindex target is %s, not the common index `%s`' % (U(c.args[0]) if c.args else '?', index))
    for c in filled:
        recv = N(c.func.value)
        if recv in ('%s.dropna()' % ts, NS("%s.dropna(how='any')" % ts)):
            ctx.fail(fn, c, 'the series is stripped with `%s` before the as-of fill: for a DataFrame dropna() defaults to how="any" and discards rows that are only partially NaN, so surviving timestamps lose real values in their other columns' % recv,
                     witness='a two-column frame with a partially-NaN row, df_reindex(..., method="ffill")')
        elif recv not in ('_nona(%s)' % ts, 'nona(%s)' % ts, NS("%s.dropna(how='all')" % ts)):
            ctx.fail(fn, c, 'as-of fill is applied to `%s`; NaN observations would be carried forward instead of the last non-NaN value' % recv)
        m = kw(c, 'method')
        if N(m) != 'methods[0]':
            g = single_assign(fn, 'methods')
            ctx.fail(fn, c, 'reindex fill method is %s, not the first requested method' % U(m))
    # the guard naming the fill methods
    ctx.count(1)
    guard = [n for n in body_nodes(fn.node) if isinstance(n, ast.If) and 'methods[0] in' in U(n.test)]
    if guard:
        names = set()
        for c in ast.walk(guard[0].test):
            if isinstance(c, ast.Constant) and isinstance(c.value, str):
                names.add(c.value)
        if not {'ffill', 'bfill'} <= names:
            ctx.fail(fn, guard[0], 'fill-method guard no longer admits ffill and bfill: %s' % sorted(names))
        # remaining methods applied afterwards
        rest = [c for c in calls_in(guard[0], '_df_fillna') if kw(c, 'method') is not None]
        if not rest or N(kw(rest[0], 'method')) != 'methods[1:]':
            ctx.fail(fn, guard[0], 'methods after the first are no longer applied after the as-of reindex')
    else:
        ctx.fail(fn, fn.node, 'guard selecting the as-of fill methods not found')


@obligation('C03.3', 'MATCH+NUM', '_pandas:_df_reindex (array branch)',
            'bare numpy arrays align at the end: a longer array loses leading rows (keeps its tail), a shorter one is NaN-padded in front',
            axioms=('A4',))
def c03_3(ctx):
    fn = ctx.repo.fn('_pandas:_df_reindex')
    ts, index = fn.params[0], fn.params[1]
    found = 0
    for n in body_nodes(fn.node):
        if isinstance(n, ast.If):
            for test, body in if_chain(n):
                if test is None:
                    continue
                t = N(test)
                if t == NS('%s < len(%s)' % (index, ts)):
                    found += 1
                    ctx.count(1, fn.where(body[0]))
                    a = [s for s in body if isinstance(s, ast.Assign)]
                    if not a or N(a[0].value) != NS('%s[-%s:]' % (ts, index)):
                        ctx.fail(fn, body[0], 'a longer array is cut with `%s`, not its tail %s[-%s:]' % (U(a[0].value) if a else '?', ts, index))
                if t == NS('%s > len(%s)' % (index, ts)):
                    found += 1
                    ctx.count(1, fn.where(body[0]))
                    cc = [c for s in body for c in calls_in(s, 'concatenate')]
                    pads = [c for s in body for c in calls_in(s, 'pad')]
                    if pads and not cc:
                        pw = pads[0].args[1] if len(pads[0].args) > 1 else kw(pads[0], 'pad_width')
                        if isinstance(pw, ast.Tuple) and len(pw.elts) == 2 and not any(isinstance(e, ast.Tuple) for e in pw.elts):
                            ctx.fail(fn, pads[0], 'np.pad with the flat width %s pads EVERY axis: a 2-d array shorter than the common length gains all-NaN leading columns as well as rows' % U(pw),
                                     witness='df_reindex of a (5, 2) array to length 7 has shape (7, 4)')
                        else:
                            raise AnalysisError('unrecognised np.pad form in the array branch: %s' % U(pads[0]))
                    elif not cc or not isinstance(cc[0].args[0], (ast.List, ast.Tuple)) or len(cc[0].args[0].elts) != 2:
                        ctx.fail(fn, body[0], 'a shorter array is no longer padded in front with NaN rows')
                    else:
                        first, second = cc[0].args[0].elts
                        if U(second) != ts or 'nan' not in U(first):
                            ctx.fail(fn, cc[0], 'padding is not in front: concatenate([%s, %s])' % (U(first), U(second)))
                        sh = [s for s in body if isinstance(s, ast.Assign) and U(s.targets[0]) == 'shape']
                        if sh and NS('%s - len(%s)' % (index, ts)) not in N(sh[0].value):
                            ctx.fail(fn, sh[0], 'pad length is not index - len(%s): %s' % (ts, U(sh[0].value)))
    if found < 2:
        ctx.fail(fn, fn.node, 'array branch no longer distinguishes shorter and longer targets (found %d of 2 cases)' % found)


@obligation('C03.4', 'PATH identity', '_pandas:_df_reindex, _pandas:_df_recolumn',
            'objects that are not timeseries pass through unchanged', axioms=())
def c03_4(ctx):
    fn = ctx.repo.fn('_pandas:_df_reindex')
    ts = fn.params[0]
    n = 0
    for p in paths(fn.body):
        if p.term != 'return':
            continue
        if p.assumes('is_pd(%s)' % ts, False) and p.assumes('is_arr(%s)' % ts, False):
            n += 1
            ctx.count(1)
            if p.value is None or U(p.value) != ts:
                ctx.fail(fn, p.node, 'a value that is neither pandas nor array is returned as `%s`, not unchanged' % (U(p.value) if p.value is not None else 'None'))
            if any(isinstance(s, (ast.Assign, ast.AugAssign)) and ts in [U(t) for t in (s.targets if isinstance(s, ast.Assign) else [s.target])] for s in p.stmts):
                ctx.fail(fn, p.node, '`%s` is rebound before the pass-through return' % ts)
    if n == 0:
        ctx.fail(fn, fn.node, 'no pass-through path for non-timeseries values in _df_reindex')
    fn = ctx.repo.fn('_pandas:_df_recolumn')
    ts = fn.params[0]
    n = 0
    for p in paths(fn.body):
        if p.term == 'return' and p.conds and not p.conds[0][1]:
            n += 1
            ctx.count(1)
            if p.value is None or U(p.value) != ts:
                ctx.fail(fn, p.node, '_df_recolumn returns `%s` for objects it does not re-column' % (U(p.value) if p.value is not None else 'None'))
    ctx.need(n >= 1, 'pass-through path of _df_recolumn not found')


@obligation('C03.5', 'MATCH', '_loop:loops._wrapped',
            'the container structure is preserved: dicts are rebuilt with the same type and keys, lists/tuples with the same type and length',
            axioms=('A1',))
def c03_5(ctx):
    fn = ctx.repo.fn('_loop:loops._wrapped')
    arg = fn.params[1]
    chain = main_chain(fn.body)
    ctx.need(chain is not None, 'dispatch chain of loops._wrapped not found')
    seen = set()
    for test, body in chain:
        if test is None:
            continue
        t = U(test)
        cj = [N(c) for c in conjuncts(test)]
        rets = [s for s in body if isinstance(s, ast.Return)]
        if 'isinstance(%s, dict)' % arg in cj:
            seen.add('dict')
            ctx.count(1, fn.where(body[0]))
            comp = [c for s in body for c in ast.walk(s) if isinstance(c, ast.DictComp)]
            if not comp or N(comp[0].generators[0].iter) not in ('%s.keys()' % arg, arg, '%s.items()' % arg):
                ctx.fail(fn, body[0], 'dict branch does not produce one entry per key of the argument')
            if not rets or not (isinstance(rets[-1].value, ast.Call) and N(rets[-1].value.func) == 'type(%s)' % arg):
                ctx.fail(fn, rets[-1] if rets else body[0], 'dict branch does not rebuild the result with type(%s)' % arg)
            if 'type(%s) in self.types' % arg not in t:
                ctx.fail(fn, body[0], 'dict branch no longer requires the exact dict type to be one of the lifted types')
        elif 'isinstance(%s, self.types)' % arg in cj:
            seen.add('seq')
            ctx.count(1, fn.where(body[0]))
            comp = [c for s in body for c in ast.walk(s) if isinstance(c, ast.ListComp)]
            nn = [s for s in body if isinstance(s, ast.Assign) and N(s.value) == 'len(%s)' % arg]
            ok = bool(comp and nn and N(comp[0].generators[0].iter) == 'range(%s)' % U(nn[0].targets[0]))
            if comp and not ok and N(comp[0].generators[0].iter) in ('range(len(%s))' % arg, arg, 'enumerate(%s)' % arg):
                ok = True
            if not ok:
                ctx.fail(fn, body[0], 'sequence branch does not produce one element per element of the argument')
            if not rets or not (isinstance(rets[-1].value, ast.Call) and N(rets[-1].value.func) == 'type(%s)' % arg):
                ctx.fail(fn, rets[-1] if rets else body[0], 'sequence branch does not rebuild the result with type(%s)' % arg)
            # the element passed down is arg[i]
            rec = [c for s in body for c in calls_in(s, '_wrapped')]
            if rec and comp:
                iv = U(comp[0].generators[0].target)
                if N(rec[0].args[0]) != '%s[%s]' % (arg, iv):
                    ctx.fail(fn, rec[0], 'recursion descends into %s, not %s[%s]' % (U(rec[0].args[0]), arg, iv))
    for k in ('dict', 'seq'):
        if k not in seen:
            ctx.fail(fn, fn.node, 'loops._wrapped has no %s branch' % k)
    last = chain[-1]
    ctx.count(1)
    if last[0] is not None or not any(isinstance(s, ast.Return) and isinstance(s.value, ast.Call) and N(s.value.func) == 'self.function' and s.value.args and U(s.value.args[0]) == arg for s in last[1]):
        ctx.fail(fn, last[1][0], 'leaf branch does not apply self.function to the argument itself')


@obligation('C03.6', 'decorator resolution', '_df_reindex, _df_recolumn, _df_fillna, _df_column, _index',
            'timeseries are found anywhere inside nested list/dict arguments only because these workers are lifted over list, tuple and dict',
            axioms=())
def c03_6(ctx):
    need = {'_df_reindex': {'list', 'tuple', 'dict'}, '_df_recolumn': {'list', 'tuple', 'dict'}, '_df_fillna': {'list', 'tuple', 'dict'},
            '_df_column': {'list', 'tuple', 'dict'}, '_index': {'list', 'tuple'}, '_nona': {'list', 'tuple', 'dict'}}
    for name, want in need.items():
        fn = ctx.repo.fn('_pandas:%s' % name)
        ctx.count(1, fn.where())
        ts = loop_types(ctx.repo, fn)
        if ts is None:
            ctx.fail(fn, fn.node, '%s is no longer lifted with @loop(...)' % name)
        elif not want <= set(ts):
            ctx.fail(fn, fn.node, '%s is lifted over %s only; %s missing' % (name, sorted(ts), sorted(want - set(ts))))
    # the public entry points delegate to the lifted workers
    for pub, priv in (('df_reindex', '_df_reindex'), ('df_recolumn', '_df_recolumn'), ('df_fillna', '_df_fillna'), ('df_column', '_df_column')):
        fn = ctx.repo.fn('_pandas:%s' % pub)
        ctx.count(1, fn.where())
        rets = returns_of(fn.node)
        if not rets or not (isinstance(rets[-1].value, ast.Call) and call_name(rets[-1].value) == priv):
            ctx.fail(fn, rets[-1] if rets else fn.node, '%s no longer delegates to %s' % (pub, priv))
    # loop() adds the dict subclasses
    fn = ctx.repo.fn('_dict:loop')
    ctx.count(1, fn.where())
    txt = U(fn.node)
    if not ('dict in types' in txt and all(x in txt for x in ('OrderedDict', 'dictattr', 'Dict'))):
        ctx.fail(fn, fn.node, 'loop(dict) no longer extends the lifted types with OrderedDict, dictattr and Dict')
    if not any(isinstance(r.value, ast.Call) and call_name(r.value) == 'loops' and kw(r.value, 'types') is not None and U(kw(r.value, 'types')) == 'types' for r in returns_of(fn.node)):
        ctx.fail(fn, fn.node, 'loop() does not return loops(types = types)')


@obligation('C03.7', 'MATCH call-order', '_pandas:df_sync, _pandas:presync.wrapped, _pandas:df_index, _pandas:df_reindex',
            'the common index must be computed from ALL timeseries found in the arguments and then applied to the original structure; columns are aligned unless switched off',
            axioms=())
def c03_7(ctx):
    fn = ctx.repo.fn('_pandas:df_sync')
    dfs, join = fn.params[0], fn.params[1]
    # listed = _list(values) where values covers all of dfs
    a_index = [n for n in body_nodes(fn.node) if isinstance(n, ast.Assign) and isinstance(n.value, ast.Call) and call_name(n.value) == 'df_index']
    ctx.count(1, fn.where())
    if not a_index:
        ctx.fail(fn, fn.node, 'df_sync no longer computes the common index with df_index')
    else:
        c = a_index[0].value
        src = U(c.args[0]) if c.args else ''
        d = single_assign(fn, src)
        if d is None or not (isinstance(d, ast.Call) and call_name(d) == '_list'):
            ctx.fail(fn, a_index[0], 'common index is computed from `%s`, which is not the flattened list of all members' % src)
        else:
            inner = U(d.args[0])
            if inner != dfs:
                defs = [n.value for n in body_nodes(fn.node) if isinstance(n, ast.Assign) and U(n.targets[0]) == inner]
                good = defs and all(N(v) in ('list(%s.values())' % dfs, 'list(%s)' % dfs) for v in defs)
                if not good:
                    ctx.fail(fn, a_index[0], 'flattened members come from %s, not from all of `%s`' % ([U(v) for v in defs], dfs))
        if len(c.args) < 2 or U(c.args[1]) != join:
            ctx.fail(fn, a_index[0], 'df_index is not given the join policy `%s`' % join)
        idx = U(a_index[0].targets[0])
        re_ = [n for n in body_nodes(fn.node) if isinstance(n, ast.Assign) and isinstance(n.value, ast.Call) and call_name(n.value) == 'df_reindex']
        ctx.count(1)
        if not re_ or [U(a) for a in re_[0].value.args[:2]] != [dfs, idx]:
            ctx.fail(fn, re_[0] if re_ else fn.node, 'reindex is not applied to the original structure `%s` with the common index' % dfs)
        elif kw(re_[0].value, 'method') is None or U(kw(re_[0].value, 'method')) != 'method':
            ctx.fail(fn, re_[0], 'df_sync does not forward the fill method to df_reindex')
    # columns: computed from EVERY frame found anywhere in the (nested) structure
    ctx.count(1)
    tss = [n for n in body_nodes(fn.node) if isinstance(n, ast.Assign) and U(n.targets[0]) == 'tss']
    if not tss or N(tss[0].value) != '[ts for ts in listed if is_df(ts)]':
        ctx.fail(fn, tss[0] if tss else fn.node, 'the frames whose columns define the common column set are `%s`, expected every frame of the flattened structure `[ts for ts in listed if is_df(ts)]`: frames nested inside dicts/lists would be ignored' % (U(tss[0].value) if tss else '?'),
                 witness='df_sync([df1, dict(x = df2)]) with different columns in df2')
    rc = calls_in(fn.node, 'df_recolumn')
    dc = calls_in(fn.node, 'df_columns')
    if not rc or not dc:
        ctx.fail(fn, fn.node, 'df_sync no longer aligns columns via df_columns/df_recolumn')
    else:
        if len(dc[0].args) < 2 or U(dc[0].args[1]) != 'columns':
            ctx.fail(fn, dc[0], 'df_columns is not given the column policy')
        if U(dc[0].args[0]) != 'tss':
            ctx.fail(fn, dc[0], 'the common columns are computed from `%s`' % U(dc[0].args[0]))
        if [U(a) for a in rc[0].args] != [dfs, 'cols']:
            ctx.fail(fn, rc[0], 'df_recolumn is not applied to the whole structure with the common columns')
    index_collection_complete(ctx)
    _c03_7_rest(ctx)


def index_collection_complete(ctx):
    # df_index: pandas indexes from every listed member
    fn = ctx.repo.fn('_pandas:df_index')
    ctx.count(1, fn.where())
    comp = [n for n in body_nodes(fn.node) if isinstance(n, ast.ListComp) and isinstance(n.elt, ast.Call) and call_name(n.elt) == '_index']
    if not comp:
        ctx.fail(fn, fn.node, 'df_index no longer collects the index of every listed timeseries')
    else:
        it = U(comp[0].generators[0].iter)
        d = single_assign(fn, it)
        if d is None or N(d) != '_list(%s)' % fn.params[0]:
            ctx.fail(fn, comp[0], 'indexes are collected from `%s`, not from the flattened argument' % it)
        single_definition(ctx, fn, 'indexes', "left/right joins take the FIRST/LAST index in argument order (indexes[0] / indexes[-1]); re-ordering the collected indexes changes which input defines the result index")
        single_definition(ctx, fn, 'arrs', 'left/right joins of arrays take the first/last length in argument order')
        use = [r for r in returns_of(fn.node) if isinstance(r.value, ast.Call) and call_name(r.value) == '_df_index']
        if not use or [U(a) for a in use[0].value.args] != ['indexes', fn.params[1]]:
            ctx.fail(fn, use[0] if use else fn.node, 'the collected indexes are not handed to _df_index(indexes, policy) as collected')
        v = U(comp[0].generators[0].target)
        conds = [N(i) for i in comp[0].generators[0].ifs]
        want = NS('is_pd(%s) or _is_dict_indexed(%s)' % (v, v))
        if conds != [want]:
            ctx.fail(fn, comp[0], 'the indexes entering the common index are filtered with `%s` instead of `%s`: some timeseries (e.g. empty ones) are left out, so the result is not on the intersection/union of ALL operand indices' % (' and '.join(conds), want),
                     witness='add_(ts, ts.iloc[:0]) with the default inner join')


def _c03_7_rest(ctx):
    # df_reindex: string policy -> df_index(ts, index)
    fn = ctx.repo.fn('_pandas:df_reindex')
    ctx.count(1, fn.where())
    ps = [p for p in paths(fn.body) if p.term == 'return' and p.assumes(NS('index is None'), True)]
    if not ps or any(U(p.value) != fn.params[0] for p in ps):
        ctx.fail(fn, fn.node, 'df_reindex(ts, None) no longer returns ts unchanged')
    # presync.wrapped
    fn = ctx.repo.fn('_pandas:presync.wrapped')
    ctx.count(1, fn.where())
    vals = single_assign(fn, 'values')
    if vals is None or N(vals) != 'list(args) + list(kwargs.values())':
        ctx.fail(fn, fn.node, 'presync does not gather positional and keyword operands: values = %s' % (U(vals) if vals is not None else '?'))
    di = [n for n in body_nodes(fn.node) if isinstance(n, ast.Assign) and isinstance(n.value, ast.Call) and call_name(n.value) == 'df_index']
    if not di or U(di[0].value.args[0]) != 'listed' or N(single_assign(fn, 'listed') or ast.Constant(0)) != '_list(values)':
        ctx.fail(fn, di[0] if di else fn.node, 'presync does not compute the common index from all listed operands')
    for nm, src in (('args_', 'args'), ('kwargs_', 'kwargs')):
        ctx.count(1)
        d = single_assign(fn, nm)
        if d is None or not (isinstance(d, ast.Call) and call_name(d) == 'df_reindex' and [U(a) for a in d.args[:2]] == [src, 'index'] and kw(d, 'method') is not None and U(kw(d, 'method')) == '_method'):
            ctx.fail(fn, fn.node, 'presync does not reindex %s onto the common index with the requested method' % src)
    # DEF-USE: once aligned, only the aligned operands reach the wrapped function - positional ones from args_, keyword ones from kwargs_
    fcalls = [c for c in ast.walk(fn.node) if isinstance(c, ast.Call) and U(c.func) == 'self.function']
    ctx.at_least(5, len(fcalls), 'calls of the wrapped function in presync.wrapped')
    for c in fcalls:
        ctx.count(1, fn.where(c))
        star = [a.value for a in c.args if isinstance(a, ast.Starred)]
        dstar = [k.value for k in c.keywords if k.arg is None]
        plain = [a for a in c.args if not isinstance(a, ast.Starred)] + [k.value for k in c.keywords if k.arg is not None]
        rd = lambda es: {n.id for e in es for n in ast.walk(e) if isinstance(n, ast.Name)} & {'args', 'kwargs', 'args_', 'kwargs_'}
        if len(star) != 1 or len(dstar) != 1 or rd(star) != {'args_'} or rd(dstar) != {'kwargs_'} or rd(plain):
            ctx.fail(fn, c, 'the wrapped function is called with operands read from %s (positional) and %s (keyword): positional operands must come from the aligned args_ and keyword operands from the aligned kwargs_ only' % (
                sorted(rd(star)) or 'nothing', sorted(rd(dstar)) or 'nothing'), witness='presync(f)(a, b=b_with_another_index): b reaches f unaligned')


@obligation('C03.8', 'TABLES (guards by truth table)', '_pandas:_df_reindex, _df_recolumn, _df_index, _np_index',
            'each kind of object reaches its own alignment: pandas -> reindex (as-of when the FIRST method is a fill name), arrays -> tail/pad by integer length or unchanged for a matching pandas index, proper multi-column frames -> the common columns',
            axioms=('A4',))
def c03_8(ctx):
    r = ctx.repo
    f = r.fn('_pandas:_df_reindex')
    ts, index = f.params[0], f.params[1]
    expect_guards(ctx, f, [
        ('is_pd(%s)' % ts, "if is_int(%s):\n    raise ValueError('trying to reindex dataframe %%s using numpy interval length %%i' %% (%s, %s))" % (index, ts, index), 'pandas objects are reindexed on a pandas index'),
        ("len(methods) and methods[0] in ['backfill', 'bfill', 'pad', 'ffill']", 'res = _nona(%s).reindex(%s, method=methods[0], limit=limit)' % (ts, index), 'as-of join when the first method is a fill'),
        ('isinstance(%s, pd.Index)' % index, 'if len(%s) == len(%s) or len(%s) <= 1:\n    return %s\nelse:\n    raise ValueError(\'trying to reindex numpy array %%s using pandas index %%s\' %% (%s, %s))' % (index, ts, ts, ts, ts, index), 'arrays against a pandas index'),
        ('%s < len(%s)' % (index, ts), 'res = %s[-%s:]' % (ts, index), 'longer arrays keep their tail'),
        ('%s > len(%s)' % (index, ts), 'shape = (%s - len(%s),) + %s.shape[1:]' % (index, ts, ts), 'shorter arrays are padded in front'),
    ])
    ctx.count(1)
    plain = [s for s in ast.walk(f.node) if isinstance(s, ast.Assign) and N(s.value) == '%s.reindex(%s)' % (ts, index)]
    nxt = [s for s in ast.walk(f.node) if isinstance(s, ast.Assign) and N(s.value) == NS('_df_fillna(res, method=method, limit=limit)')]
    if not plain or not nxt:
        ctx.fail(f, f.node, 'without a leading fill method the series is not reindexed plainly and then filled with the requested methods')
    fin = [x for x in returns_of(f.node) if isinstance(x.value, ast.Call) and call_name(x.value) == 'df_fillna']
    if not fin or N(fin[0].value) != NS('df_fillna(res, method=methods, limit=limit)'):
        ctx.fail(f, f.node, 'aligned arrays are not filled with the requested methods')
    g = r.fn('_pandas:_df_recolumn')
    expect_guards(ctx, g, [('columns is not None and is_df(ts) and ts.shape[1] > 1 and len(set(ts.columns)) == ts.shape[1]',
                            'return pd.DataFrame({col: ts[col].values if col in ts.columns else np.nan for col in columns}, index=ts.index)',
                            'proper multi-column frames are put on the common columns, missing ones NaN')], where=g.body)
    for name in ('_df_index', '_np_index'):
        h = r.fn('_pandas:%s' % name)
        ctx.count(1, h.where())
        top = [s for s in h.body if isinstance(s, ast.If)]
        ok = top and prop_equiv(top[0].test, 'len(%s) > 0' % h.params[0])[0]
        neg = top and not ok and prop_equiv(top[0].test, 'len(%s) == 0' % h.params[0])[0]      # the same split written the other way round
        nothing = (top[0].body if neg else else_of(top[0])) if top else []
        if not ok and not neg:
            ctx.fail(h, top[0] if top else h.node, '%s looks at its policy when `%s`, expected whenever there is at least one index' % (name, U(top[0].test) if top else '?'))
        elif not nothing or not isinstance(nothing[0], ast.Return) or const(nothing[0].value, 'X') is not None:
            ctx.fail(h, top[0], '%s of nothing is not None' % name)


@obligation('C03.9', 'PATH (symbolic summary) table', '_pandas:_list',
            'every timeseries found ANYWHERE inside nested list/dict arguments enters the common index: the flattening helper must recurse into the members of a list and into the values of a dict, at every depth',
            axioms=())
def c03_9(ctx):
    f = ctx.repo.fn('_pandas:_list')
    v = f.params[0]
    seen = set()
    for p in sym_paths(f):
        if p.term != 'return':
            continue
        ctx.count(1, f.where(p.node))
        if p.holds('isinstance(%s, list)' % v, True):
            seen.add('list')
            ok = isinstance(p.value, ast.Call) and call_name(p.value) == 'sum' and len(p.value.args) == 2 and N(p.value.args[1]) == '[]' and isinstance(p.value.args[0], ast.ListComp) \
                and call_name(p.value.args[0].elt) == '_list' and N(p.value.args[0].generators[0].iter) == v and U(p.value.args[0].elt.args[0]) == U(p.value.args[0].generators[0].target)
            if not ok:
                ctx.fail(f, p.node, 'a list is flattened as `%s`, expected sum([_list(member) for member in values], [])' % p.text())
        elif p.holds('isinstance(%s, dict)' % v, True):
            seen.add('dict')
            if p.text() not in (NS('_list(list(%s.values()))' % v), NS('sum([_list(x) for x in %s.values()], [])' % v)):
                ctx.fail(f, p.node, 'a dict is flattened as `%s`: its values are not flattened recursively, so timeseries inside a dict of containers never reach the common index' % p.text(),
                         witness="df_index({'px': s1, 'signals': {'fast': s2}}, 'ij')")
        else:
            seen.add('leaf')
            if p.text() != '[%s]' % v:
                ctx.fail(f, p.node, 'a leaf is returned as `%s`, expected [values]' % p.text())
    if not ctx.findings and seen != {'list', 'dict', 'leaf'}:
        ctx.fail(f, f.node, '_list no longer distinguishes lists, dicts and leaves')


@obligation('C03.10', 'MATCH argument roles', '_pandas:presync.wrapped',
            "a presync-decorated function aligns with the policies of ITS decorator unless the call overrides them: the index policy is kwargs.pop('join', self.index), the fill method kwargs.pop('method', self.method), the column policy kwargs.pop('columns', self.columns) - each keyword with its own attribute",
            axioms=())
def c03_10(ctx):
    f = ctx.repo.fn('_pandas:presync.wrapped')
    want = {'join': 'index', 'method': 'method', 'columns': 'columns'}
    pops = [c for c in calls_in(f.node, 'pop') if isinstance(c.func, ast.Attribute) and U(c.func.value) == f.node.args.kwarg.arg and c.args and isinstance(c.args[0], ast.Constant)]
    seen = {}
    for c in pops:
        k = c.args[0].value
        if k in want:
            ctx.count(1, f.where(c))
            seen[k] = c
            d = U(c.args[1]) if len(c.args) > 1 else None
            if d != 'self.%s' % want[k]:
                ctx.fail(f, c, "the `%s` policy falls back to `%s`, expected self.%s (the decorator's own setting for that axis)" % (k, d, want[k]),
                         witness="presync(f, index='outer')(x[a,b,c], y[b,c,d]) must still join columns with the default inner policy")
    for k in want:
        if k not in seen:
            ctx.fail(f, f.node, "the `%s` keyword is no longer taken out of the call's kwargs" % k)


@obligation('C03.11', 'SIBLING table', '_pandas:presync accessors ij / oj / lj / rj / ffill / bfill',
            'f.oj.bfill is f aligned on the union index AND back-filled: each accessor returns THIS decorator with one setting changed (self + dict(setting = value)), never a fresh presync of the bare function, which forgets the settings made before',
            axioms=())
def c03_11(ctx):
    want = {'ij': ('index', 'inner'), 'oj': ('index', 'outer'), 'lj': ('index', 'left'), 'rj': ('index', 'right'), 'ffill': ('method', 'ffill'), 'bfill': ('method', 'bfill')}
    n = 0
    for name, (k, v) in want.items():
        node = ctx.repo.funcs.get(('_pandas', 'presync', name))
        if node is None:
            continue
        n += 1
        f = Fn(ctx.repo, '_pandas', 'presync', name, node)
        ctx.count(1, f.where())
        rr = returns_of(node)
        ok = False
        if rr and isinstance(rr[-1].value, ast.BinOp) and isinstance(rr[-1].value.op, ast.Add):
            left, right = rr[-1].value.left, rr[-1].value.right
            ok = N(left) in ('self', 'copy(self)') and N(right) == NS("dict(%s = '%s')" % (k, v))
        if not ok:
            ctx.fail(f, rr[-1] if rr else node, 'presync.%s returns `%s`, expected self + dict(%s = %r): the other settings of the decorator (index policy, fill method, columns, default) must carry over' % (name, U(rr[-1].value) if rr else '?', k, v),
                     witness='presync(f).oj.bfill must still join on the union index')
    ctx.at_least(6, n, 'presync accessors')
