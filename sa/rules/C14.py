"""C14 eq is a NaN-aware, type-strict equivalence on values, containers and pandas (structural necessary conditions)."""
import ast
from ..core import obligation, AnalysisError
from .common import *

CONTAINERS = {'tuple', 'list', 'np.ndarray', 'pd.DataFrame', 'pd.Series', 'dict'}


def _dispatch(fn):
    """[(test, body)] of the top-level type-directed chain of eq, and the set of container types dispatched on x."""
    top = [s for s in fn.body if isinstance(s, ast.If)]
    if not top:
        raise AnalysisError('dispatch chain of eq not found')
    full = if_chain(top[0], nodes=True)
    x = fn.params[0]
    types = set()
    last = None
    for i, (test, body, node) in enumerate(full):
        if test is None:
            continue
        for c in conjuncts(test):
            kind, keys = classify_test(c)
            if kind == 'isinstance:' + x:
                types |= set(keys)
                last = i
    if last is None:
        raise AnalysisError('eq no longer dispatches on the type of its left operand')
    # the fallback is everything executed when no test on the type of x holds (guards on y written as further returning ifs belong to it)
    chain = [(t, b) for t, b, n in full[:last + 1]]
    fb = else_of(full[last][2])
    if fb:
        chain.append((None, fb))
    return chain, types


@obligation('C14.1', 'DISPATCH-SYMMETRY', 'fallback branch of _eq:eq',
            'eq must be symmetric and False whenever container types differ (scalar vs array): containers on the left are dispatched on their type, so the fallback `x == y` (which numpy broadcasts) must be unreachable when y is one of those containers and x is a scalar',
            axioms=('A1', 'A4'))
def c14_1(ctx):
    fn = ctx.repo.fn('_eq:eq')
    x, y = fn.params[:2]
    chain, types = _dispatch(fn)
    dispatched = types & CONTAINERS
    ctx.fact('dispatched_on_x', sorted(types))
    ctx.need(chain[-1][0] is None, 'eq has no fallback branch')
    fb = chain[-1][1]
    # the raw == sites
    sites = [n for s in fb for n in ast.walk(s) if isinstance(n, ast.Compare) and len(n.ops) == 1 and isinstance(n.ops[0], ast.Eq) and {U(n.left), U(n.comparators[0])} == {x, y}]
    ctx.at_least(1, len(sites), 'raw x == y in the fallback of eq')
    pm = parent_map(ast.Module(fb, []))
    for site in sites:
        ctx.count(1, fn.where(site))
        # guards: earlier statements in the fallback block of the form  if G: return False
        guards = []
        for s in fb:
            if s.lineno >= site.lineno:
                break
            if isinstance(s, ast.If) and any(isinstance(r, ast.Return) and const(r.value) is False for r in s.body):
                guards.append(s)
        covered = set()
        bad_scalar = None
        for g in guards:
            cj = conjuncts(g.test)
            ytypes = set()
            rest = []
            for c in cj:
                kind, keys = classify_test(c)
                if kind == 'isinstance:' + y:
                    ytypes |= set(keys)
                else:
                    rest.append(c)
            if not ytypes:
                continue
            # the remaining conjuncts may only restrict x to "scalar": accepted forms
            ok = True
            for c in rest:
                t = N(c)
                accepted = (NS("isinstance(%s, str) or not hasattr(%s, '__len__')" % (x, x)), NS("not hasattr(%s, '__len__') or isinstance(%s, str)" % (x, x)),
                            NS("isinstance(%s, (str, bytes)) or not hasattr(%s, '__len__')" % (x, x)))
                if t in accepted:
                    continue
                if t == NS("not hasattr(%s, '__len__')" % x):
                    # a str has __len__ and is still a scalar here: 'a' == np.array(['a', 'a']) broadcasts to all-True
                    bad_scalar = (g, "a string on the left has __len__, so the guard is skipped for it and `x == y` broadcasts over the container (eq('a', np.array(['a', 'a'])) is True, the swapped call False)")
                    ok = False
                    continue
                if 'isscalar' in t:
                    bad_scalar = (g, 'np.isscalar(%s) is False for None, datetime and pd.Timestamp: for those scalars the guard is skipped and x == y broadcasts' % x)
                    ok = False
                else:
                    raise AnalysisError('unrecognised restriction on x in the scalar-vs-container guard: %s' % U(c))
            if ok:
                covered |= ytypes
        missing = dispatched - covered
        if bad_scalar is not None:
            ctx.fail(fn, bad_scalar[0], 'scalar-vs-container guard is too narrow: ' + bad_scalar[1], witness='eq(None, np.array([])) is True but eq(np.array([]), None) is False')
        elif missing:
            st = site
            while st in pm and not isinstance(st, ast.stmt):
                st = pm[st]
            ctx.fail(fn, st, 'the fallback `%s == %s` is reachable when %s is a %s: a scalar on the left is then compared by broadcasting (True) while the container on the left compares False' % (x, y, y, '/'.join(sorted(missing))),
                     witness='eq(np.float64(1), [1]) vs eq([1], np.float64(1))', stmt=site)


@obligation('C14.2', 'MATCH', 'container branches of _eq:eq',
            'eq is False whenever container types differ (list vs tuple vs array, dict vs a dict subclass): every container branch decides type(x) == type(y) first',
            axioms=())
def c14_2(ctx):
    fn = ctx.repo.fn('_eq:eq')
    x, y = fn.params[:2]
    chain, types = _dispatch(fn)
    want = NS('type(%s) == type(%s)' % (x, y))
    n = 0
    for test, body in chain:
        if test is None:
            continue
        ts = set()
        for c in conjuncts(test):
            kind, keys = classify_test(c)
            if kind == 'isinstance:' + x:
                ts |= set(keys)
        if not (ts & (CONTAINERS | {'partial'})):
            continue
        n += 1
        ctx.count(1, fn.where(body[0]))
        first = body[0]
        ok = False
        if isinstance(first, ast.Return) and isinstance(first.value, ast.BoolOp) and isinstance(first.value.op, ast.And) and N(first.value.values[0]) == want:
            ok = True
        if isinstance(first, ast.If) and N(conjuncts(first.test)[0]) == want:
            # if type(x)==type(y) and ...: ... else: return False
            if else_of(first) and any(isinstance(r, ast.Return) and const(r.value) is False for r in else_of(first)) and (not first.orelse or not body[1:]):
                ok = True
        if not ok:
            ctx.fail(fn, first, 'the %s branch does not start by requiring type(%s) == type(%s)' % ('/'.join(sorted(ts)), x, y))
    ctx.at_least(5, n, 'container branches of eq')
    ctx.count(1)
    for k in CONTAINERS:
        if k not in types:
            ctx.fail(fn, fn.node, 'eq no longer dispatches on %s' % k)


@obligation('C14.3', 'MIRROR', 'NaN branch of _eq:eq',
            'NaN equals NaN at any depth, symmetrically: a NaN x is equal exactly to a NaN y (same predicate on both operands)',
            axioms=('A1',))
def c14_3(ctx):
    fn = ctx.repo.fn('_eq:eq')
    x, y = fn.params[:2]
    chain, types = _dispatch(fn)
    hit = [(t, b) for t, b in chain if t is not None and 'isnan' in U(t)]
    ctx.count(1, fn.where())
    if not hit:
        ctx.fail(fn, fn.node, 'eq has no NaN branch: NaN != NaN natively')
        return
    t, b = hit[0]
    r0 = [s for s in b if isinstance(s, ast.Return)]
    mirrored = N(subst_names(t, {x: ast.Name(y, ast.Load())}))
    if not r0 or N(r0[0].value) != mirrored:
        ctx.fail(fn, r0[0] if r0 else b[0], 'NaN branch tests `%s` on x but returns `%s` (expected the same predicate on y: `%s`)' % (U(t), U(r0[0].value) if r0 else '?', mirrored))
    # the NaN branch must come before the fallback and after the container branches (a float is no container)
    order = [i for i, (tt, bb) in enumerate(chain) if tt is t]
    if order and order[0] == len(chain) - 1:
        ctx.fail(fn, fn.node, 'NaN branch is unreachable')


@obligation('C14.4', 'PATH + CONTRADICTION', 'fallback and ndarray branch of _eq:eq',
            'eq returns a boolean and never raises: the foreign == sits inside try with `except Exception -> False`, array-valued results are reduced with np.all, and len() is not applied to an ndarray without a rank test (len of a 0-d array raises)',
            axioms=('A4',))
def c14_4(ctx):
    fn = ctx.repo.fn('_eq:eq')
    x, y = fn.params[:2]
    chain, types = _dispatch(fn)
    fb = chain[-1][1]
    tries = [s for s in fb if isinstance(s, ast.Try)]
    ctx.count(1, fn.where())
    if not tries:
        ctx.fail(fn, fb[0], 'the foreign == is no longer inside try/except')
    else:
        t = tries[0]
        eqs = [n for n in ast.walk(ast.Module(t.body, [])) if isinstance(n, ast.Compare) and isinstance(n.ops[0], ast.Eq)]
        if not eqs:
            ctx.fail(fn, t, 'x == y is evaluated outside the try block')
        h = [hh for hh in t.handlers if hh.type is not None and U(hh.type) in ('Exception', 'BaseException')] + [hh for hh in t.handlers if hh.type is None]
        if not h or not any(isinstance(r, ast.Return) and const(r.value) is False for r in h[0].body):
            ctx.fail(fn, t, 'an exception raised by a foreign == does not yield False')
        red = [r for r in ast.walk(ast.Module(t.body, [])) if isinstance(r, ast.Return)]
        if not red or 'np.all' not in U(red[0].value):
            ctx.fail(fn, red[0] if red else t, 'an array-valued comparison result is not reduced with np.all')
    for s in fb:
        for n in ast.walk(s):
            if isinstance(n, ast.Compare) and isinstance(n.ops[0], ast.Eq) and {U(n.left), U(n.comparators[0])} == {x, y}:
                inside = tries and any(m is n for m in ast.walk(ast.Module(tries[0].body, [])))
                if not inside:
                    ctx.fail(fn, s, 'a raw %s == %s is evaluated outside try/except' % (x, y))
    # ndarray branch: no bare len()
    for test, body in chain:
        if test is None:
            continue
        kind, keys = classify_test(test)
        if kind == 'isinstance:' + x and 'np.ndarray' in keys:
            ctx.count(1)
            for c in calls_in(ast.Module(body, []), 'len'):
                if U(c.args[0]) in (x, y):
                    ctx.fail(fn, body[0], 'len(%s) is applied to an ndarray without a rank test: a 0-d array raises TypeError' % U(c.args[0]), witness='eq(np.array(1), np.array(1))')


@obligation('C14.5', 'call graph', '_eq:in_, container branches of _eq:eq, _eq:veq',
            'NaN-awareness at any depth: membership and element comparison go through eq / veq, never a raw == between elements',
            axioms=())
def c14_5(ctx):
    fn = ctx.repo.fn('_eq:in_')
    ctx.count(1, fn.where())
    loops = [s for s in fn.body if isinstance(s, ast.For)]
    ok = loops and any(isinstance(n, ast.If) and N(n.test) == 'eq(%s, %s)' % (fn.params[0], U(loops[0].target)) for n in loops[0].body)
    if not ok:
        ctx.fail(fn, fn.node, 'in_ does not decide membership with eq(x, element)')
    if any(isinstance(n, ast.Compare) and isinstance(n.ops[0], (ast.Eq, ast.In)) for n in ast.walk(fn.node)):
        ctx.fail(fn, fn.node, 'in_ uses a raw ==/in between elements')
    rr = returns_of(fn.node)
    if not rr or const(rr[-1].value) is not False or not any(const(r.value) is True for r in rr):
        ctx.fail(fn, fn.node, 'in_ does not return True on a match and False otherwise')
    m, v = ctx.repo.module_value('_eq', 'veq')
    ctx.count(1)
    if N(v) != 'np.vectorize(eq)':
        f0 = ctx.repo.fn('_eq:eq')
        ctx.fail(f0, f0.node, 'veq is `%s`, expected np.vectorize(eq)' % U(v))
    fn = ctx.repo.fn('_eq:eq')
    x, y = fn.params[:2]
    chain, types = _dispatch(fn)
    ALLOWED = {'eq', 'veq', '_eq_attrs', 'type', 'len', 'min', 'max', 'all', 'any', 'zip', 'sorted', 'isinstance', 'items', 'array', 'isnan', 'keys', 'values'}
    for test, body in chain[:-1]:
        ctx.count(1)
        for c in calls_in(ast.Module(body, [])):
            nm = call_name(c)
            if isinstance(c.func, ast.Name) and nm not in ALLOWED:
                g = ctx.repo.resolve_name(fn.mod, nm)
                from ..core import Fn as _Fn
                if isinstance(g, _Fn) and {U(a) for a in c.args} >= {x, y}:
                    raw = [m for m in ast.walk(g.node) if isinstance(m, ast.Compare) and len(m.ops) == 1 and isinstance(m.ops[0], ast.Eq) and {U(m.left), U(m.comparators[0])} == set(g.params[:2])]
                    if raw:
                        ctx.fail(fn, c, 'a container branch decides equality through %s(%s, %s), which applies the native == to the whole container (`%s`): native == ignores container/array types of the ITEMS (dict vs subclass, [array([1])] vs [1]) and is not NaN-aware' % (nm, x, y, U(raw[0])),
                                 witness='eq([np.array([1])], [1])')
        for n in ast.walk(ast.Module(body, [])):
            if isinstance(n, ast.Compare) and len(n.ops) == 1 and isinstance(n.ops[0], (ast.Eq, ast.NotEq)):
                a, b = U(n.left), U(n.comparators[0])
                structural = any(k in a + b for k in ('type(', 'len(', '.shape', '.func'))
                if not structural:
                    ctx.fail(fn, n, 'raw `%s` between values inside a container branch: nested NaN would compare unequal' % U(n))
        # tuple/list branch recurses with eq over zip(x, y)
    lst = [(t, b) for t, b in chain if t is not None and set(classify_test(t)[1]) >= {'tuple', 'list'}]
    ctx.count(1)
    if lst:
        comp = [c for c in ast.walk(ast.Module(lst[0][1], [])) if isinstance(c, ast.ListComp) or isinstance(c, ast.GeneratorExp)]
        if not comp or N(comp[0].elt) != 'eq(i, j)' or N(comp[0].generators[0].iter) != 'zip(%s, %s)' % (x, y):
            ctx.fail(fn, lst[0][1][0], 'list/tuple elements are not compared pairwise with eq over zip(x, y)')
        if NS('len(%s) == len(%s)' % (x, y)) not in [N(v) for v in ast.walk(ast.Module(lst[0][1], [])) if isinstance(v, ast.Compare)]:
            ctx.fail(fn, lst[0][1][0], 'lists of different length are not rejected before the pairwise comparison (zip truncates)')


@obligation('C14.6', 'MATCH', 'dict branch of _eq:eq',
            'two dicts are equal only if their key sets AND their values agree: both key tuples must be compared (looking y up by x\'s keys treats a missing key as None), and the empty dict is guarded before zip(*...) is unpacked',
            axioms=('A1',))
def c14_6(ctx):
    fn = ctx.repo.fn('_eq:eq')
    x, y = fn.params[:2]
    chain, types = _dispatch(fn)
    d = [(t, b) for t, b in chain if t is not None and classify_test(t) == ('isinstance:' + x, ('dict',))]
    ctx.need(d, 'dict branch of eq not found')
    body = d[0][1]
    mod = ast.Module(body, [])
    ctx.count(1, fn.where(body[0]))
    t0 = [s for s in body if isinstance(s, ast.If)]
    if not t0 or NS('len(%s) == len(%s)' % (x, y)) not in [N(c) for c in conjuncts(t0[0].test)]:
        ctx.fail(fn, body[0], 'dicts of different size are not rejected')
    gets = [c for c in calls_in(mod, 'get') if U(c.func.value) in (x, y)] + [s for s in ast.walk(mod) if isinstance(s, ast.Subscript) and U(s.value) == y and isinstance(s.ctx, ast.Load)]
    keycmp = [c for c in calls_in(mod, 'eq') if len(c.args) == 2 and 'key' in U(c.args[0]).lower() and 'key' in U(c.args[1]).lower() and U(c.args[0]) != U(c.args[1])]
    both_sorted = [s for s in ast.walk(mod) if isinstance(s, ast.Assign) and isinstance(s.value, ast.Call) and 'sorted(%s.items())' % y in U(s.value)]
    ctx.count(1)
    if gets and not keycmp:
        ctx.fail(fn, body[0], 'values of %s are looked up by the keys of %s (`%s`) and the key sets are never compared: a key missing from %s reads as None, so {"a": None} equals {"b": None}' % (y, x, U(gets[0]), y),
                 witness="eq({'a': None}, {'b': None})")
    elif not keycmp or not both_sorted:
        ctx.fail(fn, body[0], 'the dict branch does not compare the sorted key tuples of both operands')
    vals = [c for c in calls_in(mod, 'eq') if len(c.args) == 2 and 'val' in U(c.args[0]).lower() and 'val' in U(c.args[1]).lower()]
    ctx.count(1)
    if not vals:
        ctx.fail(fn, body[0], 'the dict branch does not compare the values with eq')
    ctx.count(1)
    unp = [s for s in ast.walk(mod) if isinstance(s, ast.Assign) and isinstance(s.targets[0], ast.Tuple) and isinstance(s.value, ast.Call) and call_name(s.value) == 'zip']
    if unp:
        g = [s for s in ast.walk(mod) if isinstance(s, ast.If) and N(s.test) in (NS('len(%s) == 0' % x), 'not %s' % x) and any(isinstance(r, ast.Return) and const(r.value) is True for r in s.body)]
        if not g or g[0].lineno > unp[0].lineno:
            ctx.fail(fn, unp[0], 'zip(*sorted(items)) is unpacked without the empty-dict guard: eq({}, {}) on distinct objects raises')


@obligation('C14.7', 'MATCH + TABLES', 'ndarray and pandas branches of _eq:eq',
            'arrays are equal only if shape and all cells match, pandas objects only if index, columns and all cells match: the shape/index test must name an attribute that exists (a name no operand has makes the test dead and broadcasting decides)',
            axioms=('A4',))
def c14_7(ctx):
    fn = ctx.repo.fn('_eq:eq')
    x, y = fn.params[:2]
    chain, types = _dispatch(fn)
    REAL = {'shape', 'index', 'columns', 'dtype', 'name', 'values'}
    for test, body in chain:
        if test is None:
            continue
        kind, keys = classify_test(test)
        if kind != 'isinstance:' + x:
            continue
        mod = ast.Module(body, [])
        if 'np.ndarray' in keys:
            ctx.count(1, 'ndarray')
            shape = [c for c in ast.walk(mod) if isinstance(c, ast.Compare) and N(c) in (NS('%s.shape == %s.shape' % (x, y)),)]
            attrs = set()
            for c in calls_in(mod, '_eq_attrs'):
                a = c.args[2] if len(c.args) > 2 else kw(c, 'attrs')
                attrs |= {const(e) for e in getattr(a, 'elts', [])}
            if not shape and 'shape' not in attrs:
                dead = attrs - REAL
                ctx.fail(fn, body[0], 'the ndarray branch never compares shapes%s: arrays of different shape are compared by broadcasting' % (' (the attribute name(s) %s exist on no array, so that test is dead)' % sorted(dead) if dead else ''),
                         witness='eq(np.array([[1],[1]]), np.array([1,1]))')
            if not any(isinstance(c, ast.Call) and U(c.func) == 'np.all' and 'veq(%s, %s)' % (x, y) in U(c) for c in ast.walk(mod)):
                ctx.fail(fn, body[0], 'array cells are not compared with np.all(veq(x, y))')
            if NS('0 in %s.shape' % x) not in [N(c) for c in ast.walk(mod) if isinstance(c, ast.Compare)]:
                ctx.fail(fn, body[0], 'empty arrays are no longer short-circuited (np.vectorize fails on size-0 input)')
        if 'pd.DataFrame' in keys or 'pd.Series' in keys:
            ctx.count(1, 'pandas')
            attrs = set()
            for c in calls_in(mod, '_eq_attrs'):
                a = c.args[2] if len(c.args) > 2 else kw(c, 'attrs')
                attrs |= {const(e) for e in getattr(a, 'elts', [])}
            # the label comparison must be decided unconditionally (a top-level conjunct), not only when the object has cells
            top = []
            for r0 in [r for r in body if isinstance(r, ast.Return)]:
                if isinstance(r0.value, ast.BoolOp) and isinstance(r0.value.op, ast.And):
                    top = r0.value.values
            if top and not any(isinstance(v, ast.Call) and call_name(v) == '_eq_attrs' for v in top):
                ctx.fail(fn, body[0], 'index/columns are compared only inside the non-empty alternative: two EMPTY pandas objects with different labels compare equal',
                         witness="eq(pd.DataFrame(columns=['a']), pd.DataFrame(columns=['b']))")
            if 'index' not in attrs:
                ctx.fail(fn, body[0], 'pandas objects are compared without comparing their index')
            if 'columns' not in attrs:
                ctx.fail(fn, body[0], 'DataFrames are compared without comparing their columns')
            if not any(isinstance(c, ast.Call) and U(c.func) == 'np.all' and 'veq(%s, %s)' % (x, y) in U(c) for c in ast.walk(mod)):
                ctx.fail(fn, body[0], 'pandas cells are not compared with np.all(veq(x, y))')
    g = ctx.repo.fn('_eq:_eq_attrs')
    ctx.count(1, g.where())
    loops = [s for s in g.body if isinstance(s, ast.For)]
    ok = loops and any(isinstance(n, ast.If) and N(n.test) == NS('hasattr(%s, attr) and not eq(getattr(%s, attr), getattr(%s, attr))' % (g.params[0], g.params[0], g.params[1])) for n in loops[0].body)
    if not ok:
        ctx.fail(g, g.node, '_eq_attrs does not compare each attribute of x with the same attribute of y through eq')


@obligation('C14.8', 'TABLES (guards by truth table)', 'identity shortcut of _eq:eq',
            'eq is reflexive for EVERY object, including those that are not equal to themselves under == or cannot be compared at all (NaN scalars of any float type, NaT, frames with a NaN label, containers holding them): identity must be decided first',
            axioms=('A1',))
def c14_8(ctx):
    fn = ctx.repo.fn('_eq:eq')
    x, y = fn.params[:2]
    first = [s for s in fn.body if not (isinstance(s, ast.Expr) and isinstance(s.value, ast.Constant))]
    ctx.count(1, fn.where())
    ok = first and isinstance(first[0], ast.If) and N(first[0].test) in (NS('%s is %s' % (x, y)), NS('%s is %s' % (y, x))) and first[0].body and isinstance(first[0].body[0], ast.Return) and const(first[0].body[0].value) is True
    if not ok:
        ctx.fail(fn, first[0] if first else fn.node, 'eq does not start with `if x is y: return True`: an object that is not == to itself (np.float32 NaN, pd.NaT, a frame with NaN labels) is then unequal to itself',
                 witness='x = np.float32("nan"); eq(x, x)')
