"""C15 tree flatten/rebuild are inverse; tree_update is a non-destructive deep merge (structural necessary conditions)."""
import ast, copy as _cp
from ..core import obligation, AnalysisError
from .common import *


@obligation('C15.1', 'ALIAS purity, interprocedural', 'tree_update, items_to_tree, Dict.__add__, tree_items/keys/values, tree_getitem, tree_get',
            'neither t nor u (at any depth) is modified: items_to_tree inserts into copy(tree), which is shallow, so every branch walked by _tree_setitem must be copied before it is written below',
            axioms=('A1',))
def c15_1(ctx):
    r = ctx.repo
    fns = [r.fn('_dict:%s' % n) for n in ('tree_update', 'items_to_tree', 'tree_items', 'tree_keys', 'tree_values', 'tree_getitem', 'tree_get')]
    fns.append(r.fn('_dict:Dict.__add__'))
    purity(ctx, fns, what='operand tree')
    # in-place by contract: tree_setitem must still write (positive control that the engine sees the writes of _tree_setitem)
    A, S = alias_summaries(ctx, [r.fn('_dict:tree_setitem')])
    w = S['_dict:tree_setitem'].write_list()
    ctx.count(1, 'positive control')
    ctx.need(any(p == 'tree' for p, d, o, v in w), 'positive control failed: ALIAS no longer sees the in-place writes of tree_setitem')
    ctx.fact('positive_control', 'tree_setitem writes tree@%s' % sorted({d for p, d, o, v in w if p == 'tree'}))


def _skeleton(fn, holes):
    """normalised source of a flatten function with the leaf/prefix expressions replaced by holes and self-calls unified"""
    node = _cp.deepcopy(fn.node)
    node.body = [s for s in node.body if not (isinstance(s, ast.Expr) and isinstance(s.value, ast.Constant))]
    name = fn.name

    class T(ast.NodeTransformer):
        def visit_Call(self, n):
            self.generic_visit(n)
            if isinstance(n.func, ast.Name) and n.func.id == name:
                n.func.id = 'SELF'
            return n
    T().visit(node)
    return node


@obligation('C15.2', 'SIBLING(skeleton)', 'tree_items, tree_keys, tree_values',
            'tree_keys and tree_values must be the paths and leaves of tree_items in the same order: the three functions share the branch test and the iteration over the tree, differing only in what a leaf and a prefix contribute',
            axioms=())
def c15_2(ctx):
    fns = {n: ctx.repo.fn('_dict:%s' % n) for n in ('tree_items', 'tree_keys', 'tree_values')}
    facts = {}
    for n, f in fns.items():
        tree, types = f.params[:2]
        top = [s for s in f.body if isinstance(s, ast.If)]
        ctx.need(top, 'branch test of %s not found' % n)
        test = N(top[-1].test)
        rb = [r for r in top[-1].body if isinstance(r, ast.Return)]
        rl = [r for r in else_of(top[-1]) if isinstance(r, ast.Return)]
        ctx.need(rb and rl, '%s does not return in both the branch and the leaf case' % n)
        comp = [c for c in ast.walk(rb[0].value) if isinstance(c, ast.ListComp) and any(isinstance(x, ast.Call) and call_name(x) == n for x in ast.walk(c))]
        ctx.need(comp, 'recursive comprehension of %s not found' % n)
        outer = comp[0]
        it = N(outer.generators[-1].iter) if len(outer.generators) == 1 else None
        # the outermost comprehension iterates the tree; the inner one iterates the recursive call
        outer_iter = N(outer.generators[0].iter)
        rec = [x for x in ast.walk(outer) if isinstance(x, ast.Call) and call_name(x) == n][0]
        facts[n] = dict(test=test, outer_iter=outer_iter, rec_args=[N(a) for a in rec.args], flatten='sum(' in U(rb[0].value) and U(rb[0].value).rstrip().endswith(', [])'),
                        leaf=N(rl[0].value), node=top[-1])
        ctx.count(1, f.where())
    # the three functions must also agree on WHAT a branch is: the default branch types, wherever each function gets them from
    def default_types(f):
        for st in f.body:
            if isinstance(st, ast.Assign) and U(st.targets[0]) == f.params[1]:
                v = st.value
                if isinstance(v, ast.Call) and call_name(v) == '_tree_types':
                    g = ctx.repo.fn('_dict:_tree_types')
                    rr = returns_of(g.node)
                    v = rr[-1].value if rr else None
                if isinstance(v, ast.IfExp) and isinstance(v.body, ast.Tuple):
                    return sorted(U(e) for e in v.body.elts), st
        return None, None
    dts = {n: default_types(f) for n, f in fns.items()}
    ctx.count(3)
    for n, (dt_, st) in dts.items():
        if dt_ is None:
            raise AnalysisError('default branch types of %s not found' % n)
        if dt_ != ['Dict', 'dict', 'dictattr']:
            ctx.fail(fns[n], st, 'the default branch types of %s are %s: exactly dict, Dict and dictattr are branches for all three functions, or their results no longer line up (a Dict branch reported as one leaf)' % (n, dt_),
                     witness='tree_items(Dict(a = 1)) vs tree_keys(Dict(a = 1))')
    ref = facts['tree_items']
    t = fns['tree_items'].params[0]
    if ref['test'] != NS('type(%s) in types' % t):
        ctx.fail(fns['tree_items'], ref['node'], 'branch test of tree_items is `%s`' % ref['test'])
    for n in ('tree_keys', 'tree_values'):
        f = facts[n]
        for k in ('test', 'outer_iter', 'rec_args', 'flatten'):
            if f[k] != ref[k]:
                ctx.fail(fns[n], f['node'], '%s differs from tree_items in its %s: `%s` vs `%s` - keys/values would not line up with the items' % (n, k, f[k], ref[k]))
    if ref['outer_iter'] != t:
        ctx.fail(fns['tree_items'], ref['node'], 'tree_items iterates `%s`, not the tree in its own key order' % ref['outer_iter'])
    want_leaf = {'tree_items': '[(%s,)]' % t, 'tree_keys': '[()]', 'tree_values': '[%s]' % t}
    for n, w in want_leaf.items():
        ctx.count(1)
        if facts[n]['leaf'] != w:
            ctx.fail(fns[n], facts[n]['node'], 'leaf case of %s returns %s, expected %s' % (n, facts[n]['leaf'], w))
    # prefix: items/keys prepend (key,), values do not
    for n, pref in (('tree_items', True), ('tree_keys', True), ('tree_values', False)):
        f = fns[n]
        has = '(key,) + item' in U(f.node)
        ctx.count(1)
        if has != pref:
            ctx.fail(f, f.node, '%s %s prepend the key to what the subtree returns' % (n, 'does not' if pref else 'must not'))


@obligation('C15.3', 'MATCH', '_dict:_tree_setitem',
            'override semantics of the merge: branches are created on demand when missing or not a branch type, existing branches are descended into, the leaf is overwritten unless present and the value is in `ignore` (decided with in_)',
            axioms=())
def c15_3(ctx):
    fn = ctx.repo.fn('_dict:_tree_setitem')
    tree, item, base, ignore, types = fn.params[:5]
    loops = [s for s in fn.body if isinstance(s, ast.For)]
    ctx.need(len(loops) == 1, 'path loop of _tree_setitem not found')
    loop = loops[0]
    ctx.count(1, fn.where(loop))
    if N(loop.iter) != '%s[:-2]' % item:
        ctx.fail(fn, loop, 'the branch path is %s, expected item[:-2] (all but the leaf key and the value)' % U(loop.iter))
    key = U(loop.target)
    ifs = [s for s in loop.body if isinstance(s, ast.If)]
    ok = ifs and N(ifs[0].test) == NS('%s not in res or not isinstance(res[%s], %s)' % (key, key, types)) and any(isinstance(a, ast.Assign) and N(a.targets[0]) == 'res[%s]' % key and N(a.value) == '%s()' % base for a in ifs[0].body)
    if not ok:
        ctx.fail(fn, ifs[0] if ifs else loop, 'a missing / non-branch node on the path is not replaced by a new base() branch')
    desc = [s for s in loop.body if isinstance(s, ast.Assign) and U(s.targets[0]) == 'res' and N(s.value) == 'res[%s]' % key]
    if not desc or loop.body[-1] is not desc[0]:
        ctx.fail(fn, loop, 'the walk does not descend with res = res[key] as the last step of each iteration')
    tail = fn.body[fn.body.index(loop) + 1:]
    ctx.count(1)
    leaf = [s for s in tail if isinstance(s, ast.If)]
    if not leaf or N(leaf[0].test) != NS('%s[-2] in res and in_(%s[-1], %s)' % (item, item, ignore)):
        ctx.fail(fn, leaf[0] if leaf else fn.node, 'ignore test is `%s`, expected `item[-2] in res and in_(item[-1], ignore)`' % (U(leaf[0].test) if leaf else '?'))
    else:
        st = [a for a in else_of(leaf[0]) if isinstance(a, ast.Assign)]
        if not st or N(st[0].targets[0]) != 'res[%s[-2]]' % item or N(st[0].value) != '%s[-1]' % item:
            ctx.fail(fn, leaf[0], 'the leaf is not stored as res[item[-2]] = item[-1]')
        if not any(isinstance(r, ast.Return) for r in leaf[0].body):
            ctx.fail(fn, leaf[0], 'an ignored value still overwrites the existing leaf')
    ctx.count(1)
    short = [s for s in fn.body if isinstance(s, ast.If) and N(s.test) == NS('len(%s) < 2' % item) and any(isinstance(r, ast.Raise) for r in s.body)]
    if not short:
        ctx.fail(fn, fn.node, 'an item shorter than (key, value) is no longer rejected')
    init = [s for s in fn.body if isinstance(s, ast.Assign) and U(s.targets[0]) == 'res']
    if not init or U(init[0].value) != tree:
        ctx.fail(fn, fn.node, 'the walk does not start at the tree')


@obligation('C15.4', 'MATCH', '_dict:items_to_tree, _dict:tree_update',
            'rebuild: duplicate paths raise when asked, the base type is the type of the tree, items are inserted in order; merge = flatten(update) inserted into a copy of tree',
            axioms=())
def c15_4(ctx):
    fn = ctx.repo.fn('_dict:items_to_tree')
    items, tree = fn.params[0], fn.params[1]
    ctx.count(1, fn.where())
    dup = [s for s in fn.body if isinstance(s, ast.If) and 'raise_if_duplicate' in U(s.test)]
    if not dup or N(dup[0].test) != NS('raise_if_duplicate and len(set([tuple(node[:-1]) for node in %s])) < len(%s)' % (items, items)) or not any(isinstance(r, ast.Raise) for r in dup[0].body):
        ctx.fail(fn, dup[0] if dup else fn.node, 'duplicate paths are no longer detected as len(set(paths)) < len(items)')
    none_not_falsy(ctx, fn, [tree], 'an EMPTY tree is a tree (of its own class): only None means "start a new dictattr"; testing truthiness turns Dict() + {...} into a dictattr')
    cp = [s for s in ast.walk(fn.node) if isinstance(s, ast.Assign) and U(s.targets[0]) == tree and N(s.value) == 'copy(%s)' % tree]
    ctx.count(1)
    if not cp:
        ctx.fail(fn, fn.node, 'items are inserted into the caller\'s tree instead of a copy')
    b = single_assign(fn, 'base')
    if b is None or N(b) != 'type(%s)' % tree:
        ctx.fail(fn, fn.node, 'new branches are not created with the type of the tree')
    ig = [N(x.value) for x in body_nodes(fn.node) if isinstance(x, ast.Assign) and U(x.targets[0]) == 'ignore']
    ctx.count(1)
    if ig != ['as_list(ignore)']:
        ctx.fail(fn, fn.node, 'the values to ignore are `%s`, expected as_list(ignore): no ignore list means NOTHING is ignored (as_list(None, none=True) is [None], which makes every None leaf of the update lose against the existing value)' % ig,
                 stmt='ignore = %s' % ig, witness="tree_update(dict(a=1), dict(a=None)) == dict(a=None)")
    loops = [s for s in fn.body if isinstance(s, ast.For)]
    ctx.count(1)
    if not loops or U(loops[0].iter) != items or not calls_in(loops[0], '_tree_setitem'):
        ctx.fail(fn, fn.node, 'items are not inserted one by one in the given order')
    else:
        c = calls_in(loops[0], '_tree_setitem')[0]
        if [U(a) for a in c.args[:5]] != [tree, U(loops[0].target), 'base', 'ignore', 'types']:
            ctx.fail(fn, c, '_tree_setitem receives %s' % [U(a) for a in c.args[:5]])
    rr = returns_of(fn.node)
    if not rr or U(rr[-1].value) != tree:
        ctx.fail(fn, fn.node, 'items_to_tree does not return the rebuilt tree')
    fn = ctx.repo.fn('_dict:tree_update')
    ctx.count(1, fn.where())
    it = single_assign(fn, 'items')
    rr = returns_of(fn.node)
    if it is None or N(it) != 'tree_items(%s, types)' % fn.params[1]:
        ctx.fail(fn, fn.node, 'the update is not flattened with tree_items(update, types)')
    if not rr or N(rr[-1].value) != NS('items_to_tree(items, %s, ignore=ignore, types=types)' % fn.params[0]):
        ctx.fail(fn, rr[-1] if rr else fn.node, 'tree_update is not items_to_tree(items, tree, ignore = ignore, types = types)')
    fn = ctx.repo.fn('_dict:Dict.__add__')
    ctx.count(1, fn.where())
    rr = returns_of(fn.node)
    if not rr or N(rr[-1].value) != 'tree_update(self, %s)' % fn.params[1]:
        ctx.fail(fn, rr[-1] if rr else fn.node, 'Dict + dict is not tree_update(self, other)')


@obligation('C15.5', 'TABLES + MATCH', '_tree:tree_to_table, _tree:is_tree, _table_to_tree:_table_to_tree',
            "the two pattern languages agree (separator '/', wildcard sigil '%' stripped with [1:]) and a literal segment is followed exactly when that key is PRESENT in the tree (presence, not truthiness or non-None-ness, so that None/0/'' leaves survive)",
            axioms=())
def c15_5(ctx):
    r = ctx.repo
    f1, f2, f3 = r.fn('_tree:tree_to_table'), r.fn('_tree:is_tree'), r.fn('_table_to_tree:_table_to_tree')
    for f in (f1, f2, f3):
        ctx.count(1, f.where())
        src = U(f.node)
        if "split('/')" not in src:
            ctx.fail(f, f.node, "%s does not split patterns on '/'" % f.name)
        if "startswith('%')" not in src:
            ctx.fail(f, f.node, "%s does not recognise wildcards by the '%%' sigil" % f.name)
    for f in (f1, f3):
        if '[1:]' not in U(f.node):
            ctx.fail(f, f.node, '%s does not strip the sigil with [1:]' % f.name)
    # literal segment lookup in tree_to_table
    tree, pattern = f1.params[:2]
    lit = [n for n in ast.walk(f1.node) if isinstance(n, ast.If) and N(n.test) == NS('key in t')]
    ctx.count(1)
    if lit:
        rb = [x for x in lit[0].body if isinstance(x, ast.Return)]
        if not rb or N(rb[0].value) != NS('tree_to_table(t[key], match[1:], leaf=leaf)'):
            ctx.fail(f1, lit[0], 'a literal segment does not descend into t[key] with the rest of the pattern')
        re_ = [x for x in else_of(lit[0]) if isinstance(x, ast.Return)]
        if not re_ or N(re_[0].value) != '[]':
            ctx.fail(f1, lit[0], 'a literal segment absent from the tree does not yield no rows')
    else:
        gets = [c for c in calls_in(f1.node, 'get') if U(c.func.value) == 't']
        if gets:
            ctx.fail(f1, enclosing_stmt(parent_map(f1.node), gets[0]), 'a literal segment is looked up with t.get(key) and tested for None/truthiness: a key that is present with a None leaf is treated as absent and its row is dropped',
                     witness="tree_to_table({'w': None}, 'w/%weight') must give [{'weight': None}]")
        else:
            raise AnalysisError('literal-segment lookup of tree_to_table not recognised')
    # a None leaf is a value like any other: table_to_tree stores it, so tree_to_table must hand it back; no test of the node against
    # None / emptiness may end in "no rows"
    ctx.count(1)
    def _absence_test(t_):
        if isinstance(t_, ast.BoolOp):
            return any(_absence_test(v) for v in t_.values)
        if isinstance(t_, ast.UnaryOp) and isinstance(t_.op, ast.Not):
            return isinstance(t_.operand, ast.Name) and t_.operand.id in (tree, 't')
        if isinstance(t_, ast.Compare) and len(t_.ops) == 1 and isinstance(t_.ops[0], (ast.Is, ast.Eq)):
            return isinstance(t_.left, ast.Name) and t_.left.id in (tree, 't') and isinstance(t_.comparators[0], ast.Constant) and t_.comparators[0].value is None
        if isinstance(t_, ast.Call) and call_name(t_) in ('is_none', 'is_zero_len') and t_.args:
            return isinstance(t_.args[0], ast.Name) and t_.args[0].id in (tree, 't')
        return False
    for n in ast.walk(f1.node):
        if isinstance(n, ast.If) and _absence_test(n.test) and any(isinstance(x, ast.Return) and x.value is not None and N(x.value) == '[]' for x in n.body):
            ctx.fail(f1, n, 'tree_to_table answers "no rows" when the node is None/empty (`if %s`): a row whose wildcard leaf is None is stored by table_to_tree but no longer read back' % U(n.test)[:80],
                     witness="tree_to_table({'a': None}, '%k/%v') must give [{'k': 'a', 'v': None}]")
    # wildcard segment: one row set per key of the dict, key recorded under the stripped name
    ctx.count(1)
    wc = [c for c in ast.walk(f1.node) if isinstance(c, ast.ListComp) and any(isinstance(x, ast.Call) and call_name(x) == '_update' for x in ast.walk(c))]
    if not wc or N(wc[0].generators[0].iter) != 't' or N(wc[0].elt) != NS('_update(tree_to_table(t[k], match[1:], leaf=leaf), {key[1:]: k})'):
        ctx.fail(f1, wc[0] if wc else f1.node, 'a wildcard segment does not visit every key of the branch recording it under the wildcard name')
    # leaf comparison
    ctx.count(1)
    leafs = [n for n in ast.walk(f1.node) if isinstance(n, ast.If) and N(n.test) == NS('key == %s' % tree)]
    if not leafs:
        ctx.fail(f1, f1.node, 'a literal last segment is no longer matched against the leaf value')
    # _table_to_tree builds the item from the same pattern
    ctx.count(1)
    it = single_assign(f3, 'item')
    if it is None or N(it) != NS("[d[p[1:]] if p.startswith('%') else p for p in path]"):
        ctx.fail(f3, f3.node, '_table_to_tree item is `%s`' % (U(it) if it is not None else '?'))


@obligation('C15.6', 'PATH (symbolic summary)', '_dict:tree_getitem, _dict:tree_get',
            'tree_getitem(t, path) returns the leaf for every path listed by tree_keys/tree_items: those paths are sequences of KEYS (a key may contain a dot), so only a path given as one string is split on dots; the members of a list/tuple path are used as they are',
            axioms=())
def c15_6(ctx):
    for name in ('tree_getitem', 'tree_get'):
        f = ctx.repo.fn('_dict:%s' % name)
        item = f.params[1]
        seen = set()
        site = ([x for x in body_nodes(f.node) if isinstance(x, ast.Assign) and U(x.targets[0]) == 'items'] or [f.node])[0]
        for p in sym_paths(f):
            v = p.env.get('items')
            if v is None:
                continue
            ctx.count(1, f.where())
            isstr = 'str' if p.holds('isinstance(%s, str)' % item, True) else 'seq' if p.holds('isinstance(%s, str)' % item, False) else None
            if isstr is None:
                ctx.fail(f, site, '%s: the path `%s` is parsed as `%s` without first asking whether it is a string' % (name, item, N(v)), stmt=v)
                break
            seen.add(isstr)
            want = NS("%s.split('.')" % item) if isstr == 'str' else 'as_list(%s)' % item
            if N(v) != want:
                ctx.fail(f, site, '%s: a %s path is parsed as `%s`, expected `%s` (keys inside a list/tuple are never split: a key may contain dots)' % (name, 'string' if isstr == 'str' else 'list/tuple', N(v), want), stmt=v,
                         witness="tree_getitem({'a.b': 1}, ['a.b']) == 1")
                break
        if not ctx.findings and seen != {'str', 'seq'}:
            ctx.fail(f, f.node, '%s no longer distinguishes a dotted string from a sequence of keys' % name)


@obligation('C15.7', 'TYPESTATE + TABLES (guards by truth table)', '_table_to_tree:table_to_tree',
            'table_to_tree and tree_to_table are inverse on rows: a dictable or a list is taken row by row and ANYTHING ELSE IS ONE ROW, used as it is (a dict row whose leaf is a list must not be exploded into several rows); the table argument reaches that dispatch unconverted',
            axioms=())
def c15_7(ctx):
    f = ctx.repo.fn('_table_to_tree:table_to_tree')
    tab = f.params[2]
    ctx.count(1, f.where())
    for s in body_nodes(f.node):
        if isinstance(s, (ast.Assign, ast.AugAssign)) and tab in [U(t) for t in (s.targets if isinstance(s, ast.Assign) else [s.target])]:
            ctx.fail(f, s, 'the table is converted (`%s`) before its rows are taken: a single row given as a dict is no longer one row' % U(s)[:80], witness="table_to_tree({}, '%a/%b', dict(a='x', b=[1, 2]))")
    d = [s for s in f.body if isinstance(s, ast.If) and 'isinstance(%s' % tab in U(s.test)]
    ctx.count(1)
    if not d:
        ctx.fail(f, f.node, 'table_to_tree no longer distinguishes a table of rows from a single row')
        return
    ok, w = prop_equiv(d[0].test, 'isinstance(%s, (dictable, list))' % tab)
    if not ok:
        ctx.fail(f, d[0], 'rows are iterated when `%s`, expected exactly for a dictable or a list' % U(d[0].test), witness=w)
    loops = [x for x in d[0].body if isinstance(x, ast.For) and N(x.iter) == tab]
    if not loops or not any(call_name(c) == '_table_to_tree' and len(c.args) >= 3 and U(c.args[2]) == U(loops[0].target) for c in calls_in(loops[0])):
        ctx.fail(f, d[0], 'the rows of a table are not inserted one by one with _table_to_tree(tree, pattern, row, ...)')
    single = [c for x in else_of(d[0]) for c in calls_in(x, '_table_to_tree')]
    if not single or len(single[0].args) < 3 or U(single[0].args[2]) != tab:
        ctx.fail(f, d[0], 'a single row is not inserted as it is')
