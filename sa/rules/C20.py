"""C20 perdictable evaluates a function once per row of the keyed join of its inputs (structural necessary conditions)."""
import ast
from ..core import obligation, AnalysisError
from .common import *


@obligation('C20.1', 'MATCH', '_perdictable:join, _perdictable:_join_dictable_with_defaults',
            'one row per key present in every table input; an input named in defaults is outer-joined: inputs without defaults are inner-joined with *, the defaulted inputs are outer-joined AMONG THEMSELVES first and only then attached to the inner join, '
            'so that only keys of the inner join receive defaults',
            axioms=())
def c20_1(ctx):
    fn = ctx.repo.fn('_perdictable:join')
    defs = {U(s.targets[0]): s for s in fn.body if isinstance(s, ast.Assign)}
    ctx.count(1, fn.where())
    t1 = defs.get('tbl1')
    if t1 is None or N(t1.value) != 'reducer(mul, no_defaults.values())':
        ctx.fail(fn, t1 or fn.node, 'inputs without defaults are not inner-joined with reducer(mul, ...)')
    nd = defs.get('no_defaults')
    wd = defs.get('with_defaults')
    if nd is None or N(nd.value) != NS('{k: v for k, v in dictables.items() if not k in defaults}') or wd is None or N(wd.value) != NS('{k: v for k, v in dictables.items() if k in defaults}'):
        ctx.fail(fn, nd or fn.node, 'table inputs are not split into those with and without a default')
    ctx.count(1)
    td1, td2, td = defs.get('tbl_def1'), defs.get('tbl_def2'), defs.get('tbl_def')
    if td1 is None or N(td1.value) != '(tbl1, {})':
        ctx.fail(fn, td1 or fn.node, 'the inner join does not enter the default join with an empty default set')
    if td2 is None or N(td2.value) != 'reducer(_join_dictable_with_defaults, pairs, (None, None))':
        ctx.fail(fn, td2 or td or fn.node, 'the defaulted inputs are not outer-joined among themselves first (reducer(_join_dictable_with_defaults, pairs, (None, None))): folding them one by one onto the inner join lets a later defaulted table add its own-only keys, which then receive defaults although they are missing from a non-default input',
                 witness='one plain table and two defaulted tables, the second with a stale key')
    if td is None or N(td.value) != '_join_dictable_with_defaults(tbl_def1, tbl_def2)':
        ctx.fail(fn, td or fn.node, 'the default join is not attached as _join_dictable_with_defaults(inner join, defaulted join)')
    pr = defs.get('pairs')
    if pr is None or N(pr.value) != NS('[(value, {key: defaults[key]}) for key, value in with_defaults.items()]'):
        ctx.fail(fn, pr or fn.node, 'each defaulted input is not paired with its own default')
    g = ctx.repo.fn('_perdictable:_join_dictable_with_defaults')
    none_not_falsy(ctx, g, ['d1', 'd2', 'd'], 'a table\'s truth value is its row count: an EMPTY inner join is not "no table" - treating it so returns the defaulted table as is, with keys that are not in every input')
    nn = [N(s.test) for s in g.body if isinstance(s, ast.If)] + [N(t) for s in g.body if isinstance(s, ast.If) for t, b in if_chain(s) if t is not None]
    if NS('d1 is None') not in nn or NS('d2 is None') not in nn:
        ctx.fail(g, g.node, 'absence of one side of the default join is not tested with `is None`')
    ctx.count(1, g.where())
    src = [U(s) for s in ast.walk(g.node) if isinstance(s, (ast.Assign, ast.AugAssign))]
    need = ['d = d1 * d2', 'd += (d2 / d1)(**def1)', 'd += (d1 / d2)(**def2)']
    for n_ in need:
        if n_ not in src:
            ctx.fail(g, g.node, 'default join lacks `%s` (inner join, then rows only in the right table get the left defaults and vice versa)' % n_)
    conds = {N(s.test): [U(b) for b in s.body] for s in ast.walk(g.node) if isinstance(s, ast.If)}
    if conds.get('len(def1)') != ['d += (d2 / d1)(**def1)'] or conds.get('len(def2)') != ['d += (d1 / d2)(**def2)']:
        ctx.fail(g, g.node, 'defaults are attached under the wrong guard: %s' % conds)
    rr = returns_of(g.node)
    if not rr or N(rr[-1].value) != '(d, defaults)':
        ctx.fail(g, g.node, 'the default join does not return (table, merged defaults)')


@obligation('C20.2', 'MATCH', '_perdictable:join',
            'scalars broadcast and the result is sorted by key', axioms=())
def c20_2(ctx):
    fn = ctx.repo.fn('_perdictable:join')
    defs = {U(s.targets[0]): s for s in fn.body if isinstance(s, ast.Assign)}
    ctx.count(1, fn.where())
    nd = defs.get('non_dictables')
    if nd is None or N(nd.value) != NS('{k: [v] for k, v in seq.items() if not is_dictable(v)}'):
        ctx.fail(fn, nd or fn.node, 'scalar inputs are not collected as one-cell columns')
    rs = defs.get('res')
    if rs is None or N(rs.value) != 'tbl_def[0](**non_dictables)':
        ctx.fail(fn, rs or fn.node, 'scalars are not broadcast onto the joined table')
    rr = returns_of(fn.node)
    ctx.count(1)
    if not rr or N(rr[-1].value) != 'res.sort(as_list(on))':
        ctx.fail(fn, rr[-1] if rr else fn.node, 'the joined rows are not sorted by the key columns')
    pm = parent_map(fn.node)
    for r0 in rr:
        if N(r0.value) not in ('res.sort(as_list(on))', 'dictable(non_dictables)'):
            g = pm.get(r0)
            ctx.fail(fn, g if isinstance(g, ast.If) else r0, 'join can return `%s` without sorting by key%s: the merge of tables carrying different subsets of the key columns is not in key order' % (U(r0.value), (' (when `%s`)' % U(g.test)) if isinstance(g, ast.If) else ''),
                     witness='two key columns, the last table merged carries only one of them')
    e = [r for r in rr if N(r.value) == 'dictable(non_dictables)']
    if not e:
        ctx.fail(fn, fn.node, 'all-scalar inputs no longer give a single-row table')
    sq = defs.get('seq')
    if sq is None or '_item(d, key, on=' not in N(sq.value):
        ctx.fail(fn, sq or fn.node, 'each input is no longer reduced to its key columns plus its value column')
    df = [s for s in fn.body if isinstance(s, ast.Assign) and U(s.targets[0]) == 'defaults']
    if len(df) < 2 or N(df[1].value) != NS('{k: v for k, v in defaults.items() if k in inputs}'):
        ctx.fail(fn, fn.node, 'defaults are not restricted to the inputs actually supplied')


def _gate(ctx, fn, op_ok):
    vals = [s for s in ast.walk(fn.node) if isinstance(s, ast.Assign) and U(s.targets[0]) == 'values']
    ctx.need(vals, 'row evaluation of %s not found' % fn.qual)
    comp = [c for c in ast.walk(vals[0].value) if isinstance(c, ast.ListComp)]
    ctx.need(comp, 'row evaluation comprehension not found')
    c = comp[0]
    ctx.count(1, fn.where(vals[0]))
    if not (isinstance(c.elt, ast.IfExp) and N(c.elt.test) == NS('rin or rex') and N(c.elt.body) == 'row[self.function]' and U(c.elt.orelse) == 'c'):
        ctx.fail(fn, vals[0], 'a row is evaluated when `%s` and keeps `%s` otherwise; expected: f on the row iff run_if_none or run_expiry, else the cached cell' % (U(c.elt.test) if isinstance(c.elt, ast.IfExp) else '?', U(c.elt.orelse) if isinstance(c.elt, ast.IfExp) else '?'))
    if N(c.generators[0].iter) != 'zip(rows, run_if_none, run_expiry, cache)' or N(c.generators[0].target) != '(row, rin, rex, c)':
        ctx.fail(fn, vals[0], 'rows, gates and cached cells are not zipped in step')
    calls = [x for x in ast.walk(c) if isinstance(x, ast.Subscript) and U(x.slice) == 'self.function']
    if len(calls) != 1:
        ctx.fail(fn, vals[0], 'f is evaluated %d times per row' % len(calls))
    ex = [s for s in ast.walk(fn.node) if isinstance(s, ast.Assign) and U(s.targets[0]) == 'run_expiry']
    ctx.count(1)
    if not ex or not isinstance(ex[0].value, ast.ListComp):
        ctx.fail(fn, fn.node, 'expiry gate not found')
    else:
        e = ex[0].value
        dj = [N(d) for d in disjuncts(e.elt)]
        v = U(e.generators[0].target)
        if NS('%s is None' % v) not in dj:
            ctx.fail(fn, ex[0], 'a row without expiry is not (re)computed')
        rest = [d for d in dj if d != NS('%s is None' % v)]
        if not rest or rest[0] not in op_ok(v):
            ctx.fail(fn, ex[0], 'expiry gate is `%s`: rows whose expiry is in the past must keep the cached value, all others are recomputed' % U(e.elt))
        if N(e.generators[0].iter) != 'ds[_expiry]':
            ctx.fail(fn, ex[0], 'the expiry gate does not read the expiry column of the joined rows')
    td = [s for s in ast.walk(fn.node) if isinstance(s, ast.Assign) and U(s.targets[0]) == 'today']
    if not td or N(td[0].value) != 'dt(0)':
        ctx.fail(fn, fn.node, '"today" is not dt(0)')


@obligation('C20.3', 'MATCH polarity', 'perdictable._value_output, perdictable._dict_output',
            'rows for which a previously computed value is supplied with an expiry date in the past keep that value and f is not called for them; all other rows are (re)computed exactly once',
            axioms=())
def c20_3(ctx):
    f1 = ctx.repo.fn('_perdictable:perdictable._value_output')
    f2 = ctx.repo.fn('_perdictable:perdictable._dict_output')
    _gate(ctx, f1, lambda v: (NS('%s >= today' % v), NS('%s > today' % v)))
    _gate(ctx, f2, lambda v: (NS('%s >= today' % v), NS('%s > today' % v)))
    for f in (f1, f2):
        ctx.count(1, f.where())
        rn = [s for s in ast.walk(f.node) if isinstance(s, ast.If) and N(s.test) == 'len(missing_cols)']
        if not rn:
            ctx.fail(f, f.node, 'rows are not all recomputed when the output column is missing')
        else:
            ch = if_chain(rn[0])
            got = [(N(t) if t is not None else 'else', N(b[0].value) if isinstance(b[0], ast.Assign) else U(b[0])) for t, b in ch]
            if got[0][1] != NS('[True] * len(ds)') or len(got) < 3 or got[1] != (NS('self.if_none is False'), NS('[False] * len(ds)')):
                ctx.fail(f, rn[0], 'None-gating table is %s' % got[:2])


@obligation('C20.4', 'PATH (closed set of results)', 'perdictable._value_output',
            'the result is f(...) itself when all inputs are scalars, and otherwise one row per key of the join: every return is built from the joined rows (or is the documented empty-join value); returning a supplied table as is would bypass the join',
            axioms=())
def c20_4(ctx):
    f = ctx.repo.fn('_perdictable:perdictable._value_output')
    allowed = {NS('inputs.get(col, None)'): 'empty join', NS('rows[0][self.function]'): 'all scalars', NS('rows(**{col: values})'): 'rows + values',
               NS('rows[on](**{col: values})'): 'keys + values', NS('dictable(**{col: values})'): 'values only'}
    rr = returns_of(f.node)
    ctx.at_least(5, len(rr), 'returns of _value_output')
    pm = parent_map(f.node)
    for r0 in rr:
        ctx.count(1, f.where(r0))
        t = N(r0.value)
        if t not in allowed:
            g = pm.get(r0)
            ctx.fail(f, g if isinstance(g, ast.If) else r0, '_value_output can return `%s`, which is not built from the rows of the join: a supplied table with stale or unsorted keys is handed back as the result' % U(r0.value),
                     witness='every joined row cached with a past expiry while the cache table has an extra key', stmt=r0)
    # guards of the two special cases
    ctx.count(1)
    e = [s for s in ast.walk(f.node) if isinstance(s, ast.If) and N(s.test) == NS('len(ds) == 0')]
    if not e or N(e[0].body[0].value) != NS('inputs.get(col, None)'):
        ctx.fail(f, f.node, 'empty join case changed')
    s1 = [s for s in ast.walk(f.node) if isinstance(s, ast.If) and 'len(ds) == 1' in U(s.test)]
    if not s1 or N(s1[0].test) != NS('len(ds) == 1 and len({k: v for k, v in inputs.items() if is_dictable(v)}) == 0'):
        ctx.fail(f, s1[0] if s1 else f.node, 'f(...) itself is returned under `%s`; expected: exactly one row and no table input' % (U(s1[0].test) if s1 else '?'))
    ds = [s for s in ast.walk(f.node) if isinstance(s, ast.Assign) and U(s.targets[0]) == 'ds']
    ctx.count(1)
    if not ds or N(ds[0].value) != NS('join(inputs, on=on, renames=self.renames, defaults=defaults)'):
        ctx.fail(f, ds[0] if ds else f.node, 'rows are not the keyed join of the inputs')
    w = ctx.repo.fn('_perdictable:perdictable.wrapped')
    ctx.count(1, w.where())
    src = U(w.node)
    if 'self._value_output(expiry=expiry, **inputs)' not in src or 'self._dict_output(expiry=expiry, **inputs)' not in src:
        ctx.fail(w, w.node, 'wrapped does not dispatch to the value / dict output with the expiry and all inputs')


@obligation('C20.5', 'call graph', 'perdictable.fullargspec',
            'the lifted function reports f\'s signature extended by expiry and its output column(s)', axioms=())
def c20_5(ctx):
    f = ctx.repo.fn('_perdictable:perdictable.fullargspec')
    rr = returns_of(f.node)
    ctx.count(1, f.where())
    if not rr or N(rr[-1].value) != NS('argspec_add(getargspec(self.function), expiry=None, **{o: None for o in self.output})'):
        ctx.fail(f, rr[-1] if rr else f.node, 'fullargspec is `%s`' % (U(rr[-1].value) if rr else '?'))
    g = ctx.repo.fn('_inspect:argspec_add')
    ctx.count(1, g.where())
    src = U(g.node)
    if 'new_keys = [key for key in update if key not in fullargspec.args]' not in src or 'args = fullargspec.args + new_keys' not in src or 'defaults = (fullargspec.defaults or ()) + new_defaults' not in src:
        ctx.fail(g, g.node, 'argspec_add no longer appends the new names with their defaults after the existing parameters')
    o = ctx.repo.fn('_perdictable:perdictable.output')
    ctx.count(1, o.where())
    rr = returns_of(o.node)
    if not rr or N(rr[-1].value) != NS("getattr(self.function, 'output', ['data'])"):
        ctx.fail(o, o.node, 'output columns are not function.output (default data)')


@obligation('C20.6', 'SIBLING + TABLES (guards by truth table)', 'perdictable._value_output vs perdictable._dict_output; join preliminaries',
            'the single-value and the multi-output paths make the same decisions: the expiry is joined in as one more defaulted input, missing output columns force evaluation, one joined row without table inputs gives f(...) itself, '
            'the cached cell is the joined output column, and keys come back as the key columns of the joined rows',
            axioms=())
def c20_6(ctx):
    r = ctx.repo
    for name in ('_value_output', '_dict_output'):
        f = r.fn('_perdictable:perdictable.%s' % name)
        body = [' '.join(U(s).split()) for s in f.body]
        ctx.count(1, f.where())
        for need in ('on = ulist(as_list(self.on))', 'inputs[_expiry] = expiry', 'defaults = argspec_defaults(self.function) if self.defaults is None else self.defaults',
                     'defaults[_expiry] = defaults.get(_expiry, None)', 'ds = join(inputs, on=on, renames=self.renames, defaults=defaults)',
                     'missing_cols = cols - ds.keys()', 'provided_cols = cols - missing_cols',
                     'rows = ds if self.output_is_input is True else ds - [key for key in provided_cols if key not in as_list(self.output_is_input)]'):
            if need not in body:
                ctx.fail(f, f.node, '%s lacks the step `%s`' % (name, need), stmt='%s lacks %s' % (name, need))
        expect_guards(ctx, f, [
            ('len(ds) == 1 and len({k: v for k, v in inputs.items() if is_dictable(v)}) == 0', 'return rows[0][self.function]', 'scalar inputs give f(...) itself'),
            ('len(missing_cols)', 'run_if_none = [True] * len(ds)', 'a missing output column forces evaluation'),
            ('self.if_none is False', 'run_if_none = [False] * len(ds)', 'None values are kept unless if_none is set'),
            ('len(on) > 0', None, 'keyed results carry the key columns'),
        ][:3], where=[x for x in ast.walk(f.node) if isinstance(x, ast.If)])
        nn = [s for s in ast.walk(f.node) if isinstance(s, ast.Assign) and U(s.targets[0]) == 'nones']
        ctx.count(1)
        if not nn or N(nn[0].value) != NS('ds[cols if self.if_none is True else ds.keys() & as_list(self.if_none)].do(is_none)'):
            ctx.fail(f, nn[0] if nn else f.node, 'the None test of %s is `%s`' % (name, U(nn[0].value) if nn else '?'))
        rn = [s for s in ast.walk(f.node) if isinstance(s, ast.Assign) and U(s.targets[0]) == 'run_if_none' and isinstance(s.value, ast.ListComp)]
        if not rn or N(rn[0].value) != '[max(row.values()) for row in nones]':
            ctx.fail(f, rn[0] if rn else f.node, 'a row is re-run when ANY of its output cells is None')
        ks = [s for s in ast.walk(f.node) if isinstance(s, ast.If) and 'len(on)' in U(s.test)]
        if not ks or not prop_equiv(ks[0].test, 'len(on) > 0')[0]:
            ctx.fail(f, ks[0] if ks else f.node, 'keyed results are returned when `%s`' % (U(ks[0].test) if ks else '?'))
    v = r.fn('_perdictable:perdictable._value_output')
    ctx.count(1)
    ca = [s for s in ast.walk(v.node) if isinstance(s, ast.Assign) and U(s.targets[0]) == 'cache']
    if not ca or N(ca[0].value) != NS('ds[col] if col in ds.keys() else [None] * len(ds)'):
        ctx.fail(v, ca[0] if ca else v.node, 'the cached cells are `%s`, expected the joined output column (None when absent)' % (U(ca[0].value) if ca else '?'))
    if 'defaults[col] = defaults.get(col, None)' not in [' '.join(U(s).split()) for s in v.body]:
        ctx.fail(v, v.node, 'the output column is not joined in as a defaulted (outer-joined) input')
    d = r.fn('_perdictable:perdictable._dict_output')
    ctx.count(1)
    em = [s for s in ast.walk(d.node) if isinstance(s, ast.If) and prop_equiv(s.test, 'len(ds) == 0')[0]]
    if not em or N(em[0].body[0].value) != NS('{key: inputs.get(key, None) for key in cols}'):
        ctx.fail(d, em[0] if em else d.node, 'an empty join of the multi-output path does not return the supplied outputs')
    j = r.fn('_perdictable:join')
    expect_guards(ctx, j, [('len(dictables) == 0', 'return dictable(non_dictables)', 'all-scalar inputs')], where=j.body)
    ctx.count(1)
    body = [' '.join(U(s).split()) for s in j.body]
    for need in ('defaults = {} if defaults is None else defaults', 'renames = renames or {}'):
        if need not in body:
            ctx.fail(j, j.node, 'join lacks `%s`' % need, stmt='join lacks ' + need)
    g = r.fn('_perdictable:_join_dictable_with_defaults')
    body = [' '.join(U(s).split()) for s in g.body]
    ctx.count(1)
    for need in ('def1 = def1 or {}', 'def2 = def2 or {}', 'defaults = {}', 'defaults.update(def1)', 'defaults.update(def2)'):
        if need not in body:
            ctx.fail(g, g.node, 'the default join lacks `%s`' % need, stmt='_join_dictable_with_defaults lacks ' + need)
    w = r.fn('_perdictable:perdictable.wrapped')
    expect_guards(ctx, w, [('getattr(self.function, _output, None) is None', 'return self._value_output(expiry=expiry, **inputs)', 'single-output functions')], where=w.body)


@obligation('C20.7', 'TABLES (ordered dispatch by truth table) + DEF-USE (stores through the parameter)', '_perdictable:_item',
            "the value column of a table input is chosen in a fixed order: a column named like the input wins, else the `data` column of a perdictable output (unless it is a key), else the single non-key column, else KeyError; "
            'the selection works on copies (rename / column subset) - apart from the explicit `renames` it never writes a column into the caller\'s table, which the next call would read as the input',
            axioms=())
def c20_7(ctx):
    f = ctx.repo.fn('_perdictable:_item')
    d, key, on = f.params[0], f.params[1], f.params[2]
    rows = [('%s in %s.keys()' % (key, d), '%s = %s[%s + [%s]]' % (d, d, on, key), 'a column named like the input'),
            ('_data in %s.keys() and _data not in %s' % (d, on), '%s = %s.rename(**{_data: %s})[%s + [%s]]' % (d, d, key, on, key), 'the data column of a perdictable output'),
            ('len(%s.keys()) == len(%s) + 1' % (d, on), 'renames = (%s.keys() - %s)[0]' % (d, on), 'the single non-key column')]
    expect_guards(ctx, f, rows)
    # the order of the dispatch: first match wins
    chains = [s for s in ast.walk(f.node) if isinstance(s, ast.If) and N(s.test) == NS(rows[0][0])]
    ctx.count(1, f.where())
    if chains:
        tests = [N(t) for t, b in if_chain(chains[0]) if t is not None]
        want = [NS(r[0]) for r in rows]
        if tests[:3] != want:
            ctx.fail(f, chains[0], 'the value column is looked for in the order %s; expected: named like the input, then `data`, then the single remaining column' % tests[:3], witness='a table with both a column x and a column data, passed as x')
        tail = [b for t, b in if_chain(chains[0]) if t is None]
        if not tail or not any(isinstance(x, ast.Raise) and 'KeyError' in U(x) for x in tail[0]):
            ctx.fail(f, chains[0], 'a table with no recognisable value column no longer raises KeyError')
    else:
        first = [s for s in ast.walk(f.node) if isinstance(s, ast.If) and N(s.test) in (NS(rows[1][0]), NS(rows[2][0]))]
        if first:
            ctx.fail(f, first[0], 'the column named like the input is no longer looked for FIRST: `%s` is tested before it' % U(first[0].test), witness='a table with both a column x and a column data, passed as x')
    # stores through the parameter
    allowed = {N(ast.parse(x).body[0]) for x in ('%s[%s] = %s[renames]' % (d, key, d), '%s[%s] = %s[renames[%s]]' % (d, key, d, key))}
    n = 0
    for s in ast.walk(f.node):
        tg = []
        if isinstance(s, (ast.Assign, ast.AugAssign, ast.Delete)):
            tg = [t for t in (s.targets if not isinstance(s, ast.AugAssign) else [s.target]) if isinstance(t, (ast.Subscript, ast.Attribute))]
        elif isinstance(s, ast.Expr) and isinstance(s.value, ast.Call) and isinstance(s.value.func, ast.Attribute) and s.value.func.attr in ('update', 'pop', 'setdefault', 'clear', '__setitem__', '__delitem__', 'popitem'):
            tg = [s.value.func]
        for t in tg:
            root = t.value
            while isinstance(root, (ast.Subscript, ast.Attribute)):
                root = root.value
            if isinstance(root, ast.Name) and root.id == d:
                n += 1
                if N(s) not in allowed:
                    ctx.fail(f, s, "`%s` writes into the caller's table while choosing the value column: the table the caller keeps now carries a stale copy, which the next call reads as the column named like the input" % U(s)[:80],
                             witness='f(x = t) twice, with t.data refreshed in between')
    ctx.count(max(n, 1))
