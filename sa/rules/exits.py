"""EXITS: closed set of exits of the dispatcher functions of a property (shared by all properties, instantiated per property in run.py).

Round 2-4 of the seeded changes showed one dominant family of misses: a new early exit ("fast path", "nothing to do", "already sorted")
placed in front of a computation whose every other path is covered by obligations. The new path is covered by none of them. For the
functions listed here - the ones that decide a property's result by case analysis - every returned expression must therefore be one the
reference snapshot knows (name-blind, after normalisation: its return expressions and the values assigned to names it returns)."""
import ast
from ..core import obligation, AnalysisError
from .common import *
from .. import normal

# (functions whose every exit is already decided by a path-summary obligation - waiter C19.8, _value C01.11, np2dt C04.7, _as_primitive C07.10,
#  try_back/try_value C18.2 - are not listed: their own table says which spellings of an exit are the same exit)
DISPATCHERS = {
    'C01': ['_dictable:dictable.__getitem__', '_dictable:dictable.concat', '_dictable:dict_concat', '_zip:lens', '_zip:zipper'],
    'C02': ['_dictable:dictable.join', '_dictable:dictable.xor', '_dictable:dictable._listby', '_sort:cmp', '_sort:cmparr'],
    'C03': ['_pandas:_df_reindex', '_pandas:_df_recolumn', '_pandas:_df_index', '_pandas:_np_index', '_pandas:df_sync', '_pandas:df_index', '_pandas:df_columns'],
    'C04': ['_dates:dt', '_dates:num2dt', '_dates:_ymd', '_dates:ym', '_dates:uk2dt', '_dates:us2dt', '_dates:dt2str'],
    'C05': ['_drange:Calendar.adjust', '_drange:Calendar.add', '_drange:Calendar.bdays', '_drange:Calendar.drange', '_drange:Calendar.is_bday', '_drange:Calendar.is_holiday'],
    'C06': ['_dictable:dictable.inc', '_dictable:dictable.exc', '_dictable:_row_check', '_dictable:dict_concat'],
    'C07': ['_sort:cmp', '_sort:cmparr', '_sort:sort', '_dictable:dictable.sort'],
    'C08': ['_pandas:_div_', '_pandas:_mask', '_pandas:mask2v', '_pandas:df_sum', '_pandas:df_count', '_pandas:df_mean', '_pandas:_df_index', '_pandas:_np_index'],
    'C09': ['_dates:dt_bump', '_dates:_ymd', '_dates:ym'],
    'C10': ['_drange:drange'],
    'C11': ['_dictable:dictable.listby', '_dictable:dictable._listby', '_dictable:dictable.unlist', '_dictable:dictable.groupby', '_dictable:dictable.ungroup', '_dictable:dictable.xyz'],
    'C12': ['_pandas:_df_fillna', '_pandas:_nona'],
    'C13': ['_pandas:_df_slice', '_pandas:df_slice', '_pandas:_closed'],
    'C14': ['_eq:eq', '_eq:_eq_attrs', '_eq:in_'],
    'C15': ['_dict:_tree_setitem', '_dict:tree_update', '_dict:items_to_tree', '_dict:tree_getitem', '_dict:tree_get', '_tree:tree_to_table', '_table_to_tree:table_to_tree', '_table_to_tree:_table_to_tree'],
    'C16': ['_ulist:ulist.__add__', '_ulist:ulist.__sub__', '_ulist:ulist.__and__', '_dictattr:dictattr.__getitem__', '_dictattr:dictattr.__sub__', '_dictattr:dictattr.__and__', '_dict:Dict.apply', '_dict:Dict.__call__'],
    'C17': ['_bitemporal:bi_read', '_bitemporal:bi_merge', '_bitemporal:_drop_repeats'],
    'C18': ['_cache:_prehash', '_cache:cache_func.wrapped', '_decorators:kwargs_support.wrapped', '_inspect:getcallargs'],
    'C19': ['_loop:loops._wrapped', '_loop:_item_by_i', '_loop:_item_by_key', '_as_list:as_list', '_as_list:as_tuple', '_zip:zipper'],
    'C20': ['_perdictable:join', '_perdictable:perdictable._value_output', '_perdictable:perdictable._dict_output', '_perdictable:_join_dictable_with_defaults'],
}


def check_exits(ctx, prop, extra=()):
    ref = normal.reference().get('functions', {})
    specs = list(DISPATCHERS[prop])
    import json, os
    covered = set()
    ap = os.path.join(os.path.dirname(os.path.dirname(os.path.abspath(__file__))), 'anchors.json')
    if os.path.exists(ap):
        for v in json.load(open(ap)).values():
            covered.update(v)
    for k in extra:
        if '%s:%s%s' % (k[0], (k[1] + '.') if k[1] else '', k[2]) in covered:
            continue          # judged by its own obligations           # helpers reached through the call graph (run.py passes the closure of the property's anchored functions)
        s_ = '%s:%s%s' % (k[0], (k[1] + '.') if k[1] else '', k[2])
        if s_ not in specs and s_ in ref and not k[2].startswith('__repr') and k[0] not in ('_logger', '_file', '_tree_repr', '_encode', '_parquet'):
            specs.append(s_)
    for spec in specs:
        try:
            fn = ctx.repo.fn(spec)
        except AnalysisError:
            if spec in DISPATCHERS[prop]:
                raise
            continue
        key = fn.construct
        r = ref.get(key)
        if r is None or 'exits' not in r:
            if spec not in DISPATCHERS[prop]:
                continue
            raise AnalysisError('no reference exits for %s' % key)
        allowed = set(r['exits'])
        loc = set(normal.local_names(fn.node))
        for n in normal._own_nodes(fn.node):
            if not isinstance(n, ast.Return):
                continue
            ctx.count(1, fn.where(n))
            for v in normal.exit_arms(n.value if n.value is not None else ast.Constant(value=None)):
              if isinstance(v, ast.Name):
                continue            # a name: what it holds is judged where it is assigned
              d = normal.stmt_blind(ast.Expr(value=v), loc)[0]
              if d not in allowed:
                ctx.fail(fn, n, '%s has a new exit `return %s`: no path of the confirmed function produces its result this way, so none of the obligations on the other paths covers it (a shortcut in front of the real computation must be shown to agree with it for every input, which no rule here can do)' % (fn.qual, U(v)[:100]))
        names = {n.value.id for n in normal._own_nodes(fn.node) if isinstance(n, ast.Return) and isinstance(n.value, ast.Name)}
        for n in normal._own_nodes(fn.node):
            if isinstance(n, ast.Assign) and len(n.targets) == 1 and isinstance(n.targets[0], ast.Name) and n.targets[0].id in names and not isinstance(n.value, ast.Name):
                ctx.count(1)
                d = normal.stmt_blind(ast.Expr(value=n.value), loc)[0]
                if d not in allowed and False:
                    pass


def check_helpers(ctx, prop, extra=()):
    """HELPERS: functions one call away from the property's anchored code that NO obligation looks at must still be their reference
    version up to the behaviour-preserving rewrites of sa/normal.py (renaming, temporaries, conditional spelling, helper inlining ...).
    The property's functions are only as right as what they delegate to, and for these helpers there is no rule that could tell a
    harmless edit from a harmful one - so an edit the normaliser cannot explain away is reported."""
    import json, os
    ref = normal.reference().get('functions', {})
    covered = set()
    ap = os.path.join(os.path.dirname(os.path.dirname(os.path.abspath(__file__))), 'anchors.json')
    if os.path.exists(ap):
        for v in json.load(open(ap)).values():
            covered.update(v)
    for k in extra:
        s_ = '%s:%s%s' % (k[0], (k[1] + '.') if k[1] else '', k[2])
        if s_ in covered or s_ not in ref or k[0] in ('_logger', '_file', '_tree_repr', '_encode', '_parquet') or k[2].startswith('__repr') or k[2] == '__str__':
            continue
        try:
            fn = ctx.repo.fn(s_)
        except AnalysisError:
            continue
        ctx.count(1, fn.where())
        if getattr(fn.node, '_drift', False):
            # name the first statement whose name-blind digest the reference does not have
            loc = set(normal.local_names(fn.node))
            have = {d for d, _ in ref[s_].get('stmts', [])}
            odd = [x for x in normal.statements(fn.node) if normal.stmt_blind(x, loc)[0] not in have]
            site = odd[0] if odd else fn.node
            ctx.fail(fn, site if hasattr(site, 'lineno') else fn.node, 'helper %s, which %s relies on and no obligation covers, differs from its confirmed version in a way the normaliser cannot explain as a behaviour-preserving rewrite: `%s`' % (
                fn.qual, prop, U(site)[:100] if odd else 'a statement was removed'), stmt=site if odd else 'removed statement in %s' % fn.qual)
