"""C18 decorators are transparent: same results, same signature, no double wrapping (structural necessary conditions)."""
import ast
from ..core import obligation, AnalysisError, Fn
from .common import *


@obligation('C18.1', 'SIBLING protocol', 'every subclass of wrapper (enumerated from the class table)',
            'uniform construction: an overriding __init__ must hand `function` (by keyword) to the base initialiser, otherwise unwrapping of same-type wrappers and signature forwarding silently stop working for that decorator; each decorator defines `wrapped` (or overrides __call__)',
            axioms=())
def c18_1(ctx):
    subs = ctx.repo.subclasses('wrapper')
    ctx.at_least(12, len(subs), 'subclasses of wrapper')
    ctx.fact('subclasses', subs)
    for c in subs:
        mod, node = ctx.repo.classes[c]
        init = ctx.repo.funcs.get((mod, c, '__init__'))
        ctx.count(1, '%s:%s' % (mod, c))
        # the wrapper protocol (_kwargs = everything but the function, used to re-wrap / re-parameterise a decorator) belongs to the base
        # class alone: a subclass that overrides it drops state when the wrapper is re-created (a cache loses its memo)
        for special in ('_kwargs', '__call__', '__getattr__'):
            ov = ctx.repo.funcs.get((mod, c, special))
            if ov is not None and special == '_kwargs':
                g = Fn(ctx.repo, mod, c, special, ov)
                ctx.fail(g, ov, '%s overrides wrapper.%s: re-wrapping (type(self)(function, **self._kwargs)) then loses part of the decorator state' % (c, special),
                         witness='cache(f) re-wrapped after calls evaluates f again for arguments already seen')
        if init is not None:
            f = Fn(ctx.repo, mod, c, '__init__', init)
            sup = [x for x in ast.walk(init) if isinstance(x, ast.Call) and isinstance(x.func, ast.Attribute) and x.func.attr == '__init__' and isinstance(x.func.value, ast.Call) and call_name(x.func.value) == 'super']
            if not sup:
                ctx.fail(f, init, '%s.__init__ does not call the base initialiser' % c)
                continue
            k = kw(sup[0], 'function')
            if k is None or U(k) != 'function':
                ctx.fail(f, sup[0], '%s.__init__ does not pass function = function to the base initialiser' % c)
            if 'function' not in f.params:
                ctx.fail(f, init, '%s.__init__ has no `function` parameter' % c)
            elif f.params.index('function') != 1:
                ctx.fail(f, init, '`function` is not the first parameter of %s.__init__: the decorator syntax @%s passes the function first' % (c, c))
            # every other declared parameter must reach the base initialiser (it is stored on the wrapper and read back as self.<name>)
            given = {k2.arg for k2 in sup[0].keywords if k2.arg}
            for p in f.params[2:]:
                if p not in given and not f.node.args.kwarg and p not in ('kw',):
                    pass
        init_forwarding(ctx, c)
        has_wrapped = ctx.repo.method(c, 'wrapped') is not None
        own_call = (mod, c, '__call__') in ctx.repo.funcs
        if not has_wrapped and not own_call:
            mod_, n_ = ctx.repo.classes[c]
            f = Fn(ctx.repo, mod_, c, '__init__', init) if init is not None else ctx.repo.fn('_decorators:wrapper.__call__')
            if c not in ('DictArgSpec',):
                ctx.fail(f, f.node, 'decorator %s defines neither wrapped nor __call__: calling it runs the bare function' % c)


def _try_shape(ctx, fn, fallback_ok):
    """every Try in fn whose body returns self.function(*args, **kwargs); the fallback is returned only inside `except Exception`."""
    tries = [s for s in ast.walk(fn.node) if isinstance(s, ast.Try)]
    if not tries:
        ctx.fail(fn, fn.node, '%s no longer guards the call with try/except' % fn.qual)
        return
    a = fn.node.args
    call_txt = NS('self.function(*%s, **%s)' % (a.vararg.arg, a.kwarg.arg))
    for t in tries:
        ctx.count(1, fn.where(t))
        rb = [r for r in t.body if isinstance(r, ast.Return)]
        if not rb or N(rb[0].value) != call_txt:
            ctx.fail(fn, t, 'the try body does not return self.function(*args, **kwargs) itself')
        for h in t.handlers:
            if h.type is None or U(h.type) not in ('Exception',):
                ctx.fail(fn, h, 'handler catches %s: the fallback must be returned exactly when f raises an Exception' % (U(h.type) if h.type else 'everything incl. KeyboardInterrupt'))
        if t.orelse or t.finalbody:
            for r in ast.walk(ast.Module(t.orelse + t.finalbody, [])):
                if isinstance(r, ast.Return):
                    ctx.fail(fn, r, 'a value is returned from else/finally: it replaces the result of f even when f does not raise')
    # returns outside any try/except-handler must be the plain call
    pm = parent_map(fn.node)
    for r in [n for n in body_nodes(fn.node) if isinstance(n, ast.Return)]:
        anc = pm.get(r)
        inside = False
        while anc is not None and anc is not fn.node:
            if isinstance(anc, (ast.Try, ast.ExceptHandler)):
                inside = True
            anc = pm.get(anc)
        if not inside:
            ctx.count(1)
            if N(r.value) != call_txt:
                ctx.fail(fn, r, '`%s` is returned outside try/except: it is returned although f did not raise' % U(r.value))


@obligation('C18.2', 'PATH', 'try_value.wrapped, try_back.wrapped',
            'try_* wrappers return their fallback exactly when f raises: the fallback is returned only from `except Exception` of a try whose body returns f(*args, **kwargs)',
            axioms=())
def c18_2(ctx):
    f = ctx.repo.fn('_decorators:try_value.wrapped')
    _try_shape(ctx, f, None)
    last = [t for t in ast.walk(f.node) if isinstance(t, ast.Try)]
    if last:
        h = last[-1].handlers[0] if last[-1].handlers else None
        ctx.count(1)
        if h is None or not any(isinstance(r, ast.Return) and N(r.value) in ('copy(self.value)', 'self.value') for r in h.body):
            ctx.fail(f, last[-1], 'the fallback of try_value is not self.value')
        elif any(isinstance(r, ast.Return) and N(r.value) == 'self.value' for r in h.body):
            ctx.fail(f, h, 'the fallback object itself is returned (no copy): a mutable fallback such as the [] of try_list is shared between calls, so a caller who edits one result changes what the next failing call returns',
                     witness='g = try_list(f); g(bad).append(1); g(bad) == [1]')
    # "returns the fallback exactly when f raises": nothing in the handler may raise itself before the fallback is returned
    for name in ('try_value', 'try_back'):
        g = ctx.repo.fn('_decorators:%s.wrapped' % name)
        for tr in [x for x in ast.walk(g.node) if isinstance(x, ast.Try)]:
            for h in tr.handlers:
                ctx.count(1, g.where(h))
                ev = h.name
                for st in h.body:
                    if isinstance(st, ast.Return):
                        break
                    for n in ast.walk(st):
                        if isinstance(n, ast.Subscript) or (isinstance(n, ast.Attribute) and isinstance(n.value, ast.Name) and n.value.id == ev) or isinstance(n, ast.Raise):
                            ctx.fail(g, st, 'the handler of %s evaluates `%s` before returning the fallback: that can raise (an exception without args, a missing key), and the wrapper then propagates an error instead of its fallback' % (name, U(n)),
                                     witness='try_value(f, verbose=True) with f raising a bare ValueError()')
                            break
    f = ctx.repo.fn('_decorators:try_back.wrapped')
    _try_shape(ctx, f, None)
    t = [x for x in ast.walk(f.node) if isinstance(x, ast.Try)]
    if t and t[0].handlers:
        r = [x for x in t[0].handlers[0].body if isinstance(x, ast.Return)]
        ctx.count(1)
        direct = r and N(r[0].value) == NS('args[0] if len(args) > 0 else kwargs[getargs(self.function)[0]]')
        via = False
        if r and not direct and N(r[0].value) == NS('getcallarg(self.function, args, kwargs)'):
            # the library's own selector: the first positional argument, else the keyword named like the first parameter
            g = ctx.repo.fn('_inspect:getcallarg')
            sp = [p for p in sym_paths(g) if p.term == 'return']
            via = len(sp) == 2 and {p.text() for p in sp} == {'args[0]', NS('kwargs[getargs(function)[0]]')} and all(
                (p.text() == 'args[0]') == any(pol for t_, pol, _ in p.atoms() if 'len(args)' in t_ or 'nonempty(args)' in t_) for p in sp)
        if not (direct or via):
            ctx.fail(f, t[0], 'the fallback of try_back is not the first argument')
    # the aliases
    for name, val in (('try_nan', 'np.nan'), ('try_zero', '0'), ('try_true', 'True'), ('try_false', 'False')):
        m, v = ctx.repo.module_value('_decorators', name)
        ctx.count(1)
        if not (isinstance(v, ast.Call) and call_name(v) == 'try_value' and kw(v, 'value') is not None and U(kw(v, 'value')) == val):
            ctx.fail(f, f.node, '%s is `%s`, expected try_value(value = %s)' % (name, U(v), val), stmt=v)


@obligation('C18.3', 'MATCH', 'kwargs_support.wrapped',
            'kwargs_support makes a function without **kwargs ignore exactly the keywords it does not declare: positional arguments are forwarded, keywords are filtered by membership in getargs(function)',
            axioms=())
def c18_3(ctx):
    f = ctx.repo.fn('_decorators:kwargs_support.wrapped')
    ctx.count(1, f.where())
    flt = [s for s in f.body if isinstance(s, ast.Assign) and U(s.targets[0]) == 'kwargs']
    if not flt or N(flt[0].value) != NS('{key: value for key, value in kwargs.items() if key in _args}'):
        ctx.fail(f, flt[0] if flt else f.node, 'keyword filter is `%s`, expected exactly the keywords named in the function signature' % (U(flt[0].value) if flt else '?'))
    a = single_assign(f, '_args')
    if a is None or N(a) != 'self._args':
        ctx.fail(f, f.node, '_args is not self._args')
    rr = returns_of(f.node)
    if not rr or N(rr[-1].value) != NS('self.function(*args, **kwargs)'):
        ctx.fail(f, rr[-1] if rr else f.node, 'the call is not self.function(*args, **filtered kwargs)')
    g = ctx.repo.fn('_decorators:kwargs_support._args')
    ctx.count(1, g.where())
    rr = returns_of(g.node)
    if not rr or N(rr[-1].value) != 'getargs(self.function)':
        ctx.fail(g, g.node, 'declared names are not getargs(self.function)')
    h = ctx.repo.fn('_inspect:getargs')
    ctx.count(1, h.where())
    if NS('argspec.args + argspec.kwonlyargs') not in [N(r.value) for r in returns_of(h.node) if r.value is not None]:
        ctx.fail(h, h.node, 'getargs no longer lists positional and keyword-only parameter names')


@obligation('C18.4', 'MATCH', 'wrapper.__init__, wrapper.__call__',
            'wrapping twice with the same decorator equals wrapping once: a same-type wrapper is unwrapped on construction, directly and through a chain of other decorators; __call__ forwards to wrapped',
            axioms=())
def c18_4(ctx):
    f = ctx.repo.fn('_decorators:wrapper.__init__')
    ctx.count(1, f.where())
    top = [s for s in f.body if isinstance(s, ast.If) and N(s.test) == NS('type(function) == type(self)')]
    if not top:
        ctx.fail(f, f.node, 'a same-type wrapper passed directly is no longer unwrapped')
    else:
        txt = [U(s) for s in top[0].body]
        if 'kw = function._kwargs' not in txt or 'kw.update(kwargs)' not in txt or not any(t.startswith('function = ') and 'function.function' in t for t in txt):
            ctx.fail(f, top[0], 'direct unwrapping does not merge the old parameters with the new ones and take the inner function: %s' % txt)
    loops = [s for s in f.body if isinstance(s, ast.While) and N(s.test) == 'isinstance(f, wrapper)']
    ctx.count(1)
    if not loops:
        ctx.fail(f, f.node, 'the chain of wrapped decorators is no longer searched for a same-type wrapper')
    else:
        inner = [s for s in loops[0].body if isinstance(s, ast.If) and N(s.test) == NS('type(f.function) == type(self)')]
        if not inner or not any(isinstance(a, ast.Assign) and N(a.targets[0]) == 'f[_function]' and N(a.value) == 'f.function.function' for a in inner[0].body):
            ctx.fail(f, loops[0], 'a same-type wrapper deeper in the chain is not spliced out')
        elif not any(isinstance(a, ast.Assign) and U(a.targets[0]) == 'f' and N(a.value) == 'f.function' for a in else_of(inner[0])):
            ctx.fail(f, loops[0], 'the walk down the chain does not advance')
    # re-wrapping a decorator of the same type found down the chain: ITS parameters are the base, those given now override them
    same = [x for x in ast.walk(f.node) if isinstance(x, ast.If) and N(x.test) == NS('type(f.function) == type(self)')]
    ctx.count(1)
    if same:
        seq = [' '.join(U(b).split()) for b in same[0].body]
        if seq[:2] != ['kw = f.function._kwargs', 'kw.update(kwargs)']:
            ctx.fail(f, same[0], 'the parameters of the replaced same-type decorator and the new ones are merged as %s: expected kw = f.function._kwargs followed by kw.update(kwargs), i.e. the parameters given NOW win' % seq[:2],
                     witness='try_zero(kwargs_support(try_none(f))) must fall back to 0, not None')
    ctx.count(1)
    if not any(isinstance(x, ast.Assign) and N(x.targets[0]) == 'self[_spec]' and const(x.value, 'X') is None for x in f.body):
        ctx.fail(f, f.node, 'wrapper.__init__ no longer resets the cached argument specification (self[_spec] = None): a subclass without its own __init__ (cache_func) then has no spec entry and getargspec / getargs of the decorated function fail or come back empty',
                 witness='getargs(cache(f)); kwargs_support(cache(f))(a=1)')
    g = ctx.repo.fn('_decorators:wrapper.__call__')
    ctx.count(1, g.where())
    rr = returns_of(g.node)
    if not rr or N(rr[-1].value) != NS("getattr(self, 'wrapped', self[_function])(*args, **kwargs)"):
        ctx.fail(g, rr[-1] if rr else g.node, '__call__ does not forward to wrapped (or the bare function) with the same arguments')
    dec = [r for r in rr if N(r.value) == NS('type(self)(function=args[0], **self._kwargs)')]
    if not dec:
        ctx.fail(g, g.node, 'a parameterised decorator applied to a function no longer builds the wrapper of that function with the same parameters')


@obligation('C18.5', 'ALIAS purity', 'wrapper.__init__',
            'constructing a wrapper must not modify the callable being wrapped: only copies of the wrappers in its chain may be edited',
            axioms=('A1',))
def c18_5(ctx):
    f = ctx.repo.fn('_decorators:wrapper.__init__')
    purity(ctx, [f], params={'function', 'args', 'kwargs'}, what='wrapped callable')
    ctx.count(1)
    first = f.body[0]
    if not (isinstance(first, ast.Assign) and U(first.targets[0]) == 'function' and N(first.value) == 'copy(function)'):
        ctx.fail(f, first, 'the top of the chain is no longer copied before it is edited')


@obligation('C18.6', 'call graph', 'wrapper.fullargspec, _inspect:getargspec',
            'a wrapped function reports f\'s argument specification: the spec is taken from the wrapped function and getargspec honours a fullargspec attribute first',
            axioms=())
def c18_6(ctx):
    f = ctx.repo.fn('_decorators:wrapper.fullargspec')
    ctx.count(1, f.where())
    st = [s for s in ast.walk(f.node) if isinstance(s, ast.Assign) and N(s.targets[0]) == 'self[_spec]']
    if not st or N(st[0].value) != 'as_DictArgSpec(getargspec(self[_function]))':
        ctx.fail(f, st[0] if st else f.node, 'the reported spec is `%s`, expected that of the wrapped function' % (U(st[0].value) if st else '?'))
    if not decorated_with(ctx.repo, f, 'property'):
        ctx.fail(f, f.node, 'fullargspec is no longer a property')
    g = ctx.repo.fn('_inspect:getargspec')
    ctx.count(1, g.where())
    first = [s for s in g.body if isinstance(s, ast.If)]
    if not first or N(first[0].test) != NS("hasattr(%s, 'fullargspec')" % g.params[0]) or N(first[0].body[0].value) != '%s.fullargspec' % g.params[0]:
        ctx.fail(g, g.node, 'getargspec does not consult the fullargspec attribute first')
    elif N(else_of(first[0])[0].value) != 'inspect.getfullargspec(%s)' % g.params[0]:
        ctx.fail(g, g.node, 'getargspec does not fall back to inspect.getfullargspec')
    h = ctx.repo.fn('_decorators:as_DictArgSpec')
    ctx.count(1, h.where())
    c = [x for x in calls_in(h.node, 'DictArgSpec')]
    fields = ['args', 'varargs', 'varkw', 'defaults', 'kwonlyargs', 'kwonlydefaults', 'annotations']
    if not c or any(kw(c[0], k) is None or N(kw(c[0], k)) != 'argspec.%s' % k for k in fields):
        ctx.fail(h, h.node, 'as_DictArgSpec does not copy every field of the spec under its own name')


@obligation('C18.7', 'PATH', 'cache_func.wrapped, cache_func._key, _cache:_prehash',
            'a cached function evaluates f exactly once per distinct combination of arguments and returns the first result thereafter: the cache key must be an injective image of (args, kwargs) - a hashable structural copy, not a hash value, '
            'which collides - the call happens only under `key not in cache`, its result is stored under that key and that entry is returned',
            axioms=('A1 (hash(-1) == hash(-2) in CPython; hashes are not injective)',))
def c18_7(ctx):
    f = ctx.repo.fn('_cache:cache_func.wrapped')
    ctx.count(1, f.where())
    k = [s for s in ast.walk(f.node) if isinstance(s, ast.Assign) and U(s.targets[0]) == 'key']
    if not k or N(k[0].value) != NS('self._key(*args, **kwargs)'):
        ctx.fail(f, k[0] if k else f.node, 'the cache key is not self._key(*args, **kwargs)')
    g = [s for s in ast.walk(f.node) if isinstance(s, ast.If) and N(s.test) == NS('key not in self.cache')]
    if not g or not any(isinstance(a, ast.Assign) and N(a.targets[0]) == 'self.cache[key]' and N(a.value) == NS('self.function(*args, **kwargs)') for a in g[0].body):
        ctx.fail(f, g[0] if g else f.node, 'f is not evaluated exactly under `key not in self.cache` with its result stored under the same key')
    tr = [s for s in ast.walk(f.node) if isinstance(s, ast.Try)]
    if tr:
        rr = [r for r in tr[0].body if isinstance(r, ast.Return)]
        if not rr or N(rr[-1].value) != 'self.cache[key]':
            ctx.fail(f, tr[0], 'the cached entry is not what is returned')
    kf = ctx.repo.fn('_cache:cache_func._key')
    ctx.count(1, kf.where())
    rr = returns_of(kf.node)
    if not rr:
        ctx.fail(kf, kf.node, '_key returns nothing')
    else:
        v = rr[-1].value
        if N(v) == NS('_prehash((args, kwargs))'):
            pass
        elif any(isinstance(c, ast.Call) and call_name(c) in ('hash', '_hash') for c in ast.walk(v)):
            ctx.fail(kf, rr[-1], 'the cache key is a hash value (`%s`): distinct argument sets whose hashes collide share one entry, so the second call returns the first call\'s result without evaluating f' % U(v),
                     witness='f(-1) then f(-2): hash(-1) == hash(-2)')
        else:
            ctx.fail(kf, rr[-1], 'the cache key is `%s`, expected _prehash((args, kwargs)): "once per argument combination" needs a key that is the same for f(a=1, b=2) and f(b=2, a=1) (the dict branch of _prehash sorts the items) and structural for nested lists/dicts' % U(v)[:120],
                     witness='f(a=1, b=2); f(b=2, a=1)')
    p = ctx.repo.fn('_cache:_prehash')
    ctx.count(1, p.where())
    src = U(p.node)
    if 'tuple([_prehash(v) for v in value])' not in src or '(k, _prehash(v)) for k, v in value.items()' not in src:
        ctx.fail(p, p.node, '_prehash no longer maps lists/tuples and dicts to hashable structural copies')
    rr = returns_of(p.node)
    if not rr or U(rr[-1].value) != p.params[0]:
        ctx.fail(p, p.node, '_prehash does not leave other values as they are')
    for c in ast.walk(p.node):
        if isinstance(c, ast.Call) and call_name(c) in ('hash', 'str', 'repr', 'id'):
            ctx.fail(p, c, '_prehash collapses values through %s(): distinct arguments can get the same key' % call_name(c))


@obligation('C18.8', 'MATCH', '_inspect:getcallargs, _inspect:call_with_callargs',
            'getcallargs agrees with inspect.getcallargs and round-trips through call_with_callargs: positional values bind to parameter names in order, a keyword naming a parameter binds to it, '
            'the **kwargs bucket holds exactly the keywords that name NO positional parameter, extra positionals go to *args, a value given twice raises',
            axioms=())
def c18_8(ctx):
    f = ctx.repo.fn('_inspect:getcallargs')
    defs = {U(s.targets[0]): s for s in ast.walk(f.node) if isinstance(s, ast.Assign)}
    ctx.count(1, f.where())
    if 'arg_names' not in defs or N(defs['arg_names'].value) != NS('[] if spec.args is None else spec.args'):
        ctx.fail(f, f.node, 'arg_names is not the list of positional parameter names')
    a2k = defs.get('args2kwargs')
    if a2k is None or N(a2k.value) != 'dict(zip(arg_names, args))':
        ctx.fail(f, a2k or f.node, 'positional values are not bound to the parameter names in order')
    ctx.count(1)
    vk = defs.get('varkw')
    if vk is None:
        ctx.fail(f, f.node, 'the **kwargs bucket is never built')
    elif N(vk.value) != NS('{key: value for key, value in kwargs.items() if key not in arg_names}'):
        ctx.fail(f, vk, 'the **kwargs bucket is `%s`: it must hold exactly the keywords that name no positional parameter (arg_names); any other test puts a parameter passed by keyword into the bucket as well, or drops a genuine extra keyword' % U(vk.value),
                 witness='def f(a, b, **kw); getcallargs(f, 1, b=2) must give kw == {}')
    named = [c for c in calls_in(f.node, 'update') if U(c.func.value) == 'res' and c.args and isinstance(c.args[0], ast.DictComp)]
    if not named or N(named[0].args[0]) != NS('{key: value for key, value in kwargs.items() if key in arg_names}'):
        ctx.fail(f, f.node, 'keywords naming a parameter are not bound to that parameter when the function also takes **kwargs')
    ctx.count(1)
    dup = [s for s in f.body if isinstance(s, ast.If) and N(s.test) in ('len(duplicates)', 'duplicates') and any(isinstance(r, ast.Raise) for r in s.body)]
    d = defs.get('duplicates')
    if not dup or d is None or N(d.value) != NS('set(args2kwargs) & set(kwargs)'):
        ctx.fail(f, f.node, 'a parameter given both positionally and by keyword no longer raises')
    va = defs.get('varargs')
    if va is None or N(va.value) != 'args[len(arg_names):]':
        ctx.fail(f, va or f.node, 'extra positional values are not args[len(arg_names):]')
    st = [s for s in ast.walk(f.node) if isinstance(s, ast.Assign) and N(s.targets[0]) == 'res[spec.varargs]']
    if not st or U(st[0].value) != 'varargs':
        ctx.fail(f, f.node, 'extra positional values are not stored under the *args name')
    r0 = defs.get('res')
    if r0 is None or N(r0.value) != 'argspec_defaults(%s)' % f.params[0]:
        ctx.fail(f, f.node, 'the binding does not start from the declared defaults')
    g = ctx.repo.fn('_inspect:call_with_callargs')
    ctx.count(1, g.where())
    rr = returns_of(g.node)
    if not rr or N(rr[-1].value) != NS('%s(*args, **varkw)' % g.params[0]):
        ctx.fail(g, rr[-1] if rr else g.node, 'call_with_callargs does not call function(*args, **varkw)')
    gd = {U(s.targets[0]): N(s.value) for s in ast.walk(g.node) if isinstance(s, ast.Assign)}
    if gd.get('args') != NS('[params[arg] for arg in arg_names if arg in params] + list(varargs)'):
        ctx.fail(g, g.node, 'positional arguments are not rebuilt in parameter order followed by *args: %s' % gd.get('args'))
    if gd.get('varkw') != NS('c.pop(spec.varkw) if spec.varkw else {}') or gd.get('varargs') != NS('c.pop(spec.varargs) if spec.varargs else []'):
        ctx.fail(g, g.node, '*args / **kwargs are not taken out of the callargs under their own names')
    if gd.get('c') != 'dict(%s)' % g.params[1]:
        ctx.fail(g, g.node, 'call_with_callargs pops from the caller\'s mapping instead of a copy')


@obligation('C18.9', 'PATH (absent vs None)', '_loop:loops.wrapped, _loop:pd2np.wrapped',
            'loops / pd2np on non-container input return what f returns for every way of passing the arguments: "the first argument was not supplied" must be decided by PRESENCE (no positional and name not in kwargs), '
            'never by popping with a None default - f(a=None) is a supplied argument',
            axioms=('A1',))
def c18_9(ctx):
    f = ctx.repo.fn('_loop:loops.wrapped')
    ctx.count(1, f.where())
    for c in calls_in(f.node, 'pop'):
        if U(c.func.value) == 'kwargs' and c.args and (len(c.args) > 1 or c.keywords) and U(c.args[0]) in ('top', 'self.first'):
            ctx.fail(f, enclosing_stmt(parent_map(f.node), c), 'the looped argument is popped with a default (`%s`) and absence is inferred from the value: an explicit None passed by keyword is swallowed and f runs without it (or with its default)' % U(c),
                     witness='loops(f)(a = None)')
    g = [s for s in f.body if isinstance(s, ast.If) and any(isinstance(r, ast.Return) and N(r.value) == NS('self.function(*args, **kwargs)') for r in s.body)]
    if not ctx.findings:
        if not g or N(g[0].test) not in (NS('len(args) == 0 and not top in kwargs'), NS('len(args) == 0 and top not in kwargs'), NS('not args and top not in kwargs')):
            ctx.fail(f, g[0] if g else f.node, 'the "first argument not supplied" case is decided by `%s`, expected: no positional argument and the first parameter name not among the keywords' % (U(g[0].test) if g else '?'))
    t = single_assign(f, 'top')
    if t is not None and N(t) != 'self.first':
        ctx.fail(f, f.node, 'the looped parameter is not the first parameter of the function')
    fs = ctx.repo.fn('_loop:loops.first')
    ctx.count(1, fs.where())
    rr = returns_of(fs.node)
    if not rr or N(rr[-1].value) != NS('args[0] if len(args) else None'):
        ctx.fail(fs, fs.node, 'loops.first is not the first declared parameter')
    p = ctx.repo.fn('_loop:pd2np.wrapped')
    ctx.count(1, p.where())
    rr = [r for r in returns_of(p.node)]
    ok = any(isinstance(s, ast.If) and N(s.test) == NS('not is_pd(arg)') and any(isinstance(r, ast.Return) and 'self.function(*args_' in U(r.value) for r in s.body) for s in p.body)
    if not ok:
        ctx.fail(p, p.node, 'pd2np on non-pandas input no longer calls the function with the (int->float converted) arguments as given')
