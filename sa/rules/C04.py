"""C04 dt() maps every supported spelling of an instant to the same datetime (structural necessary conditions)."""
import ast, datetime
from ..core import obligation, AnalysisError
from .common import *

INF = float('inf')


def _split(intervals, var, test):
    """(true-part, false-part) of a list of closed integer intervals under a test on `var` made of comparisons with constants
    joined by `and`. Unknown tests raise."""
    def one(iv, c):
        c = canon(c)
        if not (isinstance(c, ast.Compare) and len(c.ops) == 1):
            raise AnalysisError('unsupported guard in numeric chain: %s' % U(c))
        a, op, b = c.left, c.ops[0], c.comparators[0]
        lo, hi = iv
        if U(a) == var and const(b) is not None:
            k = const(b)
            if isinstance(op, ast.Lt):
                return ([(lo, min(hi, k - 1))], [(max(lo, k), hi)])
            if isinstance(op, ast.LtE):
                return ([(lo, min(hi, k))], [(max(lo, k + 1), hi)])
            if isinstance(op, ast.Eq):
                return ([(max(lo, k), min(hi, k))], [(lo, min(hi, k - 1)), (max(lo, k + 1), hi)])
        if U(b) == var and const(a) is not None:
            k = const(a)
            if isinstance(op, ast.Lt):     # k < var
                return ([(max(lo, k + 1), hi)], [(lo, min(hi, k))])
            if isinstance(op, ast.LtE):    # k <= var
                return ([(max(lo, k), hi)], [(lo, min(hi, k - 1))])
        raise AnalysisError('unsupported guard in numeric chain: %s' % U(c))

    def clean(l):
        return [(a, b) for a, b in l if a <= b]
    T = list(intervals)
    F = []
    for c in conjuncts(test):
        nt = []
        for iv in T:
            t, f = one(iv, c)
            nt += clean(t)
            F += clean(f)
        T = nt
    return clean(T), clean(F)


def _chain_reach(fn, var, interval):
    """[(branch index, body, sub-intervals)] of the top-level if/elif chain of fn reachable for var in interval."""
    chain = None
    for s in fn.body:
        if isinstance(s, ast.If):
            chain = if_chain(s)
            break
    if chain is None:
        raise AnalysisError('guard chain of %s not found' % fn.qual)
    cur = [interval]
    out = []
    for i, (test, body) in enumerate(chain):
        if test is None:
            if cur:
                out.append((i, body, cur))
            break
        t, f = _split(cur, var, test)
        if t:
            out.append((i, body, t))
        cur = f
    return chain, out


@obligation('C04.1', 'NUM intervals', '_dates:num2dt guard chain',
            'dt of the ordinal / yyyymmdd integer of t must equal t over the whole supported range 1900-2300: every ordinal in range must reach exactly the fromordinal(i) branch and every yyyymmdd the digit-split branch',
            axioms=('A1',))
def c04_1(ctx):
    fn = ctx.repo.fn('_dates:num2dt')
    n = fn.params[0]
    # i = int(n)
    ivar = None
    for s in fn.body:
        for a in ([s] if isinstance(s, ast.Assign) else []):
            if N(a.value) == 'int(%s)' % n and isinstance(a.targets[0], ast.Name):
                ivar = a.targets[0].id
    ctx.need(ivar is not None, 'num2dt no longer takes i = int(n)')
    lo, hi = datetime.date(1900, 1, 1).toordinal(), datetime.date(2300, 1, 1).toordinal() - 1
    chain, reach = _chain_reach(fn, ivar, (lo, hi))
    ctx.count(1, fn.where())
    ctx.fact('ordinal_interval', [lo, hi])
    ctx.fact('ordinal_branches', [(i, ivs) for i, b, ivs in reach])
    okb = [(i, b, ivs) for i, b, ivs in reach if any(isinstance(r, ast.Return) and 'fromordinal(%s)' % ivar in N(r.value).replace(' ', '').replace('fromordinal(' + ivar + ')', 'fromordinal(%s)' % ivar) for r in b)]
    for i, b, ivs in reach:
        r0 = [r for r in b if isinstance(r, ast.Return)]
        txt = N(r0[0].value) if r0 else ''
        if 'fromordinal(%s)' % ivar not in txt:
            d0 = datetime.date.fromordinal(ivs[0][0])
            ctx.fail(fn, r0[0] if r0 else b[0], 'ordinals %s..%s (from %s) of the supported range reach the branch `%s` instead of datetime.fromordinal(%s)' % (ivs[0][0], ivs[-1][1], d0, txt[:60], ivar),
                     witness=dict(ordinal=ivs[0][0], date=str(d0)))
    # yyyymmdd
    chain, reach = _chain_reach(fn, ivar, (19000101, 22991231))
    ctx.count(1)
    ctx.fact('yyyymmdd_branches', [(i, ivs) for i, b, ivs in reach])
    for i, b, ivs in reach:
        r0 = [r for r in b if isinstance(r, ast.Return)]
        assigns = {U(s.targets[0]): N(s.value) for s in b if isinstance(s, ast.Assign)}
        good = r0 and isinstance(r0[0].value, (ast.BinOp, ast.Call)) and '_ymd(' in U(r0[0].value)
        if not good:
            ctx.fail(fn, r0[0] if r0 else b[0], 'yyyymmdd integers %s..%s reach `%s` instead of the digit-split branch' % (ivs[0][0], ivs[-1][1], U(r0[0].value)[:60] if r0 else '?'),
                     witness=dict(yyyymmdd=ivs[0][0]))
            continue
        call = [c for c in calls_in(r0[0], '_ymd')][0]
        args = [U(a) for a in call.args]
        want = {0: NS('%s // 10000' % ivar), 1: NS('%s %% 10000 // 100' % ivar), 2: NS('%s %% 100' % ivar)}
        alt1 = NS('%s // 100 %% 100' % ivar)
        for k, a in enumerate(args[:3]):
            got = assigns.get(a, a)
            ctx.count(1)
            if got != want[k] and not (k == 1 and got == alt1):
                ctx.fail(fn, call, 'digit split of yyyymmdd: argument %d of _ymd is `%s`, expected `%s`' % (k, got, want[k]))
    # fractional part carried
    ctx.count(1)
    ftxt = ' ; '.join(U(s) for s in fn.body if isinstance(s, ast.Assign)).replace('datetime.', '')
    if 'timedelta(%s - %s)' % (n, ivar) not in ftxt:
        ctx.fail(fn, fn.node, 'fraction of a day is no longer n - int(n)')


@obligation('C04.2', 'MATCH+NUM', '_dates:ym, _dates:_ymd',
            'dt(y, m, d) with month or day outside the calendar range equals the first day of the normalised month plus d-1 days',
            axioms=('A1', 'A2'))
def c04_2(ctx):
    fn = ctx.repo.fn('_dates:ym')
    y, m = fn.params[:2]
    txt = [N(s.value) + '|' + type(s).__name__ + '|' + U(s.target if isinstance(s, ast.AugAssign) else s.targets[0]) for s in fn.body if isinstance(s, (ast.Assign, ast.AugAssign))]
    ctx.count(1, fn.where())
    yok = any(t == '%s|AugAssign|%s' % (NS('(%s - 1) // 12' % m), y) for t in txt) or any(t == '%s|Assign|%s' % (NS('%s + (%s - 1) // 12' % (y, m)), y) for t in txt)
    mok = any(t in ('%s|Assign|%s' % (NS('1 + (%s - 1) %% 12' % m), m), '%s|Assign|%s' % (NS('(%s - 1) %% 12 + 1' % m), m)) for t in txt)
    if not yok:
        ctx.fail(fn, fn.node, 'year is not advanced by (m-1)//12 when the month overflows')
    if not mok:
        ctx.fail(fn, fn.node, 'month is not normalised to 1 + (m-1) % 12')
    # order: y updated before m is normalised
    order = [U(s.target if isinstance(s, ast.AugAssign) else s.targets[0]) for s in fn.body if isinstance(s, (ast.Assign, ast.AugAssign))]
    if yok and mok:
        iy = max(i for i, s in enumerate([s for s in fn.body if isinstance(s, (ast.Assign, ast.AugAssign))]) if order[i] == y)
        im = max(i for i, s in enumerate([s for s in fn.body if isinstance(s, (ast.Assign, ast.AugAssign))]) if order[i] == m)
        if im < iy:
            ctx.fail(fn, fn.node, 'month is normalised before the year carry is computed from it')
    rets = returns_of(fn.node)
    if not rets or N(rets[-1].value) != '(%s, %s)' % (y, m):
        ctx.fail(fn, rets[-1] if rets else fn.node, 'ym does not return (y, m)')
    fn = ctx.repo.fn('_dates:_ymd')
    y, m, d = fn.params[:3]
    ctx.count(1, fn.where())
    rets = returns_of(fn.node)
    forms = (NS('datetime.datetime(%s, %s, 1) + (%s - 1) * DAY' % (y, m, d)), NS('datetime.datetime(%s, %s, 1) + DAY * (%s - 1)' % (y, m, d)))
    if not rets:
        ctx.fail(fn, fn.node, '_ymd does not return datetime(y, m, 1) + (d-1) days')
    for r_ in rets:       # EVERY exit: a second exit that builds the date another way needs its own month-length / leap-year table
        ctx.count(1)
        if N(r_.value) not in forms:
            ctx.fail(fn, r_, '_ymd returns `%s`: every exit must be datetime(y, m, 1) + (d-1) days, the only form that rolls an overflowing day into the next month with the real calendar (centuries included)' % U(r_.value),
                     witness='dt(2100, 2, 29) is 1 March 2100 (2100 is not a leap year)')
    # closed set of definitions: between entry and the exit y, m, d are only (1) swapped by the year/day heuristic, (2) normalised by ym,
    # (3) d turned from a whole float into an int. Anything else that rebinds them (a hand-made month-length / leap-year roll ...) competes
    # with the calendar arithmetic of `datetime(y, m, 1) + (d - 1) * DAY`
    allowed = {N(ast.parse(x).body[0]) for x in ('%s, %s = %s, %s' % (y, d, d, y), '%s, %s = ym(%s, %s)' % (y, m, y, m), '%s = int(%s) if is_float(%s) and int(%s) == %s else %s' % (d, d, d, d, d, d),
                                                   '%s = int(%s) if is_float(%s) and int(%s) == %s else %s' % (y, y, y, y, y, y), '%s = month(%s)' % (m, m))}
    for st in ast.walk(fn.node):
        if isinstance(st, (ast.Assign, ast.AugAssign, ast.AnnAssign)) and any(isinstance(t, ast.Name) and t.id in (y, m, d) and isinstance(t.ctx, ast.Store) for t in ast.walk(st)):
            ctx.count(1, fn.where(st))
            if N(st) not in allowed:
                ctx.fail(fn, st, '_ymd rebinds its year / month / day with `%s`: the only conversions are the year-day swap, ym(y, m) and whole-float to int; the overflow of the day is left to datetime(y, m, 1) + (d - 1) * DAY' % U(st)[:90],
                         witness='dt(2100, 1, 59) is 28 February 2100; dt(1900, 1, 60) is 1 March 1900')
    ymc = [s for s in fn.body if isinstance(s, ast.Assign) and isinstance(s.value, ast.Call) and call_name(s.value) == 'ym']
    if not ymc or [U(a) for a in ymc[0].value.args] != [y, m] or N(ymc[0].targets[0]) != '(%s, %s)' % (y, m):
        ctx.fail(fn, fn.node, '_ymd does not normalise (y, m) through ym')
    # the year/day swap heuristic must be unreachable for d in [-400, 400]
    for s in fn.body:
        if isinstance(s, ast.If):
            ctx.count(1)
            try:
                t, f = _split([(-400, 400)], d, ast.BoolOp(ast.And(), [c for c in conjuncts(s.test) if d in names_in(c)]))
            except AnalysisError:
                t = [(0, 0)]
            if t and any(isinstance(x, ast.Assign) and d in U(x) for x in s.body):
                ctx.fail(fn, s, 'the day/year swap heuristic is reachable for days in [-400, 400]: %s' % t)


def _sep_class(ctx, info):
    """separator classes of the `d{1,2} sep d{1,2} sep d{2,4}` ambiguity regex."""
    items = info['items']
    ctx.need(len(items) == 5, 'ambiguity regex no longer has five parts (got %d)' % len(items))
    digits = set('0123456789')
    a, s1, b, s2, c = items
    return a, s1, b, s2, c, digits



def _leading(ctx, fn, e, depth=0):
    """interpret the expression that extracts the leading number of the date string.
    returns (set of separator characters removed/split on, whitespace_tolerated, defining fn, node) or raises AnalysisError."""
    if isinstance(e, ast.Call) and isinstance(e.func, ast.Name) and e.func.id == 'int' and e.args:
        a = e.args[0]
        # form (a): t[:2].replace(c, '')...   -> int() tolerates surrounding blanks
        stripped = set()
        x = a
        while isinstance(x, ast.Call) and isinstance(x.func, ast.Attribute) and x.func.attr in ('replace', 'strip'):
            if x.func.attr == 'replace' and len(x.args) == 2 and const(x.args[1]) == '' and isinstance(const(x.args[0]), str):
                stripped |= set(const(x.args[0]))
            elif x.func.attr == 'strip':
                stripped |= set(const(x.args[0])) if x.args and isinstance(const(x.args[0]), str) else {' '}
            else:
                raise AnalysisError('unrecognised leading-number idiom: %s' % U(e))
            x = x.func.value
        if isinstance(x, ast.Subscript) and isinstance(x.slice, ast.Slice) and x.slice.lower is None and const(x.slice.upper) == 2:
            return stripped, True, fn, e
        # form (b): re.split(CLASS, t, ...)[0]  /  t.split(c)[0]
        if isinstance(a, ast.Subscript) and const(a.slice) == 0 and isinstance(a.value, ast.Call):
            c = a.value
            if isinstance(c.func, ast.Attribute) and c.func.attr == 'split' and U(c.func.value) in ('re', 're_'):
                p = const(c.args[0])
                if isinstance(p, str):
                    info = regex_info(p)
                    if len(info['items']) == 1 and info['items'][0].get('chars'):
                        return set(info['items'][0]['chars']), False, fn, e
            if isinstance(c.func, ast.Attribute) and c.func.attr == 'split' and isinstance(c.func.value, ast.Name):
                # COMPILED.split(t, ...)[0] with a module-level COMPILED = re.compile('[class]')
                try:
                    _, rx = ctx.repo.module_value(fn.mod, c.func.value.id)
                except AnalysisError:
                    rx = None
                if isinstance(rx, ast.Call) and call_name(rx) == 'compile' and rx.args and isinstance(const(rx.args[0]), str):
                    info = regex_info(const(rx.args[0]))
                    if len(info['items']) == 1 and info['items'][0].get('chars'):
                        return set(info['items'][0]['chars']), False, fn, e
            if isinstance(c.func, ast.Attribute) and c.func.attr == 'split' and len(c.args) >= 1 and isinstance(const(c.args[0]), str):
                return {const(c.args[0])}, False, fn, e
        # form (c): regex match group of leading digits
        raise AnalysisError('unrecognised leading-number idiom: %s' % U(e))
    if isinstance(e, ast.Call) and isinstance(e.func, ast.Name) and depth < 2:
        g = ctx.repo.resolve_name(fn.mod, e.func.id)
        from ..core import Fn as _Fn
        if isinstance(g, _Fn):
            rets = returns_of(g.node)
            if len(rets) == 1 and rets[0].value is not None:
                return _leading(ctx, g, rets[0].value, depth + 1)
    raise AnalysisError('unrecognised leading-number idiom: %s' % U(e))


def _rejection_operand(t, attr):
    """the operand compared (!=) with res.<attr> in a rejection test, or None"""
    for c2 in conjuncts(t):
        if isinstance(c2, ast.Compare) and len(c2.ops) == 1 and isinstance(c2.ops[0], ast.NotEq):
            a, b = c2.left, c2.comparators[0]
            if U(a) == 'res.' + attr:
                return b, c2
            if U(b) == 'res.' + attr:
                return a, c2
    return None, None


@obligation('C04.3', 'PATH+TABLES', '_dates:uk2dt, _dates:us2dt, ambiguity regex',
            'a day-month string that is unambiguous but written in the other dialect must be rejected with ValueError, not silently swapped',
            axioms=('A1',))
def c04_3(ctx):
    pat_text, flags = regex_literal(ctx.repo, '_dates', 'ambiguity')
    info = regex_info(pat_text, flags)
    a, s1, b, s2, c, digits = _sep_class(ctx, info)
    ctx.count(1)
    if not info['anchored_start']:
        ctx.fail(ctx.repo.fn('_dates:uk2dt'), ctx.repo.fn('_dates:uk2dt').node, 'ambiguity regex is not anchored at the start')
    f0 = ctx.repo.fn('_dates:uk2dt')
    for nm, it, lo, hi in (('day/month 1', a, 1, 2), ('day/month 2', b, 1, 2), ('year', c, 2, 4)):
        ctx.count(1)
        if not (it.get('chars') == digits and it['min'] == lo and it['max'] == hi):
            ctx.fail(f0, f0.node, 'ambiguity regex field %s is %s{%s,%s}, expected digits{%d,%d}' % (nm, sorted(it.get('chars', [])), it['min'], it['max'], lo, hi))
    if s1.get('chars') != s2.get('chars'):
        ctx.fail(f0, f0.node, 'the two separator classes of the ambiguity regex differ')
    # uk: res.day < 13 => swap ; elif leading != res.day => raise
    fn = ctx.repo.fn('_dates:uk2dt')
    amb = [s for s in fn.body if isinstance(s, ast.If) and 'ambiguity.search' in U(s.test)]
    ctx.need(len(amb) == 1, 'ambiguity branch of uk2dt not found')
    inner = [s for s in amb[0].body if isinstance(s, ast.If)]
    ctx.need(inner, 'uk2dt ambiguity branch has no day test')
    ch = if_chain(inner[0])
    ctx.count(1, fn.where(inner[0]))
    t0 = N(ch[0][0])
    if t0 not in (NS('res.day < 13'), NS('res.day <= 12')):
        ctx.fail(fn, inner[0], 'swap guard is `%s`, expected res.day < 13 (a day of 13+ cannot be a month)' % U(ch[0][0]))
    sw = [c2 for s in ch[0][1] for c2 in calls_in(s, 'dt')]
    if not sw or [U(x) for x in sw[0].args[:3]] != ['res.year', 'res.day', 'res.month']:
        ctx.fail(fn, ch[0][1][0], 'ambiguous UK date is not rebuilt as dt(year, day, month, ...)')
    elif len(sw[0].args) < 7:
        ctx.fail(fn, sw[0], 'swap drops part of the time of day (expected hour, minute, second, microsecond)')
    ctx.count(1)
    if len(ch) < 2 or ch[1][0] is None or not any(isinstance(s, ast.Raise) and 'ValueError' in U(s) for s in ch[1][1]):
        ctx.fail(fn, inner[0], 'an unambiguous date (day > 12) whose leading number is not the day is no longer rejected with ValueError')
    else:
        t1 = ch[1][0]
        op, cmpn = _rejection_operand(t1, 'day')
        if op is None:
            ctx.fail(fn, ch[1][1][0], 'UK rejection test is `%s`, expected <leading number> != res.day' % U(t1))
        else:
            _leading(ctx, fn, op)   # must be an interpretable leading-number extraction (else ANALYSIS-ERROR)
    # us
    fn = ctx.repo.fn('_dates:us2dt')
    amb = [s for s in fn.body if isinstance(s, ast.If) and 'ambiguity.search' in U(s.test)]
    ctx.need(len(amb) == 1, 'ambiguity branch of us2dt not found')
    ctx.count(1, fn.where(amb[0]))
    t = amb[0].test
    cj = conjuncts(t)
    op, cmpn = _rejection_operand(t, 'month')
    if op is None:
        ctx.fail(fn, amb[0], 'US rejection test is `%s`, expected <leading number> != res.month' % U(t))
    else:
        _leading(ctx, fn, op)
    if not any(isinstance(s, ast.Raise) and 'ValueError' in U(s) for s in amb[0].body):
        ctx.fail(fn, amb[0], 'a date not in US format is no longer rejected with ValueError')
    # dispatcher chooses by dialect
    fn = ctx.repo.fn('_dates:dt')
    ctx.count(1, fn.where())
    sel = [n for n in ast.walk(fn.node) if isinstance(n, ast.IfExp) and N(n.test) == NS("dialect == 'uk'")]
    if not sel or call_name(sel[0].body) != 'uk2dt' or call_name(sel[0].orelse) != 'us2dt':
        ctx.fail(fn, sel[0] if sel else fn.node, "dt does not dispatch strings to uk2dt when dialect == 'uk' and us2dt otherwise")


@obligation('C04.4', 'TABLES agreement', 'ambiguity regex vs leading-number extraction in uk2dt/us2dt',
            'every separator the regex admits must be removed from the leading field before int(): otherwise a one-digit first field followed by that separator dies in int() instead of being parsed or rejected',
            axioms=('A1 (int tolerates surrounding whitespace, not other characters)',))
def c04_4(ctx):
    pat_text, flags = regex_literal(ctx.repo, '_dates', 'ambiguity')
    info = regex_info(pat_text, flags)
    a, s1, b, s2, c, digits = _sep_class(ctx, info)
    seps = set(s1.get('chars', set()))
    ctx.fact('separators_admitted', sorted(seps))
    # the statement's day-month-year strings use the separators - / . and space, in BOTH positions: a separator the regex does not admit is not
    # disambiguated at all (dateutil's month-first reading is returned as it is, and the wrong-dialect string is no longer rejected)
    ctx.count(2, 'module _dates: ambiguity')
    for which, cls in (('first', s1), ('second', s2)):
        lack = {'-', '/', '.', ' '} - set(cls.get('chars', set()))
        if lack:
            ctx.fail(ctx.repo.fn('_dates:uk2dt'), ctx.repo.module_value('_dates', 'ambiguity')[1], 'the %s separator class of the ambiguity regex lacks %s: day-month strings written with it are never swapped / rejected' % (which, sorted(lack)),
                     witness="dt('05 03 2020') is 5 March in the uk dialect; dt('03 25 2020') must raise")
    n = 0
    for name, attr in (('uk2dt', 'day'), ('us2dt', 'month')):
        fn = ctx.repo.fn('_dates:%s' % name)
        for t in [x.test for x in ast.walk(fn.node) if isinstance(x, ast.If)]:
            op, cmpn = _rejection_operand(t, attr)
            if op is None:
                continue
            n += 1
            removed, ws_ok, where, node = _leading(ctx, fn, op)
            ctx.count(1, where.where(node))
            missing = {s for s in seps - removed if not (ws_ok and s.isspace())}
            if missing:
                pm = parent_map(where.node)
                sep = sorted(missing)[0]
                ctx.fail(where, enclosing_stmt(pm, node), 'separator(s) %s admitted by the ambiguity regex are not removed from the leading field before int(): a date written with %r dies in int() instead of being parsed or rejected' % (sorted(missing), sep),
                         witness="dt('3%s15%s2000', dialect='us') / dt('13%s03%s2000')" % (sep, sep, sep, sep), stmt=node)
    ctx.at_least(2, n, 'leading-number extractions compared with res.day / res.month')


@obligation('C04.5', 'PATH dispatch', '_dates:dt, _dates:ymd',
            'the dispatcher must route every listed spelling: date -> midnight datetime, numpy -> np2dt, numbers -> num2dt, 2 args -> ym, >=3 args -> _ymd (+h/m/s); ymd drops the time of day',
            axioms=())
def c04_5(ctx):
    fn = ctx.repo.fn('_dates:dt')
    src = U(fn.node)
    checks = [
        ('isinstance(t, np.datetime64)', 'np2dt(t)', 'numpy datetime64 is converted with np2dt'),
        ('isinstance(t, datetime.date) and (not isinstance(t, datetime.datetime))', 'datetime.datetime(t.year, t.month, t.day', 'a date becomes the midnight datetime of the same day'),
        ('is_num(t)', 'num2dt(t)', 'numbers go through num2dt'),
    ]
    for test, action, what in checks:
        ctx.count(1, fn.where())
        hit = [n for n in ast.walk(fn.node) if isinstance(n, ast.If) and U(n.test) == test]
        if not hit:
            ctx.fail(fn, fn.node, 'dispatcher branch `%s` is gone: %s' % (test, what))
        elif action not in U(ast.Module(hit[0].body, [])):
            ctx.fail(fn, hit[0], 'dispatcher branch `%s` no longer does `%s...`' % (test, action))
    # len(args) == 2 -> ym ; else _ymd(y,m,d)
    ctx.count(1)
    two = [n for n in ast.walk(fn.node) if isinstance(n, ast.If) and N(n.test) == NS('len(args) == 2')]
    if not two or 'ym(*args)' not in U(ast.Module(two[0].body, [])) or 'datetime.datetime(y, m, 1' not in U(ast.Module(two[0].body, [])):
        ctx.fail(fn, two[0] if two else fn.node, 'two-argument form is not datetime(*ym(y, m), 1)')
    ctx.count(1)
    three = [s for s in fn.body if isinstance(s, ast.Assign) and N(s.value) == '_ymd(y, m, d)']
    ymdsrc = [s for s in fn.body if isinstance(s, ast.Assign) and N(s.value) == 'args[:3]' and N(s.targets[0]) == '(y, m, d)']
    if not three or not ymdsrc:
        ctx.fail(fn, fn.node, 'three-or-more-argument form is not _ymd(*args[:3])')
    ctx.count(1)
    hms = [n for n in ast.walk(fn.node) if isinstance(n, ast.Call) and call_name(n) == 'timedelta' and kw(n, 'hours') is not None]
    ok = hms and N(kw(hms[0], 'hours')) == 'args[0]' and kw(hms[0], 'minutes') is not None and N(kw(hms[0], 'minutes')) == 'args[1]' and kw(hms[0], 'seconds') is not None and N(kw(hms[0], 'seconds')) == 'args[2]'
    if not ok:
        ctx.fail(fn, hms[0] if hms else fn.node, 'hours/minutes/seconds are not added from the 4th/5th/6th arguments in that order')
    else:
        pad = [s for s in ast.walk(fn.node) if isinstance(s, ast.Assign) and U(s.targets[0]) == 'args' and 'args[3:]' in U(s.value)]
        if not pad or '[0, 0, 0]' not in U(pad[0].value):
            ctx.fail(fn, fn.node, 'missing h/m/s arguments are no longer padded with zeros after args[3:]')
        elif N(pad[0].value) != NS('[int(a) for a in args[3:]] + [0, 0, 0]'):
            ctx.fail(fn, pad[0], 'the time parts are `%s`, expected [int(a) for a in args[3:]] + [0, 0, 0]: every given part keeps its POSITION (a zero hour is a part, not a missing one)' % U(pad[0].value),
                     witness='dt(2020, 1, 1, 0, 20, 30) is 00:20:30')
    # ymd
    fn = ctx.repo.fn('_dates:ymd')
    ctx.count(1, fn.where())
    rets = returns_of(fn.node)
    last = rets[-1] if rets else None
    if last is None or not N(last.value).startswith('datetime.datetime(t.year, t.month, t.day'):
        ctx.fail(fn, last or fn.node, 'ymd does not rebuild datetime(t.year, t.month, t.day)')
    else:
        c = last.value
        if len(c.args) != 3:
            ctx.fail(fn, last, 'ymd keeps part of the time of day: %s' % U(c))
    d = single_assign(fn, 't')
    if d is None or not (isinstance(d, ast.Call) and call_name(d) == 'dt' and U(kw(d, 'dialect') or ast.Constant(0)) == 'dialect'):
        ctx.fail(fn, fn.node, 'ymd does not parse through dt with the same dialect')


@obligation('C04.6', 'MATCH (lossless default format)', '_dates:dt2str',
            'dt(dt2str(t)) == t: the compact yyyymmdd form drops the whole time of day, so it may be chosen only when t is exactly midnight (microseconds included); every other instant must use the lossless ISO form',
            axioms=('A1',))
def c04_6(ctx):
    fn = ctx.repo.fn('_dates:dt2str')
    t = fn.params[0]
    outer = [s for s in fn.body if isinstance(s, ast.If) and N(s.test) == NS('fmt is None')]
    ctx.need(len(outer) == 1, 'default-format branch (fmt is None) of dt2str not found')
    inner = [s for s in outer[0].body if isinstance(s, ast.If)]
    ctx.need(len(inner) == 1, 'date-only test of dt2str not found')
    test = inner[0].test
    ctx.count(1, fn.where(inner[0]))
    compact = [r for r in inner[0].body if isinstance(r, ast.Return) and '%Y%m%d' in U(r.value)]
    lossless = [r for r in else_of(inner[0]) if isinstance(r, ast.Return) and 'isoformat' in U(r.value)]
    if not compact or not lossless:
        compact2 = [r for r in else_of(inner[0]) if isinstance(r, ast.Return) and '%Y%m%d' in U(r.value)]
        lossless2 = [r for r in inner[0].body if isinstance(r, ast.Return) and 'isoformat' in U(r.value)]
        if compact2 and lossless2:
            test = negate(test)
        else:
            ctx.fail(fn, inner[0], 'default format no longer chooses between the compact date form and the lossless ISO form')
            return
    tn = N(test)
    full = (NS('%s == today(%s)' % (t, t)), NS('%s == ymd(%s)' % (t, t)), NS('%s == datetime.datetime(%s.year, %s.month, %s.day)' % (t, t, t, t)))
    if tn in full:
        return
    comps = {a.attr for a in ast.walk(test) if isinstance(a, ast.Attribute) and U(a.value) == t}
    if comps and 'time' not in comps:
        missing = {'hour', 'minute', 'second', 'microsecond'} - comps
        if missing:
            ctx.fail(fn, inner[0], 'the date-only test `%s` ignores %s: an instant at midnight with a non-zero %s is written as yyyymmdd and does not read back' % (U(test), sorted(missing), sorted(missing)[0]),
                     witness='t = datetime(2020, 1, 1, 0, 0, 0, 5); dt(dt2str(t)) != t')
        return
    raise AnalysisError('unrecognised date-only test in dt2str: %s' % U(test))


@obligation('C04.7', 'PATH (symbolic summary) table', '_dates:np2dt',
            'numpy datetime64 values reach dt through np2dt and must keep every digit: [ns]/[us]/[ms]/[s] values become the datetime/Timestamp of exactly that instant ([ns] through pd.Timestamp(t), exact integer arithmetic), [D] values the midnight of that date. Any route through a binary float (epoch * 1e-9, utcfromtimestamp of a float) rounds the sub-second digits',
            axioms=('A4 (t.astype(datetime.datetime) is exact for [us] and coarser units and yields the integer epoch for [ns])',))
def c04_7(ctx):
    fn = ctx.repo.fn('_dates:np2dt')
    t = fn.params[0]
    sp = [p for p in sym_paths(fn) if p.term == 'return']
    ctx.need(len(sp) >= 3, 'np2dt: fewer than three returning paths')
    conv = 'astype(datetime.datetime)'
    res = NS('%s.astype(datetime.datetime)' % t)
    table = {'datetime': res, 'date': None, 'int': NS('pd.Timestamp(%s)' % t)}
    seen = set()
    for p in sp:
        ctx.count(1, fn.where(p.node))
        for n in ast.walk(p.value) if p.value is not None else []:
            if isinstance(n, ast.Constant) and isinstance(n.value, float) or (isinstance(n, ast.Attribute) and n.attr in ('utcfromtimestamp', 'fromtimestamp')) \
                    or (isinstance(n, ast.BinOp) and isinstance(n.op, ast.Div)):
                ctx.fail(fn, p.node, 'np2dt converts through floating point (`%s`): the sub-second digits of the instant are rounded' % U(p.value)[:100],
                         witness="np2dt(np.datetime64('2020-01-01T00:00:00.123456789')) must equal pd.Timestamp of the same text")
                break
        if p.holds('isinstance(%s, datetime.datetime)' % res, True):
            seen.add('datetime')
            if p.text() != res:
                ctx.fail(fn, p.node, 'a value that converts to a datetime is returned as `%s`, expected the converted value itself' % p.text())
        elif p.holds('isinstance(%s, datetime.date)' % res, True):
            seen.add('date')
            if p.text() != NS('datetime.datetime({0}.year, {0}.month, {0}.day)'.format(res)):
                ctx.fail(fn, p.node, 'a [D] value is returned as `%s`, expected midnight of that date' % p.text())
        elif p.holds('is_int(%s)' % res, True):
            seen.add('int')
            if p.text() != table['int'] and not ctx.findings:
                ctx.fail(fn, p.node, 'a [ns] value (integer epoch) is returned as `%s`, expected pd.Timestamp(%s)' % (p.text(), t))
    if not ctx.findings and seen != {'datetime', 'date', 'int'}:
        ctx.fail(fn, fn.node, 'np2dt no longer distinguishes datetime / date / integer-epoch conversions: %s' % sorted(seen))


@obligation('C04.8', 'TABLES (shared with C09.1)', 'period regex (module _dates) as the gate between tenors and dates in dt()',
            'dt() asks is_bump before it parses a string as a date: the tenor regex must be exactly sign? digits+ unit-letter, or date spellings that begin with digits followed by a month name ("05 Dec 2021") are taken for tenors and raise',
            axioms=())
def c04_8(ctx):
    from . import C09 as _c09
    _c09.c09_1(ctx)


@obligation('C04.9', 'MATCH argument roles', '_dates:uk2dt (day/month rebuild)',
            'a numeric UK string dd/mm/yyyy that dateutil read the American way is rebuilt with day and month exchanged AND EVERYTHING ELSE IN PLACE: dt(year, res.day, res.month, hour, minute, second, microsecond) in exactly that order',
            axioms=())
def c04_9(ctx):
    f = ctx.repo.fn('_dates:uk2dt')
    calls = [c for c in calls_in(f.node, 'dt') if len(c.args) >= 3 and 'res.day' in [U(a) for a in c.args]]
    ctx.at_least(1, len(calls), 'day/month rebuild calls in uk2dt')
    for c in calls:
        ctx.count(1, f.where(c))
        got = [U(a) for a in c.args]
        want = ['res.year', 'res.day', 'res.month', 'res.hour', 'res.minute', 'res.second', 'res.microsecond']
        if got != want[:len(got)] or len(got) < 7:
            ctx.fail(f, c, 'the rebuilt date is dt(%s); expected dt(%s): day and month exchanged, the time of day untouched and complete' % (', '.join(got), ', '.join(want)),
                     witness="dt('03/04/2021 10:30') is 3 April 2021 10:30")


@obligation('C04.10', 'TABLES (regex anchors)', 'module _dates: the patterns that route a string before dateutil sees it',
            'every spelling reaches the same datetime: the shape tests that short-circuit parsing (yyyy-mm, yyyy-mmm: "first of that month") must match the WHOLE string - a pattern that is only anchored at the start also swallows yyyy-mmm-dd and resets the day and time',
            axioms=())
def c04_10(ctx):
    fn = ctx.repo.fn('_dates:uk2dt')
    for name, both in (('yyyymm', True), ('yyyymmm', True), ('ambiguity', False), ('period', False)):
        m, v = ctx.repo.module_value('_dates', name)
        ctx.count(1, '_dates:%s' % name)
        if not (isinstance(v, ast.Call) and call_name(v) == 'compile' and v.args):
            raise AnalysisError('_dates.%s is not a re.compile(...)' % name)
        a = v.args[0]
        if isinstance(a, ast.BinOp) and isinstance(a.op, ast.Mod):
            a = a.left
        if not (isinstance(a, ast.Constant) and isinstance(a.value, str)):
            raise AnalysisError('_dates.%s pattern is not a string literal' % name)
        pat = a.value
        if not pat.startswith('^'):
            ctx.fail(fn, fn.node, 'pattern %s = %r is not anchored at the start' % (name, pat), stmt='%s = %s' % (name, pat))
        if both and not pat.endswith('$'):
            ctx.fail(fn, fn.node, 'pattern %s = %r is not anchored at the end: it also matches longer strings that merely begin like a year-month (a full year-month-day date is then reset to the first of the month at midnight)' % (name, pat),
                     stmt='%s = %s' % (name, pat), witness="dt('2021-Dec-05')")


@obligation('C04.11', 'TABLES (guards by truth table) + MATCH argument roles', '_dates:dt (argument-count dispatch, timezone attachment), uk2dt / us2dt (year-month strings)',
            'every spelling of an instant reaches the same datetime: the dispatch on the number of arguments (1: by kind; 2: year, month; 3: y m d; 4 with a weekday name: n-th weekday; more: + h m s ADDED), year-month strings mean the FIRST of that month, and a timezone is attached with tz_replace(result, tzinfo) exactly when one was given',
            axioms=())
def c04_11(ctx):
    f = ctx.repo.fn('_dates:dt')
    expect_guards(ctx, f, [
        ('tzinfo is None and len(args) and is_tz(args[-1])', 'tzinfo = args[-1]', 'a trailing timezone argument is the timezone'),
        ('len(args) == 0', 'res = none() if callable(none) else none', 'no argument: the default'),
        ('len(args) == 1', 'if t is None:\n    return tz_convert(none(), tzinfo) if callable(none) else none', 'one argument: dispatch on its kind'),
        ('len(args) == 2', 'y, m = ym(*args)', 'two arguments are year and month'),
        ('len(args) == 4 and is_str(args[3])', 'return tz_replace(nth_weekday_of_month(*args), tzinfo)', 'y, m, n, weekday name'),
        ('len(args) > 3', 'args = [int(a) for a in args[3:]] + [0, 0, 0]', 'further arguments are hours, minutes, seconds'),
        ('is_num(t)', 'if is_nan(t):\n    return tz_convert(none(), tzinfo) if callable(none) else none', 'numbers'),
        ('is_bump(t)', 'return dt_bump(dt(0, tzinfo=tzinfo), t)', 'a tenor counts from today'),
    ], where=[x for x in ast.walk(f.node) if isinstance(x, ast.If)])
    expect_statements(ctx, f, [('args = args[:-1]', 'the trailing timezone is peeled off the arguments'), ('t = args[0]', 'the first argument decides the form'),
                               ('args1 = as_list(args[1:])', 'the rest are tenors or y/m/d parts'), ('args = [t] + args1', 'the argument count is taken after flattening')])
    ctx.count(1, f.where())
    hm = [s for s in ast.walk(f.node) if isinstance(s, ast.Assign) and 'timedelta' in U(s.value) and 'hours' in U(s.value)]
    if not hm or N(hm[0].value) != NS('t + datetime.timedelta(hours=args[0], minutes=args[1], seconds=args[2])'):
        ctx.fail(f, hm[0] if hm else f.node, 'the time of day is not ADDED to the date as t + timedelta(hours=args[0], minutes=args[1], seconds=args[2]): %s' % (U(hm[0].value) if hm else '?'))
    # timezone attachment: `res if tzinfo is None else tz_replace(res, tzinfo)` - whatever the spelling, on every such exit
    n = 0
    for c in [x for x in ast.walk(f.node) if isinstance(x, ast.Call) and call_name(x) in ('tz_replace', 'tz_convert')]:
        n += 1
        if len(c.args) != 2 or c.keywords or U(c.args[1]) != 'tzinfo':
            ctx.fail(f, c, '`%s`: the value comes first and the timezone is the SECOND argument of %s' % (U(c), call_name(c)))
    for p in sym_paths(f):
        c = p.value
        if p.term == 'return' and isinstance(c, ast.Call) and call_name(c) == 'tz_replace' and len(c.args) == 2:
            n += 1
            if p.holds('%s is None' % U(c.args[1]), True):
                ctx.fail(f, p.node, '%s is applied on the path where the timezone is None, and skipped when one is given' % U(c))
    ctx.count(n)
    for name in ('uk2dt', 'us2dt'):
        g = ctx.repo.fn('_dates:%s' % name)
        expect_guards(ctx, g, [('yyyymm.search(t) is not None or yyyymmm.search(t) is not None', 'res = datetime.datetime(res.year, res.month, 1)', 'a year-month string is the first of that month')],
                      where=[x for x in ast.walk(g.node) if isinstance(x, ast.If)])
        ctx.count(1, g.where())
        rr = returns_of(g.node)
        if not rr or N(rr[-1].value) != NS('tz_replace(res, tzinfo)'):
            ctx.fail(g, rr[-1] if rr else g.node, '%s does not end with tz_replace(res, tzinfo): %s' % (name, U(rr[-1].value) if rr else '?'))
