"""C08 timeseries operators equal the pointwise operation on aligned operands (structural necessary conditions)."""
import ast
from ..core import obligation, AnalysisError
from .common import *

OPS = {ast.Add: '+', ast.Sub: '-', ast.Mult: '*', ast.Div: '/', ast.Pow: '**', ast.Gt: '>', ast.GtE: '>=', ast.Lt: '<', ast.LtE: '<='}
NEUTRAL = {'+': 0.0, '-': 0.0, '*': 1.0, '/': 1.0}


def _presync_default(fn):
    """literal `default` of the @presync decorator (None when absent), or raises if not presync-decorated."""
    d = decorated_with(fn.repo, fn, 'presync')
    if d is None:
        return 'NOT_PRESYNC'
    if isinstance(d, ast.Call):
        v = kw(d, 'default')
        if v is not None:
            return const(v, 'NONCONST')
    return None


def _kernel_ops(fn):
    """operators applied to the two parameters in return expressions."""
    a, b = fn.params[:2]
    ops = set()
    for r0 in returns_of(fn.node):
        for n in ast.walk(r0.value):
            if isinstance(n, ast.BinOp) and type(n.op) in OPS and U(n.left) == a:
                ops.add(OPS[type(n.op)])
            if isinstance(n, ast.Compare) and len(n.ops) == 1 and type(n.ops[0]) in OPS and U(n.left) == a:
                ops.add(OPS[type(n.ops[0])])
    return ops


@obligation('C08.1', 'TABLES', 'presync-decorated kernels _add_ _sub_ _mul_ _div_',
            "with column policy 'oj' a column missing on one side acts as the operation's neutral element: the decorator default must be 0 for +,- and 1 for *,/",
            axioms=())
def c08_1(ctx):
    for name, op in (('_add_', '+'), ('_sub_', '-'), ('_mul_', '*'), ('_div_', '/')):
        fn = ctx.repo.fn('_pandas:%s' % name)
        ctx.count(1, fn.where())
        d = _presync_default(fn)
        if d == 'NOT_PRESYNC':
            ctx.fail(fn, fn.node, '%s is no longer decorated with presync: operands are not aligned before the operation' % name)
            continue
        ops = _kernel_ops(fn)
        if op not in ops:
            ctx.fail(fn, fn.node, '%s does not compute a %s b (found %s)' % (name, op, sorted(ops)))
        if d is None or d == 'NONCONST' or float(d) != NEUTRAL[op] or isinstance(d, bool):
            ctx.fail(fn, fn.node.decorator_list[0], 'missing-column default of %s is %r, expected the neutral element %r of `%s`' % (name, d, NEUTRAL[op], op),
                     stmt='@%s' % U(fn.node.decorator_list[0]))


@obligation('C08.2', 'MATCH', '_pandas:presync.wrapped',
            'the default must actually reach df_column wherever a column can be missing (operands with different column sets), for positional and keyword operands alike',
            axioms=())
def c08_2(ctx):
    fn = ctx.repo.fn('_pandas:presync.wrapped')
    d = single_assign(fn, 'default')
    ctx.count(1, fn.where())
    if d is None or N(d) != 'self.default':
        ctx.fail(fn, fn.node, 'presync no longer takes the fill value from self.default')
    # the branch for differing column sets = else-branch of `len(set(cols)) == 1`
    split = [n for n in ast.walk(fn.node) if isinstance(n, ast.If) and N(n.test) == NS('len(set(cols)) == 1')]
    if not split:
        loose = [n for n in ast.walk(fn.node) if isinstance(n, ast.If) and 'cols' in names_in(n.test) and any(isinstance(c, ast.Call) and call_name(c) in ('frozenset', 'sorted', 'set') and not N(c) == 'set(cols)' for c in ast.walk(n.test))]
        if loose:
            ctx.fail(fn, loose[0], 'the "all frames have the same column headers" case compares the headers as SETS (`%s`): frames with the same names in a different order then take the positional path, and a positional column grab pairs x with y' % U(loose[0].test)[:90],
                     witness="add_(a[['x','y']], b[['y','x']])")
            return
    ctx.need(len(split) == 1, 'same-columns / different-columns split not found in presync.wrapped')
    cd = [s_ for s_ in ast.walk(fn.node) if isinstance(s_, ast.Assign) and U(s_.targets[0]) == 'cols']
    if not cd or N(cd[0].value) != NS('[tuple(ts.columns) for ts in tss if is_df(ts) and ts.shape[1] > 1]'):
        ctx.fail(fn, cd[0] if cd else fn.node, 'column headers are not collected as ordered tuples of every multi-column frame')
    calls_else = [c for s in else_of(split[0]) for c in calls_in(s, 'df_column')]
    calls_same = [c for s in split[0].body for c in calls_in(s, 'df_column')]
    ctx.at_least(6, len(calls_else), 'df_column calls where columns can be missing')
    for c in calls_else:
        ctx.count(1, fn.where(c))
        v = kw(c, 'default')
        if v is None or U(v) != 'default':
            ctx.fail(fn, c, 'df_column(%s, ...) is called without default = default in the branch where a column can be missing: the operand is filled with NaN instead of the neutral element' % U(c.args[0]))
    for c in calls_same:
        if U(c.args[0]) == 'args_':
            ctx.count(1)
            v = kw(c, 'default')
            if v is None or U(v) != 'default':
                ctx.fail(fn, c, 'positional operands lose the default in the same-columns branch')
    # every operand (args_ and kwargs_) is split per column
    for s, lst in (('else', calls_else), ('same', calls_same)):
        firsts = [U(c.args[0]) for c in lst]
        if firsts.count('args_') != firsts.count('kwargs_'):
            ctx.fail(fn, split[0], 'positional and keyword operands are not split per column symmetrically in the %s-columns branch' % s)
    # df_column forwards default to the worker
    f2 = ctx.repo.fn('_pandas:df_column')
    ctx.count(1, f2.where())
    rr = returns_of(f2.node)
    if not rr or kw(rr[-1].value, 'default') is None or U(kw(rr[-1].value, 'default')) != 'default':
        ctx.fail(f2, rr[-1] if rr else f2.node, 'df_column does not forward default to _df_column')
    f3 = ctx.repo.fn('_pandas:_df_column')
    ctx.count(1, f3.where())
    miss = [r for r in returns_of(f3.node) if U(r.value) == 'default']
    if len(miss) < 2:
        ctx.fail(f3, f3.node, '_df_column no longer returns the default for a missing column')
    # a positional grab is only legitimate when no column name was given
    for p in paths(f3.body, bound=4096):
        if p.term == 'return' and p.value is not None and 'iloc[:, i]' in U(p.value):
            ctx.count(1)
            if not p.assumes(NS('column is None and i is not None'), True):
                ctx.fail(f3, p.node, 'a column is grabbed by POSITION (%s) on a path where a column name was given [%s]: frames with the same names in a different order are paired by position' % (U(p.value), ' & '.join(p.cond_texts())[:140]),
                         witness="add_(a[['x','y']], b[['y','x']])")
    # a frame that has the column must return that column, not the default
    has = [n for n in ast.walk(f3.node) if isinstance(n, ast.If) and N(n.test) == NS('column in ts.columns')]
    if not has or N(has[0].body[0].value) != 'ts[column]':
        ctx.fail(f3, f3.node, '_df_column no longer returns ts[column] when the column is present')


@obligation('C08.3', 'DENOMINATOR', '_pandas:_div_',
            'division by zero yields NaN, never +-inf: every `/` must have a zero-masked denominator (copy, then set zeros to NaN) or sit under a `b == 0` guard returning NaN; masking the quotient for +inf afterwards misses -inf',
            axioms=('A4',))
def c08_3(ctx):
    fn = ctx.repo.fn('_pandas:_div_')
    a, b = fn.params[:2]
    divs = [n for n in body_nodes(fn.node) if isinstance(n, ast.BinOp) and isinstance(n.op, ast.Div)]
    ctx.at_least(2, len(divs), 'divisions in _div_')
    pm = parent_map(fn.node)
    for d in divs:
        ctx.count(1, fn.where(d))
        den = d.right
        ok = False
        if isinstance(den, ast.Name) and den.id != b:
            # must be: den = b.copy(); den[den == 0] = nan   before the division, in the same block
            defs = [s for s in body_nodes(fn.node) if isinstance(s, ast.Assign) and U(s.targets[0]) == den.id and s.lineno < d.lineno]
            masks = [s for s in body_nodes(fn.node) if isinstance(s, ast.Assign) and isinstance(s.targets[0], ast.Subscript) and U(s.targets[0].value) == den.id
                     and N(s.targets[0].slice) == NS('%s == 0' % den.id) and 'nan' in U(s.value).lower() and s.lineno < d.lineno]
            if defs and masks and N(defs[-1].value) in ('%s.copy()' % b, 'copy(%s)' % b):
                ok = True
            elif defs and masks:
                ctx.fail(fn, defs[-1], 'the zero mask is applied to `%s`, which is not a copy of the divisor: the caller\'s series is modified' % U(defs[-1].value))
                continue
        elif isinstance(den, ast.Name) and den.id == b:
            # scalar branch: guarded by `np.nan if b == 0 else a/b` or an enclosing `if b == 0: return nan`
            par = pm.get(d)
            if isinstance(par, ast.IfExp) and N(par.test) == NS('%s == 0' % b) and 'nan' in U(par.body).lower() and par.orelse is d:
                ok = True
            else:
                anc = par
                while anc is not None and not isinstance(anc, ast.FunctionDef):
                    if isinstance(anc, ast.If) and N(anc.test) == NS('%s != 0' % b):
                        ok = True
                    anc = pm.get(anc)
        if not ok:
            st = enclosing_stmt(pm, d)
            ctx.fail(fn, st, 'division `%s` has an unmasked, unguarded denominator: a zero divisor yields +-inf instead of NaN' % U(d),
                     witness='div_(pd.Series([-1.0]), pd.Series([0.0]))', stmt=d)
    # scalar guard is reached for numbers only
    ctx.count(1)
    top = [s for s in fn.body if isinstance(s, ast.If) and N(s.test) == 'is_num(%s)' % b]
    if not top:
        ctx.fail(fn, fn.node, 'scalar / timeseries split on the divisor not found')


WRAPPERS = {'add_': ('_add_', 'reducer'), 'mul_': ('_mul_', 'reducer'), 'div_': ('_div_', None), 'sub_': ('_sub_', None), 'pow_': ('_pow_', None),
            'gt_': ('_gt_', None), 'ge_': ('_ge_', None), 'lt_': ('_lt_', None), 'le_': ('_le_', None)}
SYNCED = ['min_', 'max_', 'df_count', 'df_sum', 'df_mean', 'df_std']


@obligation('C08.4', 'SIBLING', 'public wrappers add_ mul_ div_ sub_ pow_ gt_ ge_ lt_ le_ min_ max_ df_count df_sum df_mean df_std; _reducer:reducer',
            'the join policy, fill method and column policy must be honoured by every operator: each wrapper forwards join, method, columns by keyword to its kernel / df_sync, lists reduce left to right',
            axioms=())
def c08_4(ctx):
    for pub, (kernel, red) in WRAPPERS.items():
        fn = ctx.repo.fn('_pandas:%s' % pub)
        kc = calls_in(fn.node, kernel)
        ctx.count(1, fn.where())
        if not kc:
            ctx.fail(fn, fn.node, '%s no longer calls its kernel %s' % (pub, kernel))
            continue
        for c in kc:
            for p in ('join', 'method', 'columns'):
                v = kw(c, p)
                if v is None or U(v) != p:
                    ctx.fail(fn, c, '%s does not forward %s = %s to %s' % (pub, p, p, kernel))
            if [U(a) for a in c.args[:2]] != ['a', 'b']:
                ctx.fail(fn, c, '%s passes %s to %s, expected (a, b)' % (pub, [U(a) for a in c.args[:2]], kernel))
        for p, dflt in (('join', 'ij'), ('method', None), ('columns', 'ij')):
            dv = fn.defaults().get(p)
            if dv is None or const(dv, 'X') != dflt:
                ctx.fail(fn, fn.node, 'default of %s in %s is %s, expected %r' % (p, pub, U(dv) if dv is not None else 'missing', dflt))
        if red:
            rr = returns_of(fn.node)
            if not rr or not (isinstance(rr[-1].value, ast.Call) and call_name(rr[-1].value) == red and N(rr[-1].value.args[1]) == 'dfs'):
                ctx.fail(fn, rr[-1] if rr else fn.node, '%s does not reduce the list of operands with %s' % (pub, red))
            dfs = single_assign(fn, 'dfs')
            if dfs is None or N(dfs) != NS('as_list(a) + as_list(b)'):
                ctx.fail(fn, fn.node, '%s does not gather its operands as as_list(a) + as_list(b)' % pub)
    # div_/sub_ pre-reduce list operands with mul_/add_
    for pub, pre in (('div_', 'mul_'), ('sub_', 'add_')):
        fn = ctx.repo.fn('_pandas:%s' % pub)
        ctx.count(1)
        pc = calls_in(fn.node, pre)
        if len(pc) != 2:
            ctx.fail(fn, fn.node, '%s does not pre-reduce list operands with %s on both sides' % (pub, pre))
        for c in pc:
            for p in ('join', 'method', 'columns'):
                v = kw(c, p)
                if v is None or U(v) != p:
                    ctx.fail(fn, c, '%s does not forward %s to %s' % (pub, p, pre))
    for pub in SYNCED:
        fn = ctx.repo.fn('_pandas:%s' % pub)
        ctx.count(1, fn.where())
        sc = calls_in(fn.node, 'df_sync')
        if not sc:
            ctx.fail(fn, fn.node, '%s no longer aligns its operands with df_sync' % pub)
            continue
        c = sc[0]
        if not c.args or U(c.args[0]) != 'dfs':
            ctx.fail(fn, c, '%s aligns `%s`, not all operands' % (pub, U(c.args[0]) if c.args else '?'))
        for p in ('join', 'method', 'columns'):
            v = kw(c, p)
            if v is None or U(v) != p:
                ctx.fail(fn, c, '%s does not forward %s = %s to df_sync' % (pub, p, p))
        dfs = single_assign(fn, 'dfs')
        d0 = [n.value for n in body_nodes(fn.node) if isinstance(n, ast.Assign) and U(n.targets[0]) == 'dfs']
        if not d0 or N(d0[0]) != NS('as_list(a) + as_list(b)'):
            ctx.fail(fn, fn.node, '%s does not gather its operands as as_list(a) + as_list(b)' % pub)
    # reducer = left fold
    fn = ctx.repo.fn('_reducer:reducer')
    ctx.count(1, fn.where())
    rr = returns_of(fn.node)
    fold = [r for r in rr if isinstance(r.value, ast.Call) and call_name(r.value) == 'reduce']
    if not fold or [N(a) for a in fold[0].value.args] != [fn.params[0], 'sequence[1:]', 'sequence[0]']:
        ctx.fail(fn, fold[0] if fold else fn.node, 'reducer is not the left fold reduce(function, sequence[1:], sequence[0])')
    one = [r for r in rr if N(r.value) == 'sequence[0]']
    if not one:
        ctx.fail(fn, fn.node, 'reducer of a single operand no longer returns it')


@obligation('C08.5', 'TABLES', 'kernels _gt_ _ge_ _lt_ _le_ _pow_ and their public wrappers; _minimum/_maximum',
            'each name must denote its own operator', axioms=())
def c08_5(ctx):
    for name, op in (('_gt_', '>'), ('_ge_', '>='), ('_lt_', '<'), ('_le_', '<='), ('_pow_', '**')):
        fn = ctx.repo.fn('_pandas:%s' % name)
        ctx.count(1, fn.where())
        if _presync_default(fn) == 'NOT_PRESYNC':
            ctx.fail(fn, fn.node, '%s is no longer presync-decorated' % name)
        ops = _kernel_ops(fn)
        if ops != {op}:
            ctx.fail(fn, returns_of(fn.node)[0] if returns_of(fn.node) else fn.node, '%s computes %s, expected a %s b' % (name, sorted(ops), op))
    for name, f in (('_minimum', 'np.minimum'), ('_maximum', 'np.maximum')):
        fn = ctx.repo.fn('_pandas:%s' % name)
        ctx.count(1, fn.where())
        rr = returns_of(fn.node)
        if not rr or f not in U(rr[-1].value):
            ctx.fail(fn, rr[-1] if rr else fn.node, '%s does not apply %s' % (name, f))
    for pub, inner in (('min_', '_minimum'), ('max_', '_maximum')):
        fn = ctx.repo.fn('_pandas:%s' % pub)
        ctx.count(1, fn.where())
        rr = returns_of(fn.node)
        if not rr or N(rr[-1].value) != 'reducer(%s, dfs)' % inner:
            ctx.fail(fn, rr[-1] if rr else fn.node, '%s is not reducer(%s, dfs)' % (pub, inner))


@obligation('C08.6', 'MATCH', '_pandas:df_sum, df_mean, df_count, mask2v, _mask',
            'df_sum/df_mean/df_count use the union index, skip NaN operands and yield NaN (count 0) where no operand has data',
            axioms=('A4',))
def c08_6(ctx):
    for pub in ('df_sum', 'df_mean', 'df_count', 'df_std'):
        fn = ctx.repo.fn('_pandas:%s' % pub)
        ctx.count(1, fn.where())
        dd = fn.defaults()
        for p in ('join', 'columns'):
            if const(dd.get(p), 'X') != 'oj':
                ctx.fail(fn, fn.node, "%s: default %s is %s, expected 'oj' (union index / all columns)" % (pub, p, U(dd[p]) if p in dd else 'missing'))
        # spelling-independent: the count, with every temporary substituted, is sum(~mask) over _mask(df, exc) of every ALIGNED operand
        sp = [p for p in sym_paths(fn) if p.term == 'return']
        ctx.need(len(sp) >= 1, '%s has no returning path' % pub)
        env = sp[0].env
        cnt = env.get('n')
        if cnt is None and pub == 'df_count':
            cnt = sp[0].value
        ok_masks = ok_cnt = False
        if isinstance(cnt, ast.Call) and call_name(cnt) == 'sum' and len(cnt.args) == 1 and isinstance(cnt.args[0], ast.ListComp):
            lc = cnt.args[0]
            var = U(lc.generators[0].target)
            ok_cnt = N(lc.elt) == '~%s' % var and len(lc.generators) == 1 and not lc.generators[0].ifs
            inner = lc.generators[0].iter
            if isinstance(inner, ast.ListComp) and len(inner.generators) == 1 and not inner.generators[0].ifs:
                v2 = U(inner.generators[0].target)
                ok_masks = N(inner.elt) == '_mask(%s, exc)' % v2 and isinstance(inner.generators[0].iter, ast.Call) and call_name(inner.generators[0].iter) == 'df_sync'
        if not ok_masks:
            ctx.fail(fn, fn.node if cnt is None else sp[0].node, '%s does not mask every aligned operand with _mask(df, exc)' % pub, stmt=cnt)
        elif not ok_cnt:
            ctx.fail(fn, sp[0].node, '%s does not count the non-masked operands as sum(~mask)' % pub, stmt=cnt)
    for pub in ('df_sum', 'df_mean'):
        fn = ctx.repo.fn('_pandas:%s' % pub)
        ctx.count(1)
        cl = [n for n in body_nodes(fn.node) if isinstance(n, ast.Assign) and U(n.targets[0]) == 'clean_dfs']
        if not cl or N(cl[0].value) != '[mask2v(df, mask, 0.0) for df, mask in zip(dfs, masks)]':
            ctx.fail(fn, cl[0] if cl else fn.node, '%s does not zero-fill the masked cells before summing' % pub)
        rs = [n for n in body_nodes(fn.node) if isinstance(n, ast.Assign) and U(n.targets[0]) == 'res']
        if not rs or N(rs[0].value) != 'sum(clean_dfs)':
            ctx.fail(fn, rs[0] if rs else fn.node, '%s does not sum the cleaned operands' % pub)
    fn = ctx.repo.fn('_pandas:df_sum')
    ctx.count(1)
    z = [n for n in body_nodes(fn.node) if isinstance(n, ast.Assign) and isinstance(n.targets[0], ast.Subscript) and N(n.targets[0]) == NS('res[n == 0]')]
    if not z or 'nan' not in U(z[0].value).lower():
        ctx.fail(fn, fn.node, 'df_sum no longer yields NaN where no operand has data (res[n == 0] = nan)')
    fn = ctx.repo.fn('_pandas:df_mean')
    ctx.count(1)
    z = [n for n in body_nodes(fn.node) if isinstance(n, ast.Assign) and isinstance(n.targets[0], ast.Subscript) and N(n.targets[0]) == NS('n[n == 0]')]
    rr = returns_of(fn.node)
    if not z or 'nan' not in U(z[0].value).lower() or N(rr[-1].value) != NS('res / n'):
        ctx.fail(fn, fn.node, 'df_mean no longer divides by the count with zero counts mapped to NaN')
    fn = ctx.repo.fn('_pandas:df_count')
    ctx.count(1)
    rr = [p for p in sym_paths(fn) if p.term == 'return']
    if not rr or any(p.text() != N(p.env['n']) if 'n' in p.env else call_name(p.value) != 'sum' for p in rr):
        ctx.fail(fn, fn.node, 'df_count does not return the count')
    fn = ctx.repo.fn('_pandas:mask2v')
    ctx.count(1, fn.where())
    cp = single_assign(fn, 'res')
    if cp is None or N(cp) != 'df.copy()':
        ctx.fail(fn, fn.node, 'mask2v writes the fill value into its operand instead of a copy')
    fn = ctx.repo.fn('_pandas:_mask')
    ctx.count(1, fn.where())
    first = [s for s in fn.body if isinstance(s, ast.If)]
    if not first or 'np.isnan(value)' not in U(first[0].test) or N(first[0].body[0].value) != 'np.isnan(df)':
        ctx.fail(fn, fn.node, '_mask(df, nan) is no longer np.isnan(df)')


@obligation('C08.7', 'MATCH', '_pandas:df_index (feeds presync kernels and df_sync)',
            'the result index is the intersection (inner) or union (outer) of ALL operand indices, empty operands included',
            axioms=())
def c08_7(ctx):
    from .C03 import index_collection_complete
    index_collection_complete(ctx)
    fn = ctx.repo.fn('_pandas:presync.wrapped')
    ctx.count(1, fn.where())
    di = [n for n in body_nodes(fn.node) if isinstance(n, ast.Assign) and isinstance(n.value, ast.Call) and call_name(n.value) == 'df_index']
    if not di or [U(a) for a in di[0].value.args] != ['listed', '_idx']:
        ctx.fail(fn, di[0] if di else fn.node, 'presync does not compute the index with df_index(listed, <join policy>)')
    idx = single_assign(fn, '_idx')
    if idx is None or N(idx) != NS("kwargs.pop('join', self.index)"):
        ctx.fail(fn, fn.node, 'the join keyword no longer overrides the decorator index policy')


@obligation('C08.8', 'FORWARDING (constructor)', '_pandas:presync.__init__',
            "the neutral element declared on a kernel (0.0 for + and -) must reach the wrapper unchanged: `default or nan` replaces 0.0 by NaN",
            axioms=('A1',))
def c08_8(ctx):
    init_forwarding(ctx, 'presync')
    f = ctx.repo.fn('_pandas:presync.__init__')
    ctx.count(1, f.where())
    d = f.defaults().get('default')
    if d is None or N(d) not in ('np.nan', "float('nan')"):
        ctx.fail(f, f.node, 'the default of `default` is %s, expected np.nan' % (U(d) if d is not None else 'missing'))


@obligation('C08.9', 'TABLES (shared with C03.1)', '_pandas:_df_index, _pandas:_np_index',
            'the binary operators and df_sum/df_count/df_mean align their operands through df_sync -> df_index: a row is NaN / counted exactly where the join policy says so only if the common index really is the intersection (ij) / union (oj) of the operand indices on every path',
            axioms=('A4',))
def c08_9(ctx):
    from . import C03 as _c03
    _c03.c03_1(ctx)
