"""C12 df_fillna / nona fill or drop exactly the missing cells, arrays and pandas alike (structural necessary conditions)."""
import ast
from ..core import obligation, AnalysisError
from .common import *


def _method_chain(fn):
    loops = [s for s in fn.body if isinstance(s, ast.For) and U(s.iter) == 'methods']
    if len(loops) != 1:
        raise AnalysisError('method loop of _df_fillna not found')
    loop = loops[0]
    m = U(loop.target)
    ch = [s for s in loop.body if isinstance(s, ast.If)]
    if len(ch) != 1:
        raise AnalysisError('method dispatch chain of _df_fillna not found')
    return loop, m, if_chain(ch[0])


@obligation('C12.1', 'ALIAS purity (+ inplace ban)', '_pandas:_df_fillna, df_fillna, _nona, nona',
            'the input object is not modified: every store happens on a name rebound to a fresh pandas result on all paths, and no call uses inplace=True',
            axioms=('A4',))
def c12_1(ctx):
    r = ctx.repo
    fns = [r.fn('_pandas:%s' % n) for n in ('_df_fillna', 'df_fillna', '_nona', 'nona', 'mask2v', '_df_reindex')]
    purity(ctx, fns)
    for f in fns:
        for c in calls_in(f.node):
            v = kw(c, 'inplace')
            ctx.count(1)
            if v is not None and const(v) is True:
                ctx.fail(f, c, 'inplace=True modifies the caller\'s object')
            v = kw(c, 'copy')
            if v is not None and const(v) is False and call_name(c) in ('astype', 'reindex', 'DataFrame', 'Series'):
                ctx.fail(f, c, 'copy=False may return a view of the caller\'s data that is then written to')
    # the running result starts as the input and must be rebound (not written) by the first method applied
    f = r.fn('_pandas:_df_fillna')
    loop, m, chain = _method_chain(f)
    for test, body in chain:
        for s in body:
            for n in ast.walk(s):
                if isinstance(n, ast.Assign) and isinstance(n.targets[0], ast.Subscript) and U(n.targets[0].value) == 'res':
                    # a store into res: some earlier statement of this branch must have rebound res to a fresh result
                    idx = body.index(s) if s in body else None
                    prior = []
                    for b in body:
                        for x in ast.walk(b):
                            if isinstance(x, ast.Assign) and U(x.targets[0]) == 'res' and isinstance(x.value, ast.Call) and x.lineno < n.lineno:
                                prior.append(x)
                    ctx.count(1, f.where(n))
                    if not prior:
                        ctx.fail(f, n, 'cells are written into `res` while it may still be the caller\'s object (no fresh result assigned to res earlier in this branch)')


@obligation('C12.2', 'TABLES', 'method dispatcher of _pandas:_df_fillna',
            "methods mean what they say: 'ffill' -> .ffill, 'bfill'/'backfill' -> .bfill, a number -> .fillna(value=number); every fill receives **params carrying limit (and axis for frames)",
            axioms=('A4',))
def c12_2(ctx):
    f = ctx.repo.fn('_pandas:_df_fillna')
    loop, m, chain = _method_chain(f)
    rows = {}
    for test, body in chain:
        if test is None:
            rows['else'] = body
            continue
        t = N(test)
        kind, keys = classify_test(test)
        if kind == 'eq:' + m:
            for k in keys:
                rows[k] = body
        elif t == 'is_num(%s)' % m:
            rows['<num>'] = body
        elif t == 'is_date(%s)' % m:
            rows['<date>'] = body
    expect = {'ffill': 'res.ffill(**params)', 'bfill': 'res.bfill(**params)', 'backfill': 'res.bfill(**params)', '<num>': 'res.fillna(value=%s, **params)' % m}
    for k, want in expect.items():
        ctx.count(1, k)
        if k not in rows:
            ctx.fail(f, loop, "fill method %s has no branch" % k)
            continue
        a = [s for s in rows[k] if isinstance(s, ast.Assign) and U(s.targets[0]) == 'res']
        if not a or N(a[0].value) != NS(want):
            ctx.fail(f, a[0] if a else rows[k][0], "method %s does `%s`, expected `res = %s`" % (k, U(a[0].value) if a else '?', want))
    # order of cases: numbers first (a number must not be compared with strings is fine), dates handled
    p = [s for s in f.body if isinstance(s, ast.Assign) and U(s.targets[0]) == 'params']
    ctx.count(1)
    if not p or N(p[0].value) != NS('dict(limit=limit) if is_series(df) else dict(axis=axis, limit=limit)'):
        ctx.fail(f, p[0] if p else f.node, 'params is not {limit} for a series / {axis, limit} for a frame: %s' % (U(p[0].value) if p else '?'))
    ctx.count(1)
    if 'nona' not in rows or 'fnna' not in rows or 'ffill_na' not in rows or 'ffill_0' not in rows:
        ctx.fail(f, loop, 'one of nona / fnna / ffill_na / ffill_0 has no branch: %s' % sorted(k for k in rows if isinstance(k, str)))
    # no methods => identity
    ctx.count(1)
    ident = [s for s in f.body if isinstance(s, ast.If) and N(s.test) == NS('len(methods) == 0') and any(isinstance(r, ast.Return) and U(r.value) == f.params[0] for r in s.body)]
    if not ident:
        ctx.fail(f, f.node, 'no method no longer returns the input unchanged')


@obligation('C12.3', 'MATCH chain', 'method loop of _pandas:_df_fillna',
            'a list of methods applies them in sequence: each method takes the running result and its outcome becomes the running result',
            axioms=())
def c12_3(ctx):
    f = ctx.repo.fn('_pandas:_df_fillna')
    loop, m, chain = _method_chain(f)
    init = [s for s in f.body if isinstance(s, ast.Assign) and U(s.targets[0]) == 'res' and s.lineno < loop.lineno]
    ctx.count(1, f.where(loop))
    if not init or U(init[-1].value) != f.params[0]:
        ctx.fail(f, init[-1] if init else loop, 'the running result does not start as the input')
    ms = single_assign(f, 'methods')
    if ms is None or N(ms) != 'as_list(method)':
        ctx.fail(f, f.node, 'methods is not as_list(method)')
    for test, body in chain:
        for s in body:
            for n in ast.walk(s):
                if isinstance(n, ast.Assign) and U(n.targets[0]) == 'res' and isinstance(n.value, ast.Call) and isinstance(n.value.func, ast.Attribute):
                    ctx.count(1)
                    recv = U(n.value.func.value)
                    if recv in (f.params[0],) and n.value.func.attr in ('ffill', 'bfill', 'fillna', 'interpolate'):
                        ctx.fail(f, n, 'method is applied to the original input `%s`, discarding the result of the methods before it' % recv)
    rr = returns_of(f.node)
    ctx.count(1)
    if not rr or U(rr[-1].value) != 'res':
        ctx.fail(f, rr[-1] if rr else f.node, '_df_fillna does not return the running result')
    if any(isinstance(n, (ast.Break, ast.Return)) for n in ast.walk(loop)):
        ctx.fail(f, loop, 'the method loop can stop before every method has been applied')


@obligation('C12.4', 'PROP polarity', "'nona' / 'fnna' branches of _df_fillna and _pandas:_nona",
            "'nona' removes exactly the rows that are entirely NaN (a row is kept iff ANY cell is non-NaN), 'fnna' removes only the leading all-NaN rows and returns nothing when no row has data",
            axioms=('A4',))
def c12_4(ctx):
    f = ctx.repo.fn('_pandas:_df_fillna')
    loop, m, chain = _method_chain(f)
    body = None
    for test, b in chain:
        if test is not None and classify_test(test)[1] and set(classify_test(test)[1]) >= {'fnna', 'nona'}:
            body = b
    ctx.need(body is not None, "the 'fnna'/'nona' branch of _df_fillna not found")
    a = [s for s in body if isinstance(s, ast.Assign) and U(s.targets[0]) == 'nonan']
    ctx.count(1, f.where(body[0]))
    if not a or N(a[0].value) != '~np.isnan(res)':
        ctx.fail(f, a[0] if a else body[0], 'keep-mask is `%s`, expected ~np.isnan(res)' % (U(a[0].value) if a else '?'))
    red = [s for s in ast.walk(ast.Module(body, [])) if isinstance(s, ast.Assign) and U(s.targets[0]) == 'nonan' and isinstance(s.value, ast.Call) and isinstance(s.value.func, ast.Attribute) and s.value.func.attr in ('max', 'min', 'any', 'all')]
    ctx.count(1)
    if not red or red[0].value.func.attr not in ('max', 'any') or const(kw(red[0].value, 'axis')) != 1:
        ctx.fail(f, red[0] if red else body[0], 'rows of a frame are kept when `%s` of the non-NaN flags: a row must be kept iff ANY cell is non-NaN (max over axis 1)' % (red[0].value.func.attr if red else '?'))
    # nona: res = res[nonan.values]
    sub = [s for s in body if isinstance(s, ast.If)]
    na = [x for s in sub for t, b in if_chain(s) if t is not None and N(t) == NS("%s == 'nona'" % m) for x in b]
    ctx.count(1)
    if not na or N(na[0].value) != 'res[nonan.values]':
        ctx.fail(f, na[0] if na else body[0], "'nona' does not keep exactly the flagged rows: %s" % (U(na[0].value) if na else '?'))
    fn_ = [b for s in sub for t, b in if_chain(s) if t is not None and N(t) == NS("%s == 'fnna'" % m)]
    ctx.count(1)
    if not fn_:
        ctx.fail(f, body[0], "'fnna' branch not found")
    else:
        b = fn_[0]
        txt = [U(x) for x in ast.walk(ast.Module(b, [])) if isinstance(x, ast.Assign)]
        empty = [x for x in ast.walk(ast.Module(b, [])) if isinstance(x, ast.Assign) and U(x.targets[0]) == 'res' and N(x.value) in ('res.iloc[:0]', 'res[:0]', 'res.iloc[0:0]')]
        if not empty:
            ctx.fail(f, b[0], "'fnna' has no case returning an empty object: an input without any valid observation comes back whole",
                     witness="df_fillna(pd.Series([nan, nan]), 'fnna') must be empty")
        cut = [x for x in ast.walk(ast.Module(b, [])) if isinstance(x, ast.Assign) and U(x.targets[0]) == 'res' and x not in empty]
        if not cut or N(cut[0].value) != 'res[nonan.index[0]:]':
            ctx.fail(f, cut[0] if cut else b[0], "'fnna' does not slice from the first row with data: %s" % (U(cut[0].value) if cut else '?'))
        flt = [x for x in b if isinstance(x, ast.Assign) and U(x.targets[0]) == 'nonan' and N(x.value) == 'nonan[nonan.values]']
        if not flt:
            ctx.fail(f, b[0], "'fnna' no longer restricts the flags to the rows with data before taking the first one")
    # _nona: mask = isnan; min over axis 1; res = df[~mask]
    g = ctx.repo.fn('_pandas:_nona')
    ctx.count(1, g.where())
    w = [s for s in g.body if isinstance(s, ast.While)]
    ok = w and N(w[0].test) == NS('len(mask.shape) > 1') and N(w[0].body[0].value) == 'mask.min(axis=1)'
    if not ok:
        ctx.fail(g, w[0] if w else g.node, '_nona does not drop a row only when ALL its cells are masked (min over axis 1 of the NaN flags)')
    keep = [s for s in g.body if isinstance(s, ast.Assign) and U(s.targets[0]) == 'res']
    if not keep or N(keep[0].value) != '%s[~mask]' % g.params[0]:
        ctx.fail(g, keep[0] if keep else g.node, '_nona does not keep the rows that are not fully masked')
    first = [s for s in g.body if isinstance(s, ast.If)]
    if not first or N(first[0].test) != 'np.isnan(value)' or N(first[0].body[0].value) != 'np.isnan(%s)' % g.params[0]:
        ctx.fail(g, g.node, '_nona(df, nan) no longer masks with np.isnan(df)')


@obligation('C12.5', 'MATCH', "'ffill_na' / 'ffill_0' branch of _df_fillna",
            "forward-fill up to the last valid observation and then leave NaN / write 0: the trailing region is exactly the index after df.last_valid_index(), independent of limit",
            axioms=('A4',))
def c12_5(ctx):
    f = ctx.repo.fn('_pandas:_df_fillna')
    loop, m, chain = _method_chain(f)
    body = None
    for test, b in chain:
        if test is not None and set(classify_test(test)[1] or ()) >= {'ffill_na', 'ffill_0'}:
            body = b
    ctx.need(body is not None, "the 'ffill_na'/'ffill_0' branch not found")
    inv = [s for s in body if isinstance(s, ast.Assign) and U(s.targets[0]) == 'invalid']
    ctx.count(1, f.where(body[0]))
    if not inv or N(inv[0].value) not in (NS("np.nan if %s == 'ffill_na' else 0.0" % m), NS("np.nan if %s == 'ffill_na' else 0" % m)):
        ctx.fail(f, inv[0] if inv else body[0], 'fill value after the last observation is `%s`' % (U(inv[0].value) if inv else '?'))
    lv = [s for s in ast.walk(ast.Module(body, [])) if isinstance(s, ast.Assign) and U(s.targets[0]) == 'last_valid']
    ctx.count(1)
    if not lv or N(lv[0].value) != '%s.last_valid_index()' % f.params[0]:
        ctx.fail(f, lv[0] if lv else body[0], 'the end of the data is not df.last_valid_index()')
    st = [s for s in ast.walk(ast.Module(body, [])) if isinstance(s, ast.Assign) and isinstance(s.targets[0], ast.Subscript) and U(s.targets[0].value) == 'res']
    ctx.count(1)
    if not st:
        ctx.fail(f, body[0], 'cells after the last observation are never reset')
    else:
        mask = N(st[0].targets[0].slice)
        if mask != NS('res.index > last_valid'):
            extra = ' (the mask depends on **params, so `limit` leaks into it)' if 'params' in mask else ''
            ctx.fail(f, st[0], 'the trailing region is `%s`, expected strictly after the last valid index `res.index > last_valid`%s' % (U(st[0].targets[0].slice), extra),
                     witness="df_fillna(pd.Series([1, nan, nan, nan, 2, nan]), 'ffill_na', limit=1)")
        if U(st[0].value) != 'invalid':
            ctx.fail(f, st[0], 'trailing cells are set to %s' % U(st[0].value))
    ff = [s for s in ast.walk(ast.Module(body, [])) if isinstance(s, ast.Assign) and U(s.targets[0]) == 'res' and N(s.value) == 'res.ffill(**params)']
    if not ff:
        ctx.fail(f, body[0], 'values are no longer forward-filled with the requested limit before the tail is reset')
    elif st and ff[0].lineno > st[0].lineno:
        ctx.fail(f, st[0], 'the tail is reset before the forward fill: the fill then overwrites it')


@obligation('C12.6', 'MATCH', 'array path of _pandas:_df_fillna',
            'given a numpy array the result equals the values of the result for the corresponding Series/DataFrame: the array is wrapped, the same method/axis/limit are forwarded and .values is returned',
            axioms=('A4',))
def c12_6(ctx):
    f = ctx.repo.fn('_pandas:_df_fillna')
    df = f.params[0]
    a = [s for s in f.body if isinstance(s, ast.If) and N(s.test) == 'is_arr(%s)' % df]
    ctx.count(1, f.where())
    if not a:
        ctx.fail(f, f.node, 'array branch of _df_fillna not found')
        return
    # spelling-independent (conditional expression inside the call, or two returns, or a temporary): every exit of the array branch is
    # df_fillna(<frame for 2-d / series otherwise>, method, axis, limit).values
    sp = [p for p in sym_paths(ast.Module(body=a[0].body, type_ignores=[])) if p.term == 'return']
    if not sp:
        ctx.fail(f, a[0], 'array path is `?`')
    forms = lambda w: (NS('df_fillna(%s, method, axis, limit).values' % w), NS('df_fillna(%s, method=method, axis=axis, limit=limit).values' % w))
    for p in sp:          # EVERY exit of the array branch: an array result must be the pandas result on the same cells (limit, inf and method order included)
        ctx.count(1)
        two = p.holds('len(%s.shape) == 2' % df, True)
        one = p.holds('len(%s.shape) == 2' % df, False)
        want = forms('pd.DataFrame(%s)' % df) if two else forms('pd.Series(%s)' % df) if one else ()
        if p.text() not in want:
            ctx.fail(f, p.node, 'array path is `%s`%s: arrays must take the round trip through pandas (a frame for 2-d, a series otherwise) so that numpy and pandas inputs are filled identically' % (
                p.text(), '' if (two or one) else ' without looking at the number of dimensions'))
    # the input itself is handed back only when there is no method at all
    pm = parent_map(f.node)
    for r_ in [x for x in body_nodes(f.node) if isinstance(x, ast.Return) and x.value is not None and U(x.value) == df]:
        ctx.count(1, f.where(r_))
        conds = []
        cur = r_
        while cur in pm and pm[cur] is not f.node:
            par = pm[cur]
            if isinstance(par, ast.If):
                conds.append(par.test if cur in par.body else negate(par.test))
            cur = par
        t = conds[0] if len(conds) == 1 else ast.BoolOp(ast.And(), conds) if conds else ast.Constant(True)
        ok = conds and prop_equiv(t, 'len(methods) == 0')[0]
        if not ok:
            ctx.fail(f, r_, '_df_fillna hands its input back unchanged when `%s`: only an empty method list leaves the data as they are (a numeric method fills every NaN, also in all-NaN data)' % U(t)[:120],
                     witness='df_fillna(pd.Series([np.nan, np.nan]), 0)')
    # it must precede the method loop
    loop, m, chain = _method_chain(f)
    if a[0].lineno > loop.lineno:
        ctx.fail(f, a[0], 'arrays reach the pandas method loop before being wrapped')
    g = ctx.repo.fn('_pandas:df_fillna')
    ctx.count(1, g.where())
    rr = returns_of(g.node)
    if not rr or N(rr[-1].value) != NS('_df_fillna(%s, method=method, axis=axis, limit=limit)' % g.params[0]):
        ctx.fail(g, rr[-1] if rr else g.node, 'df_fillna does not forward method, axis and limit to the lifted worker')


@obligation('C12.7', 'TABLES (guards by truth table) + defaults', '_pandas:_nona (edge), remaining branches of _df_fillna, df_fillna defaults, mask2v',
            "nona with an edge removes only leading (edge=-1) / trailing (edge=1) all-NaN rows by slicing from the first / to the last valid row inclusive; 'ffill_na'/'ffill_0' on a frame fill column by column; axis defaults to 0 (down the time axis)",
            axioms=('A4',))
def c12_7(ctx):
    r = ctx.repo
    n = r.fn('_pandas:_nona')
    df = n.params[0]
    expect_guards(ctx, n, [
        ('np.isnan(value)', 'mask = np.isnan(%s)' % df, 'NaN is found with isnan'),
        ('np.isinf(value)', 'mask = np.isinf(%s)' % df, 'inf is found with isinf'),
        ('edge is None or len(res) == 0 or not is_pd(%s)' % df, 'return res', 'no edge: exactly the non-masked rows'),
        ('edge == 1', "return df_slice(%s, ub=res.index[-1], openclose='[]')" % df, 'edge=1 cuts only after the last valid row (inclusive)'),
        ('edge == -1', "return df_slice(%s, lb=res.index[0], openclose='[]')" % df, 'edge=-1 cuts only before the first valid row (inclusive)'),
    ])
    ctx.count(1)
    other = [s for s in ast.walk(n.node) if isinstance(s, ast.Assign) and U(s.targets[0]) == 'mask' and N(s.value) == NS('%s == value' % df)]
    if not other:
        ctx.fail(n, n.node, 'a finite value to drop is not found with df == value')
    f = r.fn('_pandas:_df_fillna')
    for g in (f, r.fn('_pandas:df_fillna')):
        ctx.count(1, g.where())
        d = g.defaults()
        if const(d.get('axis')) != 0 or const(d.get('limit'), 'X') is not None or const(d.get('method'), 'X') is not None:
            ctx.fail(g, g.node, '%s defaults are method=%s, axis=%s, limit=%s; expected None, 0, None' % (g.name, U(d.get('method')), U(d.get('axis')), U(d.get('limit'))))
    loop, m, chain = _method_chain(f)
    expect_guards(ctx, f, [
        ("%s == 'pad'" % m, 'res = res.fillna(method=%s, **params)' % m, 'pad'),
        ('is_date(%s)' % m, 'res = res.ffill(**params)', 'a date method forward-fills up to that date'),
        ('len(%s.shape) == 1' % f.params[0], 'last_valid = %s.last_valid_index()' % f.params[0], 'ffill_na / ffill_0 on a series'),
        ('last_valid is not None', 'res = res.ffill(**params)', 'an all-NaN series is left alone'),
        ('len(res.shape) == 2', 'nonan = nonan.max(axis=1)', 'rows of a frame are kept when any cell has data'),
        ('is_num(limit) and limit < 0', 'params = dict(limit=abs(limit)) if is_series(%s) else dict(axis=axis, limit=abs(limit))' % f.params[0], 'a negative limit interpolates backward'),
    ])
    ctx.count(1)
    dt_ = [s for s in ast.walk(f.node) if isinstance(s, ast.Assign) and N(s.targets[0]) == NS('res[res.index > %s]' % m)]
    if not dt_ or 'nan' not in U(dt_[0].value).lower():
        ctx.fail(f, f.node, 'a date method does not reset the cells strictly after that date to NaN')
    fr = [s for s in ast.walk(f.node) if isinstance(s, ast.Assign) and 'pd.concat' in U(s.value) and 'iloc[:, i]' in U(s.value)]
    if not fr or N(fr[0].value) != NS('pd.concat([_df_fillna(res.iloc[:, i], method, **params) for i in range(res.shape[1])], axis=1)'):
        ctx.fail(f, fr[0] if fr else f.node, "'ffill_na'/'ffill_0' on a frame is not applied column by column and reassembled side by side")
    ip = [N(s.value) for s in ast.walk(f.node) if isinstance(s, ast.Assign) and 'interpolate' in U(s.value)]
    if ip != [NS("res.interpolate(method=%s, limit_direction='backward', **params)" % m), NS('res.interpolate(method=%s, **params)' % m)]:
        ctx.fail(f, f.node, 'other method names are not passed to interpolate (backward for a negative limit): %s' % ip)
    k = r.fn('_pandas:mask2v')
    ctx.count(1, k.where())
    body = [' '.join(U(s).split()) for s in k.body]
    if body[-3:] != ['res = df.copy()', 'res[mask] = value', 'return res']:
        ctx.fail(k, k.node, 'mask2v does not write the fill value into the masked cells of a copy: %s' % body[-3:])
    for c in calls_in(k.node, '_mask'):
        if [U(a) for a in c.args] != ['df', 'mask']:
            ctx.fail(k, c, 'mask2v builds the mask as %s' % U(c))
    expect_guards(ctx, k, [('not is_pd(mask)', 'mask = _mask(df, mask)', 'a value to mask is turned into a boolean mask'), ('not is_bool(mask)', 'mask = _mask(df, mask)', 'scalar case')])
