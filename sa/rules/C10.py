"""C10 drange enumerates exactly t0, t0+bump, ... up to t1 for every kind of bump (structural necessary conditions)."""
import ast
from ..core import obligation, AnalysisError
from .common import *


def _loops(fn):
    return [n for n in body_nodes(fn.node) if isinstance(n, ast.While)]


def _step_expr(loop, var):
    """the expression assigned to the running variable inside the loop"""
    for s in loop.body:
        if isinstance(s, ast.Assign) and U(s.targets[0]) == var:
            return s.value
        if isinstance(s, ast.AugAssign) and U(s.target) == var:
            return ast.BinOp(ast.Name(var, ast.Load()), s.op, s.value)
    return None


@obligation('C10.1', 'PATH dominance + PROP(sign)', '_drange:drange stepping loops and direction guards',
            'a bump pointing away from t1 must raise ValueError instead of producing an empty or unbounded list: every stepping loop is an inclusive direct comparison of the running instant with t1, '
            'runs under the matching order of the endpoints and is dominated by a guard raising when one step from t0 does not move in that direction',
            axioms=('A1',))
def c10_1(ctx):
    fn = ctx.repo.fn('_drange:drange')
    loops = _loops(fn)
    ctx.at_least(4, len(loops), 'stepping loops in drange')
    pm = parent_map(fn.node)
    for w in loops:
        ctx.count(1, fn.where(w))
        t = canon(w.test)
        if any(isinstance(a, ast.Attribute) and a.attr in ('days', 'seconds') for a in ast.walk(w.test)):
            ctx.fail(fn, w, 'loop bound `%s` goes through timedelta.days, which floors: an intraday range overshoots t1 by up to a day' % U(w.test),
                     witness="drange(dt(2021,3,15,18), dt(2021,3,14,6), '-6h')")
            continue
        if not (isinstance(t, ast.Compare) and len(t.ops) == 1 and isinstance(t.ops[0], (ast.Lt, ast.LtE)) and {U(t.left), U(t.comparators[0])} == {'t', 't1'}):
            raise AnalysisError('unrecognised loop bound in drange: %s' % U(w.test))
        if isinstance(t.ops[0], ast.Lt):
            ctx.fail(fn, w, 'loop bound `%s` is exclusive: t1 itself is dropped when the steps land on it' % U(w.test))
            continue
        forward = U(t.left) == 't'      # t <= t1
        # the enclosing branch must assume the matching endpoint order
        par = pm.get(w)
        ok_order = False
        guard_ok = False
        step = _step_expr(w, 't')
        if step is None:
            ctx.fail(fn, w, 'the running instant is not advanced inside the loop: it never terminates')
            continue
        step0 = N(subst_names(step, {'t': ast.Name('t0', ast.Load())}))
        # what a step IS: the timedelta added, or the tenor applied to the running date by dt_bump - a step measured once at t0 and re-added
        # (t + (dt_bump(t0, bump) - t0)) drifts as soon as a month / quarter / year / business-day part is present
        if N(step) not in (NS('t + bump'), NS('dt_bump(t, bump)'), NS('bump + t')):
            ctx.fail(fn, w, 'the loop advances with `t = %s`: the running instant must be advanced by the bump itself (t + bump for a timedelta, dt_bump(t, bump) for a tenor, recomputed from the running date)' % U(step),
                     witness="drange(dt(2003,6,20), dt(2003,1,1), '-1m') must stay on the 20th of each month")
            continue
        anc = par
        while anc is not None and not isinstance(anc, ast.FunctionDef):
            if isinstance(anc, ast.If):
                chain = if_chain(anc)
                for test, body in chain:
                    if test is not None and any(x is w for s in body for x in ast.walk(s)):
                        tn = N(test)
                        if tn == (NS('t1 > t0') if forward else NS('t1 < t0')):
                            ok_order = True
                            # the direction guard: an earlier statement of this body raising when step(t0) <=/>= t0
                            for s in body:
                                if s is w or any(x is w for x in ast.walk(s)):
                                    break
                                if isinstance(s, ast.If) and any(isinstance(r, ast.Raise) and 'ValueError' in U(r) for r in s.body):
                                    g = N(s.test)
                                    want = NS('%s <= t0' % step0) if forward else NS('%s >= t0' % step0)
                                    if g == want:
                                        guard_ok = True
                                    elif N(s.test).replace('<=', '<').replace('>=', '>') == want.replace('<=', '<').replace('>=', '>') and g != want:
                                        ctx.fail(fn, s, 'direction guard `%s` lets a zero step through: the loop would never end' % U(s.test))
                                        guard_ok = True
            anc = pm.get(anc)
        if not ok_order:
            ctx.fail(fn, w, 'loop `while %s` is not confined to the branch where %s' % (U(w.test), 't1 > t0' if forward else 't1 < t0'))
        elif not guard_ok:
            ctx.fail(fn, w, 'loop `while %s` is not dominated by a guard raising ValueError when one step from t0 (%s) does not move %s' % (U(w.test), step0, 'forward' if forward else 'back'),
                     witness='a bump pointing away from t1 loops forever or returns []')
    # integer and single-period branches: sign guard
    ctx.count(1)
    g = [n for n in body_nodes(fn.node) if isinstance(n, ast.If) and any(isinstance(r, ast.Raise) for r in n.body) and '(t1 - t0).days' in U(n.test)]
    tests = {N(x.test) for x in g}
    if NS('(t1 - t0).days * bump <= 0') not in tests:
        ctx.fail(fn, fn.node, 'integer bumps are no longer rejected when (t1-t0).days * bump <= 0')
    if NS('(t1 - t0).days * interval < 0') not in tests and NS('(t1 - t0).days * interval <= 0') not in tests:
        ctx.fail(fn, fn.node, 'single-period bumps are no longer rejected when they point away from t1')
    for x in g:
        for r in x.body:
            if isinstance(r, ast.Raise) and 'ValueError' not in U(r):
                ctx.fail(fn, r, 'direction error is %s, expected ValueError' % U(r.exc)[:30])


@obligation('C10.2', 'SIBLING / sign domain', 'the rrule(...) call sites of _drange:drange',
            'rrule enumerates forward only (A3): at every call dtstart <= until and interval > 0 must hold - either the arguments are min(t0,t1), max(t0,t1) and the literal 1 (reversal and striding are applied afterwards), or the path guards imply t0 <= t1 and interval > 0',
            axioms=('A3',))
def c10_2(ctx):
    fn = ctx.repo.fn('_drange:drange')
    sites = calls_in(fn.node, 'rrule')
    ctx.at_least(3, len(sites), 'rrule call sites in drange')
    pm = parent_map(fn.node)
    for c in sites:
        ctx.count(1, fn.where(c))
        ds, un, iv = kw(c, 'dtstart'), kw(c, 'until'), kw(c, 'interval')
        st = enclosing_stmt(pm, c)
        if ds is None or un is None:
            raise AnalysisError('rrule call without dtstart/until keywords: %s' % U(c))
        if N(ds) in ('min(t0, t1)', 'min(t1, t0)') and N(un) in ('max(t0, t1)', 'max(t1, t0)'):
            if iv is not None and const(iv) != 1:
                ctx.fail(fn, st, 'rrule is anchored at min(t0, t1) with interval %s: for a backward range the strided list no longer starts at t0 (stride must be applied after the reversal, on a daily enumeration)' % U(iv),
                         witness='drange(dt(2021,3,15), dt(2021,3,5), -3) must start at 2021-03-15')
            continue
        if (N(ds), N(un)) == ('t0', 't1'):
            # need: interval > 0 assumed on the path, and the direction guard before
            conds = []
            anc = pm.get(st)
            node = st
            while anc is not None and not isinstance(anc, ast.FunctionDef):
                if isinstance(anc, ast.If):
                    for test, body in if_chain(anc):
                        if test is not None and any(x is node for s in body for x in ast.walk(s)):
                            conds.append(N(test))
                node = anc
                anc = pm.get(anc)
            ivn = U(iv) if iv is not None else '1'
            pos = any(cn in (NS('%s > 0' % ivn), NS('%s >= 1' % ivn)) for cn in conds) or (const(iv) or 0) > 0
            # the direction guard must be executed on every path to this call: an earlier sibling statement of one of the enclosing blocks
            guarded = False
            node2 = st
            anc2 = pm.get(st)
            while anc2 is not None:
                for field in ('body', 'orelse'):
                    lst = getattr(anc2, field, None)
                    if isinstance(lst, list) and node2 in lst:
                        for prev in lst[:lst.index(node2)]:
                            if isinstance(prev, ast.If) and any(isinstance(r, ast.Raise) for r in prev.body) and N(prev.test) in (NS('(t1 - t0).days * %s < 0' % ivn), NS('(t1 - t0).days * %s <= 0' % ivn)):
                                guarded = True
                if isinstance(anc2, ast.FunctionDef):
                    break
                node2 = anc2
                anc2 = pm.get(anc2)
            if pos and not guarded:
                ctx.fail(fn, st, 'rrule(dtstart = t0, until = t1) is reachable without passing the direction guard `(t1 - t0).days * %s < 0 -> raise`: a positive period with t1 before t0 returns [] instead of raising' % ivn,
                         witness="drange(dt(2020,1,10), dt(2020,1,1), '1d') == []")
            if not pos:
                ctx.fail(fn, st, 'rrule(dtstart = t0, until = t1, interval = %s) is reachable with a negative interval / t0 > t1: rrule then yields nothing and drange returns []' % ivn,
                         witness="drange(dt(2000,1,10), dt(2000,1,5), '-1d') == []")
            continue
        ctx.fail(fn, st, 'rrule is called with dtstart = %s, until = %s: neither (min, max) nor (t0, t1) under a positive-interval guard' % (U(ds), U(un)))


@obligation('C10.3', 'PATH', '_drange:drange', 't0 == t1 gives [t0] for every kind of bump', axioms=())
def c10_3(ctx):
    fn = ctx.repo.fn('_drange:drange')
    ctx.count(1, fn.where())
    first_if = [s for s in fn.body if isinstance(s, ast.If)]
    ok = first_if and N(first_if[0].test) == NS('t0 == t1') and any(isinstance(r, ast.Return) and N(r.value) == '[t0]' for r in first_if[0].body)
    if not ok:
        ctx.fail(fn, first_if[0] if first_if else fn.node, 'drange no longer returns [t0] when t0 == t1 before looking at the bump')
    else:
        # it must come right after the endpoint resolution, before any branch on the bump
        idx = fn.body.index(first_if[0])
        for s in fn.body[:idx]:
            if isinstance(s, (ast.If, ast.While, ast.For)):
                ctx.fail(fn, s, 'a branch precedes the t0 == t1 short-circuit')
    dr = [s for s in fn.body if isinstance(s, ast.Assign) and isinstance(s.value, ast.Call) and call_name(s.value) == 'date_range']
    ctx.count(1)
    if not dr or N(dr[0].targets[0]) != '(t0, t1)' or [U(a) for a in dr[0].value.args] != ['t0', 't1']:
        ctx.fail(fn, fn.node, 'endpoints are not resolved with date_range(t0, t1)')
    # the bump keeps its kind until the dispatch: an integer bump is only defined for endpoints a whole number of days apart, so nothing may be
    # converted INTO an int (e.g. timedelta(n) -> n) on the way
    ctx.count(1)
    pm = parent_map(fn.node)
    for s in body_nodes(fn.node):
        if isinstance(s, ast.Assign) and U(s.targets[0]) == 'bump':
            v = s.value
            txt = U(v)
            if N(v) in (NS('1 if t0 < t1 else -1'), 'bump.lower()'):
                continue
            if '.days' in txt or txt.startswith('int(') or 'total_seconds' in txt:
                g = pm.get(s)
                ctx.fail(fn, g if isinstance(g, ast.If) else s, 'a bump is converted into an integer before the dispatch (`%s`): the integer branch enumerates whole days from min(t0, t1), so a timedelta bump between intraday endpoints no longer starts at t0 / raises for spans shorter than a day' % U(s),
                         witness='drange(dt(2020,1,5,12), dt(2020,1,1), timedelta(-1))')
            else:
                raise AnalysisError('unrecognised rebinding of bump in drange: %s' % U(s))
    ctx.count(1)
    df = [s for s in fn.body if isinstance(s, ast.If) and N(s.test) == NS('bump is None')]
    if not df or N(df[0].body[0].value) != NS('1 if t0 < t1 else -1'):
        ctx.fail(fn, df[0] if df else fn.node, 'default bump is no longer +1/-1 day towards t1')


@obligation('C10.4', 'MATCH', 'integer and business-day branches of _drange:drange',
            "the list starts at t0 and every k-th (week)day is selected counting from t0: negative ranges are reversed BEFORE striding by |k|; 'b' keeps weekdays only",
            axioms=())
def c10_4(ctx):
    fn = ctx.repo.fn('_drange:drange')
    # find blocks containing both a reversal res[::-1] and a stride res[::abs(k)]
    n = 0
    for blk in [fn.body] + [b for x in body_nodes(fn.node) if isinstance(x, ast.If) for b in (x.body, x.orelse)]:
        rev = [s for s in blk if isinstance(s, ast.Assign) and '[::-1]' in U(s.value)]
        strd = [s for s in blk if isinstance(s, ast.Assign) and '[::abs(' in U(s.value)]
        if not rev and not strd:
            continue
        if any(isinstance(s, ast.Return) for s in blk) is False:
            continue
        n += 1
        ctx.count(1, fn.where((rev or strd)[0]))
        if not rev:
            ctx.fail(fn, strd[0], 'a negative range is never reversed: the list does not start at t0')
            continue
        if not strd:
            ctx.fail(fn, rev[0], 'steps of |k| > 1 are never applied')
            continue
        if blk.index(rev[0]) > blk.index(strd[0]):
            ctx.fail(fn, strd[0], 'striding is applied before the reversal: a backward range no longer starts at t0')
        r = rev[0].value
        if not (isinstance(r, ast.IfExp) and N(r.test) in (NS('bump < 0'), NS('interval < 0')) and '[::-1]' in U(r.body)):
            ctx.fail(fn, rev[0], 'reversal condition is `%s`' % U(r.test if isinstance(r, ast.IfExp) else r))
        s_ = strd[0].value
        if not (isinstance(s_, ast.IfExp) and N(s_.test) in (NS('abs(bump) > 1'), NS('abs(interval) > 1'))):
            ctx.fail(fn, strd[0], 'stride condition is `%s`' % U(s_.test if isinstance(s_, ast.IfExp) else s_))
    ctx.at_least(2, n, 'reverse-then-stride blocks')
    ctx.count(1)
    wk = [c for c in ast.walk(fn.node) if isinstance(c, ast.ListComp) and c.generators[0].ifs and 'weekday()' in U(c.generators[0].ifs[0])]
    if not wk or N(wk[0].generators[0].ifs[0]) not in (NS('t.weekday() < 5'), NS('t.weekday() <= 4')):
        ctx.fail(fn, wk[0] if wk else fn.node, "business-day ranges no longer keep exactly the weekdays (weekday() < 5)")
    # loops append t before stepping (list starts at t0)
    for w in _loops(fn):
        ctx.count(1)
        if not (w.body and isinstance(w.body[0], ast.Expr) and N(w.body[0].value) == 'res.append(t)'):
            ctx.fail(fn, w, 'the loop does not record t before stepping: the list would not start at t0')
    inits = [s for s in body_nodes(fn.node) if isinstance(s, ast.Assign) and U(s.targets[0]) == 't']
    for s in inits:
        if isinstance(s.value, ast.Name) and s.value.id != 't0':
            ctx.fail(fn, s, 'the running instant starts at %s, not t0' % s.value.id)


@obligation('C10.5', 'TABLES', '_drange:_LY vs the period regex; quarter multiplier',
            'every unit letter of a single period needs an rrule frequency; a quarter is three months', axioms=())
def c10_5(ctx):
    m, v = ctx.repo.module_value('_drange', '_LY')
    tab = {k: U(x) for k, x in dict_literal(v).items()}
    pat_text, flags = regex_literal(ctx.repo, '_dates', 'period')
    info = regex_info(pat_text, flags)
    units = {c.lower() for c in info['items'][-1].get('chars', set())}
    fn = ctx.repo.fn('_drange:drange')
    ctx.count(1, fn.where())
    if set(tab) != units:
        ctx.fail(fn, fn.node, 'frequency table _LY has units %s, the period regex admits %s' % (sorted(tab), sorted(units)))
    want = dict(b='DAILY', d='DAILY', w='WEEKLY', m='MONTHLY', q='MONTHLY', y='YEARLY', h='HOURLY', n='MINUTELY', s='SECONDLY')
    for k, f in want.items():
        ctx.count(1)
        if tab.get(k) != f:
            ctx.fail(fn, fn.node, "frequency of unit '%s' is %s, expected %s" % (k, tab.get(k), f))
    ctx.count(1)
    iv = [s for s in body_nodes(fn.node) if isinstance(s, ast.Assign) and U(s.targets[0]) == 'interval']
    if not iv or N(iv[0].value) not in (NS('int(bump[:-1]) * dict(q=3).get(prd, 1)'), NS("int(bump[:-1]) * {'q': 3}.get(prd, 1)")):
        ctx.fail(fn, iv[0] if iv else fn.node, 'interval is not count * (3 for quarters, else 1): %s' % (U(iv[0].value) if iv else '?'))
    fr = [s for s in body_nodes(fn.node) if isinstance(s, ast.Assign) and U(s.targets[0]) == 'freq' and '_LY' in U(s.value)]
    if not fr or N(fr[0].value) != '_LY[prd]':
        ctx.fail(fn, fn.node, 'frequency is not looked up as _LY[prd]')
    # single vs compound split
    ctx.count(1)
    sp = [s for s in body_nodes(fn.node) if isinstance(s, ast.If) and N(s.test) == NS('bump == bmp')]
    if not sp:
        ctx.fail(fn, fn.node, 'single/compound period split (bump == bmp) not found')


@obligation('C10.6', 'MATCH', '_drange:_calendar.date_range',
            'endpoint resolution: dates pass through dt, bumps are applied to the other endpoint (or today)', axioms=())
def c10_6(ctx):
    fn = ctx.repo.fn('_drange:_calendar.date_range')
    rets = returns_of(fn.node)
    ctx.at_least(8, len(rets), 'returns of date_range')
    texts = [N(r.value) for r in rets]
    ctx.count(len(rets), fn.where())
    need = ['[dt(t0), t1]', '[t0, self.dt_bump(t0, t1)]', '[self.dt_bump(t1, t0), t1]', '[TMIN, t1]', '[TMIN, t]']
    for w in need:
        if w not in texts:
            ctx.fail(fn, fn.node, 'date_range no longer has the case returning %s' % w)
    for r in rets:
        if isinstance(r.value, ast.Call) and call_name(r.value) == 'sorted':
            continue
        if not isinstance(r.value, (ast.List, ast.Tuple)) or len(r.value.elts) != 2:
            ctx.fail(fn, r, 'date_range returns %s, not a pair of endpoints' % U(r.value))


@obligation('C10.7', 'TABLES (closed set of exits)', 'period-bump branch of _drange:drange',
            'a tenor is enumerated either by rrule (one forward calendar unit) or by applying dt_bump to the running date again and again - month/business-day parts make the step depend on the date, so no exit may enumerate with a step measured once (t0 + k * (dt_bump(t0, bump) - t0))',
            axioms=('A1',))
def c10_7(ctx):
    fn = ctx.repo.fn('_drange:drange')
    br = [s for s in fn.body if isinstance(s, ast.If) for t, b in if_chain(s) if t is not None and 'is_period' in U(t) for _ in [0]]
    chain = [(t, b) for s in fn.body if isinstance(s, ast.If) for t, b in if_chain(s) if t is not None and N(t) == 'is_period(%s)' % fn.params[2]]
    ctx.need(len(chain) >= 1, 'period branch of drange not found')
    body = chain[0][1]
    rets = [n for s in body for n in ast.walk(s) if isinstance(n, ast.Return)]
    ctx.at_least(4, len(rets), 'exits of the period branch of drange')
    for r_ in rets:
        ctx.count(1, fn.where(r_))
        v = r_.value
        t = N(v) if v is not None else 'None'
        ok = isinstance(v, ast.Name) or t == '[t0]' or (isinstance(v, ast.Call) and call_name(v) == 'list' and len(v.args) == 1 and isinstance(v.args[0], ast.Call) and call_name(v.args[0]) == 'rrule')
        if not ok:
            ctx.fail(fn, r_, 'the period branch of drange exits with `%s`: dates of a tenor are produced only by rrule (single forward unit) or by iterating dt_bump from the running date; a step measured once is wrong as soon as a month/quarter/year/business-day part is present' % U(v)[:100],
                     witness="drange(dt(2020,1,31), dt(2020,6,1), '1m1d')")
    for c in calls_in(ast.Module(body, []), 'dt_bump'):       # the tenor is handed to dt_bump whole, every time
        ctx.count(1)
        if len(c.args) != 2 or U(c.args[1]) != fn.params[2] or c.keywords:
            ctx.fail(fn, c, 'drange steps with `%s`: the tenor must be passed to dt_bump as it is (dt_bump tokenises it left to right itself; a pre-split or partial tenor steps by something else)' % U(c),
                     witness="drange(t0, t1, '1m1d')")
    for c in calls_in(ast.Module(body, []), 'drange'):
        ctx.fail(fn, c, 'the period branch re-enters drange with a derived bump (`%s`)' % U(c)[:80])


@obligation('C10.8', 'TYPESTATE (endpoints are what the caller gave)', '_drange:drange',
            'the list runs from t0 to t1: the endpoints are resolved ONCE (date_range / dt) before the bump is looked at and never moved afterwards - rolling t0 to a business day, for instance, puts dates outside [t0, t1] into a backward range',
            axioms=())
def c10_8(ctx):
    fn = ctx.repo.fn('_drange:drange')
    t0, t1 = fn.params[:2]
    stores = [s for s in body_nodes(fn.node) if isinstance(s, (ast.Assign, ast.AugAssign)) and any(isinstance(n, ast.Name) and n.id in (t0, t1) and isinstance(n.ctx, ast.Store) for n in ast.walk(s))]
    ctx.count(1, fn.where())
    top = [s for s in stores if s in fn.body]
    for s in stores:
        if s not in fn.body:
            ctx.fail(fn, s, 'an endpoint is moved inside a bump-specific branch (`%s`): the dates produced no longer start at / stay within the caller\'s [t0, t1]' % U(s)[:80], witness="drange(saturday, earlier_day, '-1b')")
    # the resolving statements come before the first test on bump
    first_bump_test = [s for s in fn.body if isinstance(s, ast.If) and 'bump' in names_in(s.test)]
    for s in top:
        if first_bump_test and s.lineno > first_bump_test[-1].lineno:
            ctx.fail(fn, s, 'an endpoint is rebound after the bump dispatch started: `%s`' % U(s)[:80])
