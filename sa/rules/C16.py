"""C16 ulist, dictattr and Dict implement ordered set/key algebra without side effects (structural necessary conditions)."""
import ast
from ..core import obligation, AnalysisError
from .common import *
from .C01 import fresh_result

ULIST = ['__add__', '__and__', '__sub__', 'copy']
DICTATTR = ['__sub__', '__and__', '__add__', '__truediv__', '__getitem__', '__or__', 'relabel', 'rename', 'copy']
DICT = ['__call__', 'do', 'if_none', 'apply', 'copy']


@obligation('C16.1', 'ALIAS purity', 'ulist.{__add__,__and__,__sub__,copy}, dictattr.{__sub__,__and__,__add__,__truediv__,__getitem__,__or__,relabel}, Dict.{__call__,do,if_none,apply}',
            'd itself is unchanged: no operator writes to its receiver or its arguments at any depth (a shallow copy shares nested mappings, so a nested delete/assignment reaches the original)',
            axioms=('A1',))
def c16_1(ctx):
    r = ctx.repo
    fns = [r.fn('_ulist:ulist.%s' % m) for m in ULIST] + [r.fn('_dictattr:dictattr.%s' % m) for m in DICTATTR] + [r.fn('_dict:Dict.%s' % m) for m in DICT]
    ctx.at_least(17, len(fns), 'operators')
    purity(ctx, fns)
    fresh_result(ctx, ['_dictattr:dictattr.%s' % m for m in ('__sub__', '__and__', '__add__', '__or__', 'relabel', 'copy', '__truediv__')] + ['_dict:Dict.%s' % m for m in ('__call__', 'do', 'if_none', 'copy')])


def _class_preserving(fn, e, ok_names):
    """is the returned expression built with type(self)(...) or derived from self.copy()?"""
    if isinstance(e, ast.Call) and N(e.func) == 'type(self)':
        return True
    if isinstance(e, ast.IfExp):
        return _class_preserving(fn, e.body, ok_names) and _class_preserving(fn, e.orelse, ok_names)
    if N(e) in ('self.copy()', 'copy(self)'):
        return True
    if isinstance(e, ast.Name) and e.id in ok_names:
        return True
    if isinstance(e, ast.Call) and isinstance(e.func, ast.Attribute) and e.func.attr in ('relabel', '__sub__', 'copy') and isinstance(e.func.value, ast.Name) and e.func.value.id in ok_names | {'self'}:
        return True
    return False


@obligation('C16.2', 'MATCH class preservation', 'the same operators',
            'the operators return a new mapping of the same class / ulists: every returned value is built with type(self)(...) or derives from self.copy()',
            axioms=())
def c16_2(ctx):
    r = ctx.repo
    specs = [('_ulist:ulist.%s' % m) for m in ULIST] + [('_dictattr:dictattr.%s' % m) for m in ('__sub__', '__and__', '__add__', '__truediv__', '__or__', 'relabel', 'rename', 'copy')] + \
            ['_dict:Dict.%s' % m for m in ('__call__', 'do', 'if_none', 'copy')]
    for spec in specs:
        fn = r.fn(spec)
        ok_names = set()
        for n in body_nodes(fn.node):
            if isinstance(n, ast.Assign) and isinstance(n.targets[0], ast.Name):
                v = n.value
                if _class_preserving(fn, v, ok_names) or (isinstance(v, ast.IfExp) and _class_preserving(fn, v.body, ok_names) and N(v.orelse) == 'self') \
                        or (isinstance(v, ast.Call) and isinstance(v.func, ast.Name) and v.func.id in ok_names):
                    ok_names.add(n.targets[0].id)
        for r0 in returns_of(fn.node):
            ctx.count(1, fn.where(r0))
            v = r0.value
            good = v is not None and (_class_preserving(fn, v, ok_names) or (isinstance(v, ast.Call) and N(v.func) in ('tree_update',) ))
            if not good:
                ctx.fail(fn, r0, '%s returns `%s`, which is not built with type(self)(...) nor derived from self.copy(): the result loses the class of the receiver' % (fn.qual, U(v) if v is not None else 'None'))


@obligation('C16.3', 'who-may-call', 'every call passing unique = True (the trusted fast path of ulist)',
            'ulist never contains duplicates: the trusted constructor path skips de-duplication, so its argument must be provably duplicate-free at every call site (self inside ulist, a one-element display, the keys of a dict)',
            axioms=('A1',))
def c16_3(ctx):
    n = 0
    for (mod, cls, name), node in ctx.repo.funcs.items():
        for c in ast.walk(node):
            if isinstance(c, ast.Call) and kw(c, 'unique') is not None and const(kw(c, 'unique')) is True:
                from ..core import Fn
                f = Fn(ctx.repo, mod, cls, name, node)
                if cls == 'ulist' and name == '__init__':
                    continue
                n += 1
                ctx.count(1, f.where(c))
                a = c.args[0] if c.args else None
                ok = False
                why = ''
                if a is None:
                    ok = True
                elif cls == 'ulist' and U(a) == 'self':
                    ok = True
                elif isinstance(a, (ast.List, ast.Tuple)) and len(a.elts) <= 1:
                    ok = True
                elif isinstance(a, ast.Call) and isinstance(a.func, ast.Attribute) and a.func.attr == 'keys' and isinstance(a.func.value, ast.Call) and call_name(a.func.value) == 'super':
                    ok = True
                elif isinstance(a, (ast.Set, ast.SetComp)) or (isinstance(a, ast.Call) and call_name(a) in ('set', 'frozenset')):
                    ok = True
                if not ok:
                    ctx.fail(f, c, 'unique = True is passed with `%s`, which is not provably duplicate-free: the constructor then skips de-duplication and the ulist can hold duplicates' % U(a),
                             witness='ulist([1, 3, 2]) + [4, 4]')
    ctx.at_least(3, n, 'unique = True call sites')
    # the constructor: unique => no dedup, else first-occurrence dedup
    fn = ctx.repo.fn('_ulist:ulist.__init__')
    dflt = fn.defaults().get('unique')
    ctx.count(1)
    if dflt is None or const(dflt) is not False:
        ctx.fail(fn, fn.node, 'ulist() trusts its argument by default (unique must default to False)')


@obligation('C16.4', 'MATCH', '_ulist:ulist.__init__ and the set operators',
            'ulist keeps first-occurrence order: de-duplication sorts the distinct elements by their first index; +, |, -, & are the ordered union, difference and intersection',
            axioms=('A1',))
def c16_4(ctx):
    fn = ctx.repo.fn('_ulist:ulist.__init__')
    ctx.count(1, fn.where())
    els = [s for s in fn.body if isinstance(s, ast.If) and N(s.test) == 'unique']
    ctx.need(els, 'unique switch of ulist.__init__ not found')
    body = else_of(els[0])
    txt = [N(s.value) for s in body if isinstance(s, (ast.Assign, ast.Expr))]
    want = NS('super(ulist, self).__init__([v for _, v in sorted([(orig.index(u), u) for u in set(orig)])])')
    if want not in txt:
        ctx.fail(fn, body[0] if body else fn.node, 'de-duplication is not "distinct elements sorted by first index": %s' % txt)
    f = ctx.repo.fn('_ulist:ulist.__add__')
    o = f.params[1]
    ctx.count(1, f.where())
    chain = if_chain([s for s in f.body if isinstance(s, ast.If)][0])
    rows = {N(t) if t is not None else 'else': b for t, b in chain}
    lst = rows.get('is_list(%s)' % o)
    if not lst or N(lst[0].value) != NS('type(self)(super(ulist, self).__add__(%s))' % o):
        ctx.fail(f, lst[0] if lst else f.node, 'u + list is not the de-duplicated concatenation type(self)(list.__add__(self, other)): %s' % (U(lst[0].value) if lst else '?'))
    inn = rows.get(NS('%s in self' % o))
    if not inn or N(inn[0].value) != 'self.copy()':
        ctx.fail(f, f.node, 'u + x for an x already in u is not a copy of u')
    els_ = rows.get('else')
    if not els_ or N(els_[0].value) != NS('type(self)(super(ulist, self).__add__([%s]))' % o):
        ctx.fail(f, f.node, 'u + x for a new element does not append it')
    f = ctx.repo.fn('_ulist:ulist.__sub__')
    o = f.params[1]
    ctx.count(1, f.where())
    comps = [c for c in ast.walk(f.node) if isinstance(c, ast.ListComp)]
    for c in comps:
        if N(c.generators[0].iter) != 'self' or not c.generators[0].ifs or not isinstance(c.generators[0].ifs[0], ast.Compare) or not isinstance(c.generators[0].ifs[0].ops[0], ast.NotIn):
            ctx.fail(f, c, 'difference does not keep the elements of self that are not in the argument, in order: %s' % U(c))
    # a scalar operand is compared as an element (`o not in [other]`), a list operand as a collection (`o not in other`): on every exit
    for p in sym_paths(f):
        if p.term != 'return' or p.value is None:
            continue
        for c in [x for x in ast.walk(p.value) if isinstance(x, ast.ListComp) and x.generators[0].ifs and isinstance(x.generators[0].ifs[0], ast.Compare)]:
            ctx.count(1, f.where(p.node))
            box = N(c.generators[0].ifs[0].comparators[0])
            if p.holds('is_list(%s)' % o, True):
                want_box = o
            elif p.holds('is_list(%s)' % o, False):
                want_box = '[%s]' % o
            else:
                ctx.fail(f, p.node, 'u - x: the elements are tested with `%s` on a path that does not know whether x is a list: a scalar must be compared as an element (`not in [x]`), a list as a collection' % U(c.generators[0].ifs[0]),
                         witness="ulist(['ab', 'a']) - 'abc' must leave both elements ('a' in 'abc' is a substring test)")
                continue
            if box != NS(want_box):
                ctx.fail(f, p.node, 'u - x with x %s list tests `%s`, expected membership in `%s`' % ('a' if want_box == o else 'not a', U(c.generators[0].ifs[0]), want_box),
                         witness="ulist(['ab', 'a']) - 'abc'")
    f = ctx.repo.fn('_ulist:ulist.__and__')
    ctx.count(1, f.where())
    comps = [c for c in ast.walk(f.node) if isinstance(c, ast.ListComp)]
    for c in comps:
        if N(c.generators[0].iter) != 'self' or not c.generators[0].ifs or not isinstance(c.generators[0].ifs[0].ops[0], ast.In):
            ctx.fail(f, c, 'intersection does not keep the elements of self that are in the argument, in order: %s' % U(c))
    m = ctx.repo.method('ulist', '__or__')
    ctx.count(1)
    if m is None or m.name != '__add__':
        f0 = ctx.repo.fn('_ulist:ulist.__add__')
        ctx.fail(f0, f0.node, 'u | x is no longer the same operation as u + x')


@obligation('C16.5', 'PATH progress + raise', '_dict:Dict.__call__',
            'callable values are evaluated in dependency order regardless of keyword order and circular definitions raise ValueError: a callable is independent only if none of its argument names is among ALL callables still pending; '
            'each round evaluates the independent ones and removes exactly them, or raises',
            axioms=('A5',))
def c16_5(ctx):
    fn = ctx.repo.fn('_dict:Dict.__call__')
    loops = [s for s in fn.body if isinstance(s, ast.While)]
    ctx.need(len(loops) == 1, 'dependency loop of Dict.__call__ not found')
    loop = loops[0]
    ctx.count(1, fn.where(loop))
    if N(loop.test) not in (NS('len(callables) > 1'), NS('len(callables) > 0'), NS('len(callables) >= 1'), 'callables', 'len(callables)'):
        ctx.fail(fn, loop, 'loop condition is `%s`' % U(loop.test))
    keys = [s for s in loop.body if isinstance(s, ast.Assign) and U(s.targets[0]) == 'keys']
    if not keys or N(keys[0].value) not in ('set(callables.keys())', 'set(callables)'):
        ctx.fail(fn, keys[0] if keys else loop, 'the pending set is `%s`, expected ALL remaining callables set(callables.keys()): a pending key that already exists in the mapping must still block its dependants (otherwise they read the stale value and cycles go unnoticed)' % (U(keys[0].value) if keys else '?'),
                 witness='Dict(a=1, x=10)(b=lambda a: a+1, a=lambda x: 2*x) must give b == 21')
    ind = [s for s in loop.body if isinstance(s, ast.Assign) and U(s.targets[0]) == 'independent']
    ctx.count(1)
    if not ind or N(ind[0].value) != NS('{key: value for key, value in callables.items() if len(keys & set(getargs(value))) == 0}'):
        ctx.fail(fn, ind[0] if ind else loop, 'independence is `%s`, expected: no argument name among the pending keys' % (U(ind[0].value)[:100] if ind else '?'))
    # raise when nothing is independent
    br = [s for s in loop.body if isinstance(s, ast.If) and N(s.test) in (NS('len(independent) == 0'), 'not independent', 'not len(independent)')]
    ctx.count(1)
    if not br or not any(isinstance(x, ast.Raise) and 'ValueError' in U(x) for x in br[0].body):
        ctx.fail(fn, br[0] if br else loop, 'a round without any independent callable (a cycle) does not raise ValueError')
    else:
        prog = else_of(br[0])
        shr = [s for s in prog if isinstance(s, ast.Assign) and U(s.targets[0]) == 'callables']
        if not shr or N(shr[0].value) != NS('{key: value for key, value in callables.items() if not key in independent}'):
            ctx.fail(fn, shr[0] if shr else br[0], 'the evaluated callables are not removed from the pending ones: %s' % (U(shr[0].value)[:80] if shr else 'no shrinking'))
        ev = [s for s in prog if isinstance(s, ast.For) and N(s.iter) == 'independent.items()']
        if not ev or not any(isinstance(a, ast.Assign) and N(a.targets[0]) == 'res[key]' and 'res.apply(value' in U(a.value) for a in ev[0].body):
            ctx.fail(fn, br[0], 'independent callables are not evaluated on the running result (res.apply) and stored under their key')
    # non-callables first, on a copy
    ctx.count(1)
    first = [s for s in fn.body if isinstance(s, ast.Assign) and U(s.targets[0]) == 'res']
    if not first or N(first[0].value) != 'self.copy()':
        ctx.fail(fn, fn.node, 'Dict.__call__ does not work on a copy of the mapping')
    upd = [c for c in calls_in(fn.node, 'update') if U(c.func.value) == 'res']
    if not upd or N(upd[0].args[0]) != NS('{key: value for key, value in kwargs.items() if not callable(value)}'):
        ctx.fail(fn, fn.node, 'plain values are not stored before the callables are evaluated')
    cb = [s for s in fn.body if isinstance(s, ast.Assign) and U(s.targets[0]) == 'callables']
    if not cb or N(cb[0].value) != NS('{key: value for key, value in kwargs.items() if callable(value)}'):
        ctx.fail(fn, fn.node, 'callables are not exactly the callable keyword values')
    # the last pending one is evaluated after the loop (loop runs while more than one is left)
    if N(loop.test) in (NS('len(callables) > 1'),):
        tail = [s for s in fn.body[fn.body.index(loop) + 1:] if isinstance(s, ast.For) and N(s.iter) == 'callables.items()']
        if not tail:
            ctx.fail(fn, loop, 'the last pending callable is never evaluated')


@obligation('C16.6', 'MATCH', 'dictattr.__getitem__ / __getattr__ / __setattr__ / __and__ / __add__ / relabel',
            'd[k1, k2] returns the list of those values, d[list of keys] a sub-mapping, attribute access mirrors item access, d & keys keeps exactly the present keys, d + other is {**d, **other}',
            axioms=())
def c16_6(ctx):
    r = ctx.repo
    f = r.fn('_dictattr:dictattr.__getitem__')
    v = f.params[1]
    ctx.count(1, f.where())
    t = [s for s in f.body if isinstance(s, ast.If) and N(s.test) == 'isinstance(%s, tuple)' % v]
    if not t or N(t[0].body[0].value) != '[self[v] for v in %s]' % v:
        ctx.fail(f, t[0] if t else f.node, 'd[k1, k2] is not the list [d[k1], d[k2]]')
    rows = if_chain(t[0]) if t else []
    rng = [b for tt, b in rows if tt is not None and N(tt) == 'is_rng(%s)' % v]
    if not rng or N(rng[0][0].value) != NS('type(self)(**{k: self[k] for k in %s})' % v):
        ctx.fail(f, f.node, 'd[list of keys] is not the sub-mapping of those keys with the same class')
    f = r.fn('_dictattr:dictattr.__getattr__')
    ctx.count(1, f.where())
    tr = [s for s in f.body if isinstance(s, ast.Try)]
    if not tr or N(tr[0].body[0].value) != 'self[%s]' % f.params[1]:
        ctx.fail(f, f.node, 'attribute access does not delegate to item access')
    elif not any('AttributeError' in U(x) for h in tr[0].handlers for x in ast.walk(h) if isinstance(x, ast.Raise)):
        ctx.fail(f, tr[0], 'a missing attribute does not raise AttributeError (getattr with default would break)')
    f = r.fn('_dictattr:dictattr.__setattr__')
    ctx.count(1, f.where())
    if not any(isinstance(s, ast.Assign) and N(s.targets[0]) == 'self[%s]' % f.params[1] and U(s.value) == f.params[2] for s in ast.walk(f.node)):
        ctx.fail(f, f.node, 'attribute assignment does not delegate to item assignment')
    f = r.fn('_dictattr:dictattr.__and__')
    ctx.count(1, f.where())
    rr = returns_of(f.node)
    o = f.params[1]
    if not rr or N(rr[-1].value) != NS('type(self)(**{key: value for key, value in self.items() if key in set(self.keys()) & %s})' % o):
        ctx.fail(f, rr[-1] if rr else f.node, 'd & keys is `%s`' % (U(rr[-1].value)[:100] if rr else '?'))
    f = r.fn('_dictattr:dictattr.__add__')
    ctx.count(1, f.where())
    body = [U(s) for s in f.body]
    if body[-3:] != ['res = self.copy()', 'res.update(%s)' % f.params[1], 'return res']:
        ctx.fail(f, f.node, 'd + other is not copy-then-update: %s' % body[-3:])
    f = r.fn('_dictattr:dictattr.__sub__')
    ctx.count(1, f.where())
    first = [s for s in f.body if isinstance(s, ast.Assign) and U(s.targets[0]) == 'res']
    if not first or N(first[0].value) != NS('self.copy() if copy else self'):
        ctx.fail(f, f.node, 'd - keys does not start from a copy of d')
    if const(f.defaults().get('copy')) is not True:
        ctx.fail(f, f.node, 'd - keys no longer copies by default')
    f = r.fn('_dictattr:dictattr.relabel')
    ctx.count(1, f.where())
    rr = returns_of(f.node)
    if not rr or N(rr[-1].value) != NS('type(self)(**{keys.get(k, k): v for k, v in self.items()})'):
        ctx.fail(f, rr[-1] if rr else f.node, 'relabel does not rebuild the mapping with renamed keys and untouched values')


@obligation('C16.7', 'PATH (symbolic summary)', '_dict:Dict.apply',
            'Dict.__call__ evaluates callables with arguments taken BY NAME FROM THE MAPPING: in apply the values of the mapping must override the defaults supplied alongside (default_params.update(self), then call), and a non-callable names an item',
            axioms=())
def c16_7(ctx):
    f = ctx.repo.fn('_dict:Dict.apply')
    fun = f.params[1]
    kwn = f.node.args.kwarg.arg if f.node.args.kwarg else None
    ctx.need(kwn is not None, 'Dict.apply no longer collects default parameters as **kwargs')
    seen = set()
    for p in sym_paths(f):
        if p.term != 'return':
            continue
        ctx.count(1, f.where(p.node))
        if p.holds('callable(%s)' % fun, True):
            seen.add('call')
            upd = [N(e) for e in p.effects]
            if p.text() != NS('kwargs_support(%s)(**%s)' % (fun, kwn)) or NS('%s.update(self)' % kwn) not in upd:
                ctx.fail(f, p.node, 'a callable is evaluated as `%s` after %s: expected %s.update(self) and then kwargs_support(%s)(**%s), so that the values of the mapping override the defaults (and keys need not be strings to be merged)' % (
                    p.text(), upd or 'no merge', kwn, fun, kwn), witness='Dict(a=1).apply(lambda a: a, a=5) == 1')
        elif p.holds('callable(%s)' % fun, False):
            seen.add('item')
            if p.text() != NS('self[%s]' % fun):
                ctx.fail(f, p.node, 'a non-callable is answered with `%s`, expected self[%s]' % (p.text(), fun))
    if not ctx.findings and seen != {'call', 'item'}:
        ctx.fail(f, f.node, 'Dict.apply no longer distinguishes callables from keys')


@obligation('C16.8', 'TABLES (guards by truth table)', '_dictattr:dictattr.__sub__ (single key)',
            'd - k returns a new mapping without k and never touches d: a key that is not there is skipped by TESTING `key in res`, not by deleting and catching KeyError - __delitem__ answers a missing key by trying it as a dotted path into nested branches, which the shallow copy shares with d',
            axioms=())
def c16_8(ctx):
    f = ctx.repo.fn('_dictattr:dictattr.__sub__')
    dels = [n for n in body_nodes(f.node) if isinstance(n, ast.Delete) and any(isinstance(t, ast.Subscript) and U(t.value) == 'res' for t in n.targets)]
    ctx.at_least(1, len(dels), 'del res[...] in dictattr.__sub__')
    pm = parent_map(f.node)
    for d in dels:
        ctx.count(1, f.where(d))
        key = U(d.targets[0].slice)
        cur, guarded = d, False
        while cur in pm and pm[cur] is not f.node:
            par = pm[cur]
            if isinstance(par, ast.If) and cur in par.body and NS('%s in res' % key) in [N(c) for c in conjuncts(par.test)]:
                guarded = True
            if isinstance(par, ast.Try):
                guarded = guarded and False
            cur = par
        if not guarded:
            ctx.fail(f, d, '`del res[%s]` is not guarded by `%s in res`: for an absent key __delitem__ falls back to a dotted-path deletion inside branches shared with the operand' % (key, key),
                     witness="d = dictattr(a=dictattr(b=1)); d - 'a.b' must leave d unchanged")


@obligation('C16.9', 'DEF-USE (cursor of a path walk)', 'loops that walk a key path down nested mappings in _dictattr, _dict, _tree (dictattr.__sub__ / __delitem__ / __getitem__, tree_get, tree_getitem, _tree_setitem)',
            'd - (k1, k2, k3) and the tree functions walk a path with a cursor that is advanced by `cursor = cursor[k]`: whether the next key exists must be asked of the CURSOR (the branch reached so far), '
            'never of the root or of another mapping - beyond depth two the root no longer has the key and the walk stops short (or goes on where it should stop)',
            axioms=())
def c16_9(ctx):
    n = 0
    for mod in ('_dictattr', '_dict', '_tree'):
        for (m, cls, name), node in list(ctx.repo.funcs.items()):
            if m != mod:
                continue
            f = Fn(ctx.repo, m, cls, name, node)
            for loop in [x for x in ast.walk(node) if isinstance(x, ast.For) and isinstance(x.target, ast.Name)]:
                k = loop.target.id
                adv = [s for s in ast.walk(loop) if isinstance(s, ast.Assign) and len(s.targets) == 1 and isinstance(s.targets[0], ast.Name) and isinstance(s.value, ast.Subscript)
                       and isinstance(s.value.value, ast.Name) and s.value.value.id == s.targets[0].id and isinstance(s.value.slice, ast.Name) and s.value.slice.id == k]
                if not adv:
                    continue
                cur = adv[0].targets[0].id
                n += 1
                ctx.count(1, f.where(loop))
                for c in [x for x in ast.walk(loop) if isinstance(x, ast.Compare) and len(x.ops) == 1 and isinstance(x.ops[0], (ast.In, ast.NotIn)) and isinstance(x.left, ast.Name) and x.left.id == k]:
                    box = c.comparators[0]
                    if isinstance(box, ast.Name) and box.id != cur:
                        ctx.fail(f, c, 'the walk advances `%s = %s[%s]` but asks `%s` whether the next key exists: past the first level that is another mapping than the branch reached so far' % (cur, cur, k, U(c)),
                                 witness="dictattr(a = dict(b = dict(c = 1))) - ('a', 'b', 'c') must remove the leaf")
    ctx.at_least(3, n, 'path-walking loops with a cursor')
