"""Helpers shared by the per-property rule files."""
import ast
from ..core import AnalysisError, Fn
from .. import alias as AL
from ..au import *   # noqa

_alias_cache = {}


def alias_summaries(ctx, fns):
    """ALIAS summaries for a list of Fn, cached per Repo instance."""
    A = getattr(ctx.repo, '_alias_analyzer', None)
    if A is None:
        A = ctx.repo._alias_analyzer = AL.Analyzer(ctx.repo)
    keys = [(f.mod, f.cls, f.name) for f in fns]
    A.fixpoint(keys)
    return A, {f.construct: A.summary(k) for f, k in zip(fns, keys)}


def origin_fn(repo, origin):
    (mod, cls, name), lineno, what, stmt = origin
    node = repo.funcs[(mod, cls, name)]
    f = Fn(repo, mod, cls, name, node)
    # locate the statement node by line for reporting
    target = None
    for n in ast.walk(node):
        if isinstance(n, ast.stmt) and getattr(n, 'lineno', None) == lineno and not isinstance(n, (ast.If, ast.For, ast.While, ast.Try, ast.FunctionDef)):
            target = n
            break
    return f, target, stmt


def purity(ctx, fns, allow=lambda f, p, d: False, params=None, what='operand'):
    """every entry must have an empty write set on its parameters (after `allow`); one finding per (entry, origin statement)."""
    A, S = alias_summaries(ctx, fns)
    seen = set()
    for f in fns:
        s = S[f.construct]
        ctx.count(1, f.construct)
        rep = {}
        for p, d, origin, via in s.write_list():
            if params is not None and p not in params:
                continue
            if allow(f, p, d):
                continue
            rep.setdefault((origin), []).append((p, d, via))
        for origin, lst in rep.items():
            of, node, stmt = origin_fn(ctx.repo, origin)
            k = (f.construct, origin[0], stmt)
            if k in seen:
                continue
            seen.add(k)
            depths = sorted({'%s@%d' % (p, d) for p, d, _ in lst})
            via = lst[0][2]
            path = ' -> '.join('%s (line %s)' % v for v in via) if via else 'direct'
            ctx.fail(f, node if of.construct == f.construct and node is not None else f.node,
                     '%s may be written: %s by `%s` in %s:%d (%s); call path: %s' % (what, ','.join(depths), stmt[:90], of.construct, origin[1], origin[2], path),
                     witness=dict(entry=f.construct, writes=depths, writer=of.construct, line=origin[1], path=[list(v) for v in via]),
                     stmt='%s <- %s' % (f.qual, stmt))
    return S


def returns_of(fn_node):
    return [n for n in body_nodes(fn_node) if isinstance(n, ast.Return)]


def single_assign(fn, name):
    """value AST of the unique assignment `name = <expr>` in fn's own body, else None."""
    vals = []
    for n in body_nodes(fn.node):
        if isinstance(n, ast.Assign) and len(n.targets) == 1 and isinstance(n.targets[0], ast.Name) and n.targets[0].id == name:
            vals.append(n.value)
    return vals[0] if len(vals) == 1 else None


def subst_names(e, mapping):
    import copy

    class T(ast.NodeTransformer):
        def visit_Name(self, n):
            if n.id in mapping and isinstance(n.ctx, ast.Load):
                return copy.deepcopy(mapping[n.id])
            return n
    return ast.fix_missing_locations(T().visit(copy.deepcopy(e)))


def decorated_with(repo, f, head, resolve=True):
    """the decorator node whose head (name before any call) is `head` (module aliases followed), else None."""
    for d in f.node.decorator_list:
        h = d.func if isinstance(d, ast.Call) else d
        if isinstance(h, ast.Name):
            nm = h.id
            if nm == head:
                return d
            r = repo.resolve_name(f.mod, nm)
            if isinstance(r, Fn) and r.name == head:
                return d
            if isinstance(r, tuple) and r[0] == 'class' and r[1] == head:
                return d
    return None


def loop_types(repo, f):
    """container types T of a `@loop(T...)` / `@loops(types=(...))` decorator on f (names), or None."""
    for d in f.node.decorator_list:
        if isinstance(d, ast.Call):
            h = d.func
            nm = h.id if isinstance(h, ast.Name) else None
            if nm is None:
                continue
            r = repo.resolve_name(f.mod, nm)
            target = r.name if isinstance(r, Fn) else (r[1] if isinstance(r, tuple) and r[0] == 'class' else nm)
            if target == 'loop':
                return [U(a) for a in d.args]
            if target == 'loops':
                t = kw(d, 'types')
                if t is not None and isinstance(t, (ast.Tuple, ast.List)):
                    return [U(a) for a in t.elts]
    return None


def stmt_index(stmts, node):
    for i, s in enumerate(stmts):
        for n in ast.walk(s):
            if n is node:
                return i
    return -1


def truthiness_uses(fn_node, name):
    """nodes where `name` itself is used for its truth value: `if name`, `not name`, `name or X`, `name and X`, `X if name else Y`, `while name`."""
    out = []
    for n in body_nodes(fn_node):
        tests = []
        if isinstance(n, (ast.If, ast.While, ast.IfExp)):
            tests.append(n.test)
        if isinstance(n, ast.Assert):
            tests.append(n.test)
        if isinstance(n, ast.BoolOp):
            tests.extend(n.values[:-1] if isinstance(n.op, ast.Or) else n.values)
        if isinstance(n, ast.UnaryOp) and isinstance(n.op, ast.Not):
            tests.append(n.operand)
        if isinstance(n, ast.comprehension):
            tests.extend(n.ifs)
        for t in tests:
            for c in (conjuncts(t) if not isinstance(t, ast.BoolOp) or isinstance(t.op, ast.And) else disjuncts(t)):
                if isinstance(c, ast.UnaryOp) and isinstance(c.op, ast.Not):
                    c = c.operand
                # the truth value of as_list(x) / list(x) / len(x) ... is that of x for every empty container (and None for as_list)
                while True:
                    if isinstance(c, ast.Call) and call_name(c) in ('as_list', 'as_tuple', 'list', 'tuple', 'len', 'sorted', 'set') and len(c.args) == 1 and not c.keywords:
                        c = c.args[0]
                    elif isinstance(c, (ast.ListComp, ast.SetComp, ast.GeneratorExp)) and len(c.generators) == 1 and not c.generators[0].ifs and not isinstance(c, ast.GeneratorExp):
                        c = c.generators[0].iter            # [f(e) for e in X] is empty exactly when X is
                    else:
                        break
                if isinstance(c, ast.Name) and c.id == name:
                    out.append(n)
    # de-duplicate preserving order
    seen, res = set(), []
    for n in out:
        if id(n) not in seen:
            seen.add(id(n))
            res.append(n)
    return res


def none_not_falsy(ctx, fn, names, why):
    """NONE-VS-EMPTY: for these names an empty/zero value is meaningful and differs from "not given": absence must be tested with
    `is None` (or `in kwargs`), never through truthiness."""
    pm = parent_map(fn.node)
    for nm in names:
        ctx.count(1, '%s:%s' % (fn.qual, nm))
        for n in truthiness_uses(fn.node, nm):
            st = enclosing_stmt(pm, n) if not isinstance(n, ast.stmt) else n
            ctx.fail(fn, st, '`%s` is tested for truthiness in %s (`%s`): %s' % (nm, fn.qual, U(n.test if hasattr(n, 'test') else n)[:60], why), stmt=(n.test if hasattr(n, 'test') else n))


def single_definition(ctx, fn, name, what):
    """ORDER-PRESERVING: `name` is bound exactly once in fn and never re-ordered in place (sort/reverse) - the order in which its elements
    were collected (argument order) is the order its consumers see."""
    binds = [n for n in body_nodes(fn.node) if isinstance(n, (ast.Assign, ast.AugAssign)) and name in [U(t) for t in (n.targets if isinstance(n, ast.Assign) else [n.target])]]
    ctx.count(1, '%s:%s' % (fn.qual, name))
    if len(binds) > 1:
        for b in binds[1:]:
            ctx.fail(fn, b, '`%s` is rebound (`%s`) after it was collected: %s' % (name, U(b)[:80], what))
    for c in calls_in(fn.node):
        if isinstance(c.func, ast.Attribute) and U(c.func.value) == name and c.func.attr in ('sort', 'reverse'):
            ctx.fail(fn, c, '`%s` is re-ordered in place: %s' % (name, what))
    return binds



def init_forwarding(ctx, cls):
    """every keyword handed by <cls>.__init__ to the base initialiser must be the parameter itself (or a documented normalisation);
    `param or X` silently replaces meaningful falsy values (0, 0.0, '', [])."""
    mod, node = ctx.repo.classes[cls]
    init = ctx.repo.funcs.get((mod, cls, '__init__'))
    if init is None:
        return
    from ..core import Fn
    f = Fn(ctx.repo, mod, cls, '__init__', init)
    sup = [x for x in ast.walk(init) if isinstance(x, ast.Call) and isinstance(x.func, ast.Attribute) and x.func.attr == '__init__' and isinstance(x.func.value, ast.Call) and call_name(x.func.value) == 'super']
    if not sup:
        return
    for k in sup[0].keywords:
        if k.arg is None:
            continue
        ctx.count(1, '%s.%s' % (cls, k.arg))
        v = k.value
        if isinstance(v, ast.Name) and v.id == k.arg:
            continue
        if isinstance(v, ast.Constant) and v.value is None:
            continue
        if isinstance(v, ast.Call) and call_name(v) in ('as_tuple', 'as_list') and len(v.args) == 1 and U(v.args[0]) == k.arg:
            continue
        if isinstance(v, ast.BoolOp) and isinstance(v.op, ast.Or) and U(v.values[0]) == k.arg:
            ctx.fail(f, sup[0], '%s.__init__ stores `%s = %s`: a falsy but meaningful value of %s (0, 0.0, empty) is silently replaced' % (cls, k.arg, U(v), k.arg), stmt=v)
            continue
        if isinstance(v, ast.Name) and v.id in f.params:
            ctx.fail(f, sup[0], '%s.__init__ stores `%s = %s` (another parameter)' % (cls, k.arg, v.id), stmt=v)
            continue
        raise AnalysisError('unrecognised value for %s in %s.__init__: %s' % (k.arg, cls, U(v)))


def expect_guards(ctx, fn, table, where=None):
    """table = [(test formula, canonical text of the first statement of the guarded block, what it means)].
    For each row there must be an `if` (anywhere in fn, or among `where`) whose test is propositionally equivalent to the formula and whose
    block starts with that statement. A guard whose block matches but whose test is not equivalent is reported with the falsifying assignment."""
    ifs = [s for s in (where if where is not None else ast.walk(fn.node)) if isinstance(s, ast.If)]
    from .. import au as _au
    _au.LIST_NAMES.clear()
    _au.LIST_NAMES.update(_au.container_names(fn.node))
    try:
        _expect_guards(ctx, fn, table, ifs)
    finally:
        _au.LIST_NAMES.clear()


def _expect_guards(ctx, fn, table, ifs):
    for formula, action, meaning in table:
        ctx.count(1, '%s: %s' % (fn.qual, formula))
        from ..normal import flatten_block
        def NT(x):
            try:
                return ' '.join(U(canon(x)).split())
            except Exception:
                return ' '.join(U(x).split())
        act = [NT(a) for a in flatten_block(ast.parse(action).body)]      # same else-elimination as the analysed tree
        cands = []
        acts = [act]
        # `if g: T = E` ... `return T` as the function's last statement is the same as `if g: return E`
        pa = flatten_block(ast.parse(action).body)
        last = fn.body[-1] if fn.body else None
        if len(pa) == 1 and isinstance(pa[0], ast.Assign) and isinstance(pa[0].targets[0], ast.Name) and isinstance(last, ast.Return) and U(last.value) == pa[0].targets[0].id:
            acts.append([NT(ast.Return(value=pa[0].value))])
        for s in ifs:
            for test, body in if_chain(s):
                if test is not None and body and any([NT(b) for b in body[:len(a_)]] == a_ for a_ in acts):
                    cands.append((s, test))
        if not cands:
            ctx.fail(fn, fn.node, '%s: no branch doing `%s` (%s)' % (fn.qual, action, meaning), stmt='%s lacks: if %s: %s' % (fn.qual, formula, action))
            continue
        good = False
        bad = None
        for s, test in cands:
            try:
                ok, w = prop_equiv(test, formula)
            except AnalysisError:
                ok, w = False, None
            if ok:
                good = True
            else:
                bad = (s, test, w)
        if not good:
            s, test, w = bad
            ctx.fail(fn, s, '`%s` is done when `%s`, expected when `%s` (%s)' % (action, U(test), formula, meaning), witness=w, stmt=test)


def expect_statements(ctx, fn, table):
    """table = [(canonical statement text, what it means)]: a statement with that canonical text (after normalisation) is somewhere in fn"""
    def NT(x):
        try:
            return ' '.join(U(canon(x)).split())
        except Exception:
            return ' '.join(U(x).split())
    have = {}
    for s in ast.walk(fn.node):
        if isinstance(s, ast.stmt) and not isinstance(s, (ast.If, ast.For, ast.While, ast.Try, ast.With, ast.FunctionDef, ast.ClassDef)):
            have.setdefault(NT(s), s)
    for text, meaning in table:
        ctx.count(1, '%s: %s' % (fn.qual, text))
        if NT(ast.parse(text).body[0]) not in have:
            ctx.fail(fn, fn.node, 'no statement `%s` (%s) in %s' % (text, meaning, fn.qual))


def main_chain(block):
    """the dispatch chain of a block: the longest if/elif/else chain among its top-level `if`s (after else-elimination a chain of
    returning branches is a run of sibling ifs, read as one chain from its first member)"""
    best = None
    for n in block:
        if isinstance(n, ast.If):
            ch = if_chain(n)
            if best is None or len(ch) > len(best):
                best = ch
    return best


def flip_negated_tail(chain, recognised):
    """`if not T: A else: B` is `if T: B else: A`: when the last tested member of a chain is the negation of a test the rule recognises
    (recognised(test) true) and an else-branch follows, return the chain with that member flipped; otherwise the chain unchanged."""
    if len(chain) >= 2 and chain[-1][0] is None and chain[-2][0] is not None:
        t = chain[-2][0]
        nt = negate(t)
        if not recognised(t) and recognised(nt):
            return chain[:-2] + [(ast.fix_missing_locations(ast.copy_location(nt, t)), chain[-1][1]), (None, chain[-2][1])]
    return chain


# ---------------------------------------------------------------------------------------- symbolic path summaries
class SymPath:
    """one path of a function with every local replaced by the expression it holds on that path:
    conds = [(canonical text of the substituted test, polarity, node)], value = substituted returned/raised expression (AST or None),
    term = 'return' | 'raise' | 'fall', effects = substituted expression statements / stores met on the way (ASTs)"""
    def __init__(self, conds, value, term, effects, node, env):
        self.conds, self.value, self.term, self.effects, self.node, self.env = conds, value, term, effects, node, env

    def text(self):
        return N(self.value) if self.value is not None else None

    def holds(self, text, polarity=True):
        """is the atom (canonical text, after and/or/not decomposition) assumed with this polarity on the path?"""
        want = NS(text)
        for t, pol, _ in self.atoms():
            if t == want and pol == polarity:
                return True
            try:
                if t == N(negate(ast.parse(want, mode='eval').body)) and pol != polarity:
                    return True
            except Exception:
                pass
        return False

    def atoms(self):
        out = []

        def add(e, pol):
            if isinstance(e, ast.UnaryOp) and isinstance(e.op, ast.Not):
                add(e.operand, not pol)
            elif isinstance(e, ast.BoolOp) and isinstance(e.op, ast.And) and pol:
                for v in e.values:
                    add(v, True)
            elif isinstance(e, ast.BoolOp) and isinstance(e.op, ast.Or) and not pol:
                for v in e.values:
                    add(v, False)
            else:
                out.append((N(e), pol, e))
        for t, pol, e in self.conds:
            add(e, pol)
        return out

    def __repr__(self):
        return '<SymPath [%s] -> %s %s>' % (' & '.join(('' if p else 'not ') + t for t, p, _ in self.conds), self.term, self.text())


def sym_paths(fn, bound=512):
    """Path summaries of a (loop-free part of a) function, insensitive to how it is spelled: temporaries are substituted by their values,
    conditional expressions in returned values and in assigned values are split into paths like if-statements, else/elif/early-return
    are the same thing. Names assigned inside loops or by statements the substitution does not model become opaque (`name`@line)."""
    node = fn.node if hasattr(fn, 'node') else fn
    out = []
    looped = set()
    for n in ast.walk(node):
        if isinstance(n, (ast.For, ast.While, ast.AsyncFor)):
            for m in ast.walk(n):
                if isinstance(m, ast.Name) and isinstance(m.ctx, ast.Store):
                    looped.add(m.id)

    def sub(e, env):
        if e is None:
            return None
        return subst_names(e, env) if env else e

    def split_value(e, conds, depth=0):
        """[(conds, expr)] with conditional expressions unfolded into paths: at the top level, and (one at a time, up to 3) where they are
        an argument / operand inside the expression - f(a if c else b) is f(a) when c and f(b) otherwise"""
        if isinstance(e, ast.IfExp):
            return split_value(e.body, conds + [(N(e.test), True, e.test)], depth) + split_value(e.orelse, conds + [(N(e.test), False, e.test)], depth)
        if depth < 3 and e is not None:
            inner = [n for n in ast.walk(e) if isinstance(n, ast.IfExp)]
            # not inside lambdas / comprehensions (evaluated later or repeatedly)
            deferred = {id(m) for n in ast.walk(e) if isinstance(n, (ast.Lambda, ast.ListComp, ast.SetComp, ast.DictComp, ast.GeneratorExp)) for m in ast.walk(n)}
            inner = [n for n in inner if id(n) not in deferred]
            if inner:
                tgt = inner[0]

                class R(ast.NodeTransformer):
                    def __init__(self, arm):
                        self.arm = arm

                    def visit_IfExp(self, n):
                        if n is tgt:
                            return n.body if self.arm else n.orelse
                        return self.generic_visit(n)
                import copy as _copy
                out_ = []
                for arm in (True, False):
                    e2 = _copy.deepcopy(e)
                    # locate the copy of tgt by position in the walk
                    idx = [i for i, n in enumerate(ast.walk(e)) if n is tgt][0]
                    t2 = list(ast.walk(e2))[idx]

                    class R2(ast.NodeTransformer):
                        def visit_IfExp(self, n):
                            if n is t2:
                                return n.body if arm else n.orelse
                            return self.generic_visit(n)
                    e3 = R2().visit(e2)
                    out_ += split_value(e3, conds + [(N(tgt.test), arm, tgt.test)], depth + 1)
                return out_
        return [(conds, e)]
    for p in paths(node.body, bound=bound):
        states = [([], {}, [])]          # (conds, env, effects)
        for item in p.seq:
            nxt = []
            for conds, env, eff in states:
                if item[0] == 'c':
                    t, pol = item[1], item[2]
                    if isinstance(t, ast.AST):
                        st = sub(t, env)
                        nxt.append((conds + [(N(st), pol, st)], env, eff))
                    else:
                        nxt.append((conds, env, eff))
                    continue
                s = item[1]
                if isinstance(s, ast.Assign) and len(s.targets) == 1 and isinstance(s.targets[0], ast.Name):
                    nm = s.targets[0].id
                    if nm in looped:
                        e2 = dict(env); e2.pop(nm, None)
                        nxt.append((conds, e2, eff))
                        continue
                    for c2, v in split_value(sub(s.value, env), conds):
                        e2 = dict(env)
                        e2[nm] = v
                        nxt.append((c2, e2, eff))
                elif isinstance(s, ast.Assign) and len(s.targets) == 1 and isinstance(s.targets[0], ast.Tuple) and isinstance(s.value, ast.Tuple) \
                        and len(s.targets[0].elts) == len(s.value.elts) and all(isinstance(t, ast.Name) for t in s.targets[0].elts):
                    e2 = dict(env)
                    vals = [sub(v, env) for v in s.value.elts]
                    for t, v in zip(s.targets[0].elts, vals):
                        e2[t.id] = v
                    nxt.append((conds, e2, eff))
                elif isinstance(s, (ast.Assign, ast.AugAssign, ast.AnnAssign, ast.For, ast.While, ast.With, ast.AsyncFor, ast.AsyncWith, ast.Delete, ast.Import, ast.ImportFrom)):
                    e2 = dict(env)
                    for m in ast.walk(s):
                        if isinstance(m, ast.Name) and isinstance(m.ctx, (ast.Store, ast.Del)):
                            e2.pop(m.id, None)
                    if isinstance(s, (ast.Assign, ast.AugAssign)):
                        tg = s.targets[0] if isinstance(s, ast.Assign) else s.target
                        if isinstance(tg, (ast.Subscript, ast.Attribute)):
                            eff = eff + [ast.Assign(targets=[sub(tg, env)], value=sub(s.value, env))]
                            root = tg
                            while isinstance(root, (ast.Subscript, ast.Attribute)):
                                root = root.value
                            if isinstance(root, ast.Name) and root.id != 'self':     # the object the name holds was modified in place
                                e2[root.id] = ast.Name(id='%s__modified_at_%d' % (root.id, getattr(s, 'lineno', 0)), ctx=ast.Load())
                    nxt.append((conds, e2, eff))
                elif isinstance(s, ast.Expr):
                    nxt.append((conds, env, eff + ([sub(s.value, env)] if not isinstance(s.value, ast.Constant) else [])))
                else:
                    nxt.append((conds, env, eff))
            states = nxt
            if len(states) > bound:
                raise AnalysisError('symbolic path bound exceeded in %s' % getattr(fn, 'qual', '?'))
        for conds, env, eff in states:
            if p.term in ('return', 'raise') and p.value is not None:
                for c2, v in split_value(sub(p.value, env), conds):
                    out.append(SymPath(c2, v, p.term, eff, p.node, env))
            else:
                out.append(SymPath(conds, None, p.term if p.term in ('return', 'raise') else 'fall', eff, p.node, env))
    return out
