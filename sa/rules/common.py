"""Helpers shared by the per-property rule files."""
import ast
from ..core import AnalysisError, Fn
from .. import alias as AL
from ..au import *   # noqa

_alias_cache = {}


def alias_summaries(ctx, fns):
    """ALIAS summaries for a list of Fn, cached per Repo instance."""
    A = getattr(ctx.repo, '_alias_analyzer', None)
    if A is None:
        A = ctx.repo._alias_analyzer = AL.Analyzer(ctx.repo)
    keys = [(f.mod, f.cls, f.name) for f in fns]
    A.fixpoint(keys)
    return A, {f.construct: A.summary(k) for f, k in zip(fns, keys)}


def origin_fn(repo, origin):
    (mod, cls, name), lineno, what, stmt = origin
    node = repo.funcs[(mod, cls, name)]
    f = Fn(repo, mod, cls, name, node)
    # locate the statement node by line for reporting
    target = None
    for n in ast.walk(node):
        if isinstance(n, ast.stmt) and getattr(n, 'lineno', None) == lineno and not isinstance(n, (ast.If, ast.For, ast.While, ast.Try, ast.FunctionDef)):
            target = n
            break
    return f, target, stmt


def purity(ctx, fns, allow=lambda f, p, d: False, params=None, what='operand'):
    """every entry must have an empty write set on its parameters (after `allow`); one finding per (entry, origin statement)."""
    A, S = alias_summaries(ctx, fns)
    seen = set()
    for f in fns:
        s = S[f.construct]
        ctx.count(1, f.construct)
        rep = {}
        for p, d, origin, via in s.write_list():
            if params is not None and p not in params:
                continue
            if allow(f, p, d):
                continue
            rep.setdefault((origin), []).append((p, d, via))
        for origin, lst in rep.items():
            of, node, stmt = origin_fn(ctx.repo, origin)
            k = (f.construct, origin[0], stmt)
            if k in seen:
                continue
            seen.add(k)
            depths = sorted({'%s@%d' % (p, d) for p, d, _ in lst})
            via = lst[0][2]
            path = ' -> '.join('%s (line %s)' % v for v in via) if via else 'direct'
            ctx.fail(f, node if of.construct == f.construct and node is not None else f.node,
                     '%s may be written: %s by `%s` in %s:%d (%s); call path: %s' % (what, ','.join(depths), stmt[:90], of.construct, origin[1], origin[2], path),
                     witness=dict(entry=f.construct, writes=depths, writer=of.construct, line=origin[1], path=[list(v) for v in via]),
                     stmt='%s <- %s' % (f.qual, stmt))
    return S


def returns_of(fn_node):
    return [n for n in body_nodes(fn_node) if isinstance(n, ast.Return)]


def single_assign(fn, name):
    """value AST of the unique assignment `name = <expr>` in fn's own body, else None."""
    vals = []
    for n in body_nodes(fn.node):
        if isinstance(n, ast.Assign) and len(n.targets) == 1 and isinstance(n.targets[0], ast.Name) and n.targets[0].id == name:
            vals.append(n.value)
    return vals[0] if len(vals) == 1 else None


def subst_names(e, mapping):
    import copy

    class T(ast.NodeTransformer):
        def visit_Name(self, n):
            if n.id in mapping and isinstance(n.ctx, ast.Load):
                return copy.deepcopy(mapping[n.id])
            return n
    return ast.fix_missing_locations(T().visit(copy.deepcopy(e)))


def decorated_with(repo, f, head, resolve=True):
    """the decorator node whose head (name before any call) is `head` (module aliases followed), else None."""
    for d in f.node.decorator_list:
        h = d.func if isinstance(d, ast.Call) else d
        if isinstance(h, ast.Name):
            nm = h.id
            if nm == head:
                return d
            r = repo.resolve_name(f.mod, nm)
            if isinstance(r, Fn) and r.name == head:
                return d
            if isinstance(r, tuple) and r[0] == 'class' and r[1] == head:
                return d
    return None


def loop_types(repo, f):
    """container types T of a `@loop(T...)` / `@loops(types=(...))` decorator on f (names), or None."""
    for d in f.node.decorator_list:
        if isinstance(d, ast.Call):
            h = d.func
            nm = h.id if isinstance(h, ast.Name) else None
            if nm is None:
                continue
            r = repo.resolve_name(f.mod, nm)
            target = r.name if isinstance(r, Fn) else (r[1] if isinstance(r, tuple) and r[0] == 'class' else nm)
            if target == 'loop':
                return [U(a) for a in d.args]
            if target == 'loops':
                t = kw(d, 'types')
                if t is not None and isinstance(t, (ast.Tuple, ast.List)):
                    return [U(a) for a in t.elts]
    return None


def stmt_index(stmts, node):
    for i, s in enumerate(stmts):
        for n in ast.walk(s):
            if n is node:
                return i
    return -1
