"""C01 dictable behaves as a rectangular list of records (structural necessary conditions)."""
import ast
from ..core import obligation, AnalysisError
from .. import flow
from .common import *

PURE_DICTABLE = ['__getitem__', 'get', '__iter__', 'inc', 'exc', 'one_or_none', 'apply', 'do', 'concat', 'sort', '__add__', '__and__',
                 'listby', 'unlist', 'groupby', 'ungroup', 'join', 'xor', 'xyz', 'unpivot', 'if_else', '_listby']
PURE_DICT = ['__call__', 'do', 'apply', 'copy', 'if_none', '__getitem__']
PURE_DICTATTR = ['__sub__', '__and__', '__add__', '__or__', 'relabel', 'rename', 'copy', '__getitem__', '__truediv__']
# in place by contract (one line of reason each)
INPLACE = {'__init__': 'constructor', '__setitem__': 'column assignment is in place by contract', '__setattr__': 'attribute form of column assignment',
           '__delattr__': 'column deletion is in place', '__delitem__': 'column deletion is in place', 'update': 'dict.update contract',
           'if_none': 'returns self after filling (documented idiom rs = rs.if_none(...)); not in the property operation list',
           '__setstate__': 'unpickling'}


@obligation('C01.1', 'ALIAS purity', 'value-returning methods of dictable / Dict / dictattr',
            'operations that return a new table never alter their operands: a write to self/other at depth 0 (mapping) or 1 (column list) is visible to the caller',
            axioms=('A1', 'A5'))
def c01_1(ctx):
    r = ctx.repo
    fns = [r.fn('_dictable:dictable.%s' % m) for m in PURE_DICTABLE]
    fns += [r.fn('_dict:Dict.%s' % m) for m in PURE_DICT] + [r.fn('_dictattr:dictattr.%s' % m) for m in PURE_DICTATTR]
    ctx.at_least(30, len(fns), 'pure table operations')
    # C16 owns the nested-deletion finding of dictattr.__sub__ (depth >= 1 through a tuple key); here tables have flat cells
    def allow(f, p, d):
        return f.cls == 'dictattr' and f.name == '__sub__' and d >= 1
    purity(ctx, fns, allow=allow)


@obligation('C01.2', 'ALIAS column-list immutability', 'every method of dictable (in-place ones included) and the module helpers of _dictable/_perdictable',
            'copy(), d[list_of_names] and __setitem__ share column lists between tables; a single in-place append/sort/+= on a column corrupts another table',
            axioms=('A1',))
def c01_2(ctx):
    r = ctx.repo
    fns = [f for f in r.methods('dictable')]
    fns += [r.fn('_perdictable:%s' % n) for n in ('join', '_item', '_join_dictable_with_defaults')]
    ctx.at_least(35, len(fns), 'dictable methods')

    def allow(f, p, d):
        if d == 0:
            return True      # depth 0 = the mapping itself; purity of value-returning methods is C01.1
        # rows handed to user callbacks / cells are not column lists: only `self`/`other`/table-typed params are tables
        if f.name in ('__delitem__', '__delattr__'):
            return True      # tuple-path deletion is the inherited dictattr tree API; column deletion by name is a depth-0 write
        return p not in ('self', 'other', 'd', 'cls', 'tbl_def1', 'tbl_def2', 'inputs')
    # perdictable._item writes a *column* (depth 0 of the table = allowed in place there), join reaches it at inputs@2 = table depth 0
    def allow2(f, p, d):
        if f.cls is None and f.name == 'join' and p == 'inputs':
            return True      # inputs@2 is depth 0 of an input table: perdictable._item adds a renamed column (C20 scope, not a column-list write)
        return allow(f, p, d)
    purity(ctx, fns, allow=allow2, what='column list of a table')
    # positive control: the fixture must be reported by the same rule on every run (zero-count rule)
    from ..core import Repo
    import os
    fx = open(os.path.join(os.path.dirname(os.path.dirname(__file__)), 'fixtures', 'c01_2_column_append.py')).read()
    src = r.src['_dictable'] + '\n' + fx
    r2 = Repo(root=r.root, overrides={'_dictable': src})
    from ..core import Ctx
    c2 = Ctx(r2, ctx.tier)
    purity(c2, [r2.fn('_dictable:_fixture_c01_2')], allow=lambda f, p, d: d == 0, what='column list of a table')
    ctx.need(len(c2.findings) >= 1, 'positive control for C01.2 no longer fires: the column-list rule has gone blind')
    ctx.fact('positive_control', 'fixture c01_2_column_append reported: %s' % c2.findings[0].msg[:80])


def _guard_atoms(fn):
    """canonical atoms of dictable.__setitem__ after inlining single-assignment locals (n = len(self))."""
    defs = {}
    for nm in ('n',):
        v = single_assign(fn, nm)
        if v is not None:
            defs[nm] = v
    return defs


@obligation('C01.3', 'PATH+PROP store guard', '_dictable:dictable.__setitem__',
            'an assignment whose length does not fit must be rejected with ValueError and leave the table rectangular: on every path reaching the base-class store, (no columns) or len(stored) == len(self) must be valid',
            axioms=('A1',))
def c01_3(ctx):
    fn = ctx.repo.fn('_dictable:dictable.__setitem__')
    value = fn.params[2] if len(fn.params) >= 3 else 'value'
    # n := the local holding len(self)
    nname = None
    for n in body_nodes(fn.node):
        if isinstance(n, ast.Assign) and len(n.targets) == 1 and isinstance(n.targets[0], ast.Name) and N(n.value) == 'len(self)':
            nname = n.targets[0].id
    inl = {nname: ast.parse('len(self)').body[0].value} if nname else {}

    def is_store(s):
        for c in ast.walk(s):
            if isinstance(c, ast.Call) and isinstance(c.func, ast.Attribute) and c.func.attr == '__setitem__' and \
                    isinstance(c.func.value, ast.Call) and call_name(c.func.value) == 'super':
                return c
        return None
    A = NS('len(%s) == len(self)' % value)
    B = NS('len(%s) == 1' % value)
    KFORMS = tuple(NS(x) for x in ('len(self.keys()) == 0', 'not self.keys()', 'not len(self.keys())', 'len(self.keys()) < 1', 'len(self.columns) == 0'))
    ps = paths(fn.body)
    nstore = nraise = 0
    for p in ps:
        store = None
        rebind = False
        unknown_rebind = None
        seen_cond_after = False
        for s in p.stmts:
            if isinstance(s, ast.Assign) and len(s.targets) == 1 and isinstance(s.targets[0], ast.Name) and s.targets[0].id == value:
                v = subst_names(s.value, inl)
                if N(v) in (NS('%s * len(self)' % value), NS('len(self) * %s' % value)):
                    rebind = True
                elif U(v) == value:
                    pass
                elif isinstance(v, ast.Call) and len(v.args) == 1 and U(v.args[0]) == value and not p.conds[:0]:
                    # normalisation value = _value(value) before any length test: resets nothing we track
                    pass
                else:
                    unknown_rebind = s
            c = is_store(s)
            if c is not None:
                store = (s, c)
        if p.term == 'raise':
            nraise += 1
            continue
        if store is None:
            continue
        nstore += 1
        ctx.count(1)
        if unknown_rebind is not None:
            raise AnalysisError('unrecognised rebinding of `%s` before the store: %s' % (value, U(unknown_rebind)))
        # the stored expression must be the (possibly rebound) value
        stored = store[1].args[1] if len(store[1].args) >= 2 else None
        if stored is None or U(stored) != value:
            raise AnalysisError('base-class store does not pass `%s`: %s' % (value, U(store[0])))
        conds = [(subst_names(c, inl), pol) for c, pol in p.conds if isinstance(c, ast.AST)]
        atoms = []
        for c, pol in conds:
            for a in bool_atoms(c):
                na = N(negate(ast.parse(a, mode='eval').body))
                if a not in atoms and na not in atoms:      # `len(v) != n` is the negation of `len(v) == n`, not a second atom
                    atoms.append(a)

        def val(env, text):
            from ..au import _atom_key
            k_, pos_ = _atom_key(ast.parse(text, mode='eval').body, N)
            if k_ in env:
                return env[k_] if pos_ else not env[k_]
            if text in env:
                return env[text]
            na = N(negate(ast.parse(text, mode='eval').body))
            return (not env[na]) if na in env else False
        bad = []
        import itertools
        if len(atoms) > 10:
            raise AnalysisError('too many atoms in __setitem__ guard')
        for bits in itertools.product([False, True], repeat=len(atoms)):
            env = dict(zip(atoms, bits))
            if not all(bool_eval(c, env) == pol for c, pol in conds):
                continue
            a = val(env, A)
            b = val(env, B)
            k = any(val(env, f) for f in KFORMS)
            ok = k or (b if rebind else a)
            if not ok:
                bad.append(env)
        if bad:
            ctx.fail(fn, store[0], 'a value whose length fits neither the table nor 1 reaches the column store %s' % ('after broadcasting' if rebind else 'unchanged'),
                     witness={'path': p.cond_texts(), 'assignment': {k: v for k, v in bad[0].items()}})
    ctx.fact('storing_paths', nstore)
    ctx.fact('raising_paths', nraise)
    if nstore == 0:
        raise AnalysisError('no path of __setitem__ reaches the base-class store')
    if nraise == 0 and not ctx.findings:
        ctx.fail(fn, fn.node, 'no path of __setitem__ raises: a misfitting length can never be rejected')


@obligation('C01.4', 'MATCH+def-use', '_dictable:dictable.__init__',
            'construction reconciles lengths: n must be computed from all columns and a column is broadcast to n exactly when its length is 1',
            axioms=('A1',))
def c01_4(ctx):
    fn = ctx.repo.fn('_dictable:dictable.__init__')
    lens_sites = [(s, c) for s in body_nodes(fn.node) if isinstance(s, ast.Assign) for c in [s.value]
                  if isinstance(c, ast.Call) and call_name(c) == 'lens']
    if not lens_sites:
        ctx.fail(fn, fn.node, 'constructor no longer reconciles column lengths through lens(...)')
        return
    s, c = lens_sites[-1]
    nname = U(s.targets[0])
    ok_arg = len(c.args) == 1 and isinstance(c.args[0], ast.Starred) and isinstance(c.args[0].value, ast.Call) and \
        isinstance(c.args[0].value.func, ast.Attribute) and c.args[0].value.func.attr == 'values' and isinstance(c.args[0].value.func.value, ast.Name)
    ctx.count(1, fn.where(s))
    if not ok_arg:
        ctx.fail(fn, s, 'common length is not computed from all columns (expected lens(*K.values()))')
        return
    K = c.args[0].value.func.value.id
    # the mapping handed to the base initialiser
    sup = [x for x in body_nodes(fn.node) if isinstance(x, ast.Call) and isinstance(x.func, ast.Attribute) and x.func.attr == '__init__'
           and isinstance(x.func.value, ast.Call) and call_name(x.func.value) == 'super']
    ctx.need(len(sup) == 1 and len(sup[0].args) == 1, 'base initialiser call not found in dictable.__init__')
    arg = sup[0].args[0]
    comp = arg
    if isinstance(arg, ast.Name):
        last = None
        for x in fn.body:
            if x.lineno > s.lineno and isinstance(x, ast.Assign) and any(U(t) == arg.id for t in x.targets):
                last = x
        ctx.need(last is not None, 'no assignment to %s between lens(...) and the base initialiser' % arg.id)
        comp = last.value
        stmt = last
    else:
        stmt = sup[0]
    ctx.count(1, fn.where(stmt))
    if not (isinstance(comp, ast.DictComp) and len(comp.generators) == 1 and N(comp.generators[0].iter) == '%s.items()' % K):
        ctx.fail(fn, stmt, 'mapping passed to the base initialiser is not a comprehension over %s.items() (the columns whose lengths were reconciled)' % K)
        return
    tgt = comp.generators[0].target
    ctx.need(isinstance(tgt, ast.Tuple) and len(tgt.elts) == 2, 'unexpected comprehension target')
    v = U(tgt.elts[1])
    val = comp.value
    good = False
    if isinstance(val, ast.IfExp):
        t, a, b = N(val.test), N(val.body), N(val.orelse)
        mul = ('%s * %s' % (v, nname), '%s * %s' % (nname, v))
        if t == NS('len(%s) == 1' % v) and a in mul and b == v:
            good = True
        if t == NS('len(%s) != 1' % v) and b in mul and a == v:
            good = True
    if not good:
        ctx.fail(fn, stmt, 'column value is not `%s * %s if len(%s) == 1 else %s`: broadcasting happens under a wrong guard or not at all' % (v, nname, v, v),
                 witness=U(val))
    # no rebinding of K between lens and the comprehension
    for x in fn.body:
        if s.lineno < x.lineno < stmt.lineno and isinstance(x, (ast.Assign, ast.AugAssign)):
            tg = x.targets if isinstance(x, ast.Assign) else [x.target]
            if any(U(t) == K for t in tg):
                ctx.fail(fn, x, '%s is rebound between the length reconciliation and the store' % K)


@obligation('C01.5', 'PATH guard', '_zip:lens',
            'two different lengths other than 1 must be rejected with ValueError; length 1 broadcasts; otherwise the single length is returned',
            axioms=('A1',))
def c01_5(ctx):
    fn = ctx.repo.fn('_zip:lens')
    raises = [n for n in body_nodes(fn.node) if isinstance(n, ast.Raise)]
    if not raises:
        ctx.fail(fn, fn.node, 'lens never raises: mismatching lengths are not rejected')
        return
    pm = parent_map(fn.node)
    S = None
    for rz in raises:
        ctx.count(1, fn.where(rz))
        if 'ValueError' not in U(rz.exc):
            ctx.fail(fn, rz, 'length mismatch raises %s, not ValueError' % U(rz.exc)[:40])
        par = pm.get(rz)
        if not isinstance(par, ast.If):
            raise AnalysisError('raise in lens is not directly guarded by an if')
        t = N(par.test)
        import re
        m = re.fullmatch(r'1 < len\((\w+)\)|2 <= len\((\w+)\)', t)
        if not m:
            ctx.fail(fn, par, 'mismatch guard is `%s`, expected `len(S) > 1` over the set S of lengths other than 1' % U(par.test))
            return
        S = m.group(1) or m.group(2)
    sdef = single_assign(fn, S)
    ctx.need(sdef is not None, 'definition of %s not found' % S)
    ctx.count(1)
    okS = False
    L = None
    if isinstance(sdef, ast.BinOp) and isinstance(sdef.op, ast.Sub) and N(sdef.right) in ('{1}', 'set([1])', 'set((1,))') and isinstance(sdef.left, ast.Call) and call_name(sdef.left) == 'set':
        okS = True
        L = sdef.left.args[0]
    elif isinstance(sdef, (ast.SetComp,)) or (isinstance(sdef, ast.Call) and call_name(sdef) == 'set' and sdef.args and isinstance(sdef.args[0], (ast.ListComp, ast.GeneratorExp))):
        comp = sdef if isinstance(sdef, ast.SetComp) else sdef.args[0]
        if any(N(i).endswith('!= 1') or N(i).startswith('1 !=') for g in comp.generators for i in g.ifs):
            okS = True
            L = comp
    if not okS:
        ctx.fail(fn, fn.node, 'the set of lengths is `%s`: length 1 is not excluded before the mismatch test (a length-1 column could not broadcast)' % U(sdef))
        return
    # L covers every argument
    if isinstance(L, ast.Name):
        L = single_assign(fn, L.id)
    vararg = fn.node.args.vararg.arg if fn.node.args.vararg else None
    ctx.need(vararg is not None, 'lens has no *values parameter')
    if not (isinstance(L, (ast.ListComp, ast.GeneratorExp, ast.SetComp)) and len(L.generators) == 1 and U(L.generators[0].iter) == vararg
            and isinstance(L.elt, ast.Call) and call_name(L.elt) in ('len0', 'len') and not [i for i in L.generators[0].ifs if '!= 1' not in N(i)]):
        ctx.fail(fn, fn.node, 'lengths are not taken over all of *%s: %s' % (vararg, U(L)[:80]))
    # final return
    rets = returns_of(fn.node)
    last = rets[-1]
    ctx.count(1, fn.where(last))
    v = last.value
    good = False
    if isinstance(v, ast.IfExp) and N(v.test) in (S, 'len(%s)' % S, NS('0 < len(%s)' % S), NS('len(%s) != 0' % S)) and is_const(v.orelse, 1):
        if N(v.body) in ('list(%s)[0]' % S, 'next(iter(%s))' % S, '%s.pop()' % S, 'max(%s)' % S, 'min(%s)' % S):
            good = True
    if not good:
        ctx.fail(fn, last, 'lens does not return the single length (else 1): %s' % U(v))
    # empty input
    first = [r0 for r0 in rets if is_const(r0.value, 0)]
    if not first:
        ctx.fail(fn, fn.node, 'lens() of no values no longer returns 0 (an empty table must have length 0)')


@obligation('C01.6', 'MATCH', '_dictable:dictable.__len__ / shape / __iter__',
            'len()/shape must agree with the common column length and every row must carry every column in key order',
            axioms=('A1',))
def c01_6(ctx):
    r = ctx.repo
    f = r.fn('_dictable:dictable.__len__')
    rets = returns_of(f.node)
    ctx.count(1, f.where())
    if not (len(rets) == 1 and N(rets[0].value) == 'lens(*self.values())'):
        ctx.fail(f, rets[0] if rets else f.node, '__len__ is not lens over all columns: %s' % (U(rets[0].value) if rets else 'no return'))
    f = r.fn('_dictable:dictable.shape')
    rets = returns_of(f.node)
    ctx.count(1, f.where())
    if not (len(rets) == 1 and N(rets[0].value) in ('(len(self), len(self.keys()))', '(len(self), len(self.columns))')):
        ctx.fail(f, rets[0] if rets else f.node, 'shape is not (len(self), number of columns): %s' % (U(rets[0].value) if rets else 'no return'))
    f = r.fn('_dictable:dictable.__iter__')
    ctx.count(1, f.where())
    loops = [n for n in f.body if isinstance(n, ast.For)]
    ok = False
    if len(loops) == 1 and N(loops[0].iter) == 'zip(*self.values())' and isinstance(loops[0].target, ast.Name):
        row = loops[0].target.id
        ys = [n for n in ast.walk(loops[0]) if isinstance(n, ast.Yield)]
        if len(ys) == 1 and isinstance(ys[0].value, ast.Call) and len(ys[0].value.args) == 1 and N(ys[0].value.args[0]) == 'zip(self.keys(), %s)' % row:
            ok = True
    if not ok:
        ctx.fail(f, f.node, '__iter__ does not yield one record per zip(*self.values()) paired with self.keys() in order')


@obligation('C01.7', 'TAINT(empty-records)', '_dictable:dictable.__getitem__',
            'empty results keep their columns: a table built from surviving records has no columns when nothing survives and must be re-created with self.keys() before it is returned',
            axioms=('A1',))
def c01_7(ctx):
    fn = ctx.repo.fn('_dictable:dictable.__getitem__')
    t = flow.EmptyRecordsTaint(fn).run()
    ctx.count(max(1, t.sources), fn.where())
    ctx.fact('records_sources', t.sources)
    for n, m in t.reports:
        pm = parent_map(fn.node)
        ctx.fail(fn, enclosing_stmt(pm, n), m)
    # the empty-list branch: `d[[]]` must keep columns
    hits = find(fn.node, 'type(self)(data=[], columns=self.keys())') + find(fn.node, 'type(self)([], self.keys())')
    ctx.count(1)
    if len(hits) < 1:
        ctx.fail(fn, fn.node, 'no branch of __getitem__ rebuilds an empty table with self.keys()')
    # integer-list and slice branches are column-preserving by construction (columns= / comprehension over self.items())
    ints = [n for n in ast.walk(fn.node) if isinstance(n, ast.Call) and kw(n, 'columns') is not None and N(kw(n, 'columns')) == 'self.keys()']
    ctx.fact('column_preserving_constructors', len(ints))


@obligation('C01.8', 'MATCH', '_dictable:dict_concat / dictable.concat / dictable.__add__',
            'concatenation appends rows in argument order and fills absent columns with None',
            axioms=('A1',))
def c01_8(ctx):
    r = ctx.repo
    f = r.fn('_dictable:dict_concat')
    # general branch: {key: [d.get(key) for d in dicts] for key in keys}
    comps = [n for n in ast.walk(f.node) if isinstance(n, ast.DictComp) and isinstance(n.value, ast.ListComp)
             and isinstance(n.value.elt, ast.Call) and call_name(n.value.elt) == 'get']
    ctx.count(1, f.where())
    if not comps:
        ctx.fail(f, f.node, 'general branch of dict_concat no longer gathers d.get(key) per column')
    for c in comps:
        g = c.value.elt
        if len(g.args) != 1 or g.keywords:
            if not (len(g.args) == 2 and is_const(g.args[1], None)):
                ctx.fail(f, c, 'absent cells are filled with %s, not None' % U(g.args[1] if len(g.args) > 1 else g.keywords[0].value))
        it = c.value.generators[0].iter
        if not isinstance(it, ast.Name):
            ctx.fail(f, c, 'rows are gathered from `%s`, not from the dicts in argument order' % U(it))
        else:
            ctx.fact('general_branch', U(c)[:100])
            # the iterated name must be the parameter list itself (possibly normalised with as_list), not reversed/sorted
            d = single_assign(f, it.id)
            if d is not None and N(d) not in ('as_list(%s)' % it.id, 'list(%s)' % it.id):
                ctx.fail(f, c, 'dicts are reordered before concatenation: %s = %s' % (it.id, U(d)))
    # same-keys fast path pairs sorted items with sorted keys
    ctx.count(1)
    pk = [n for n in ast.walk(f.node) if isinstance(n, ast.Call) and call_name(n) == 'sorted' and n.args and N(n.args[0]).endswith('.keys()')]
    pi = [n for n in ast.walk(f.node) if isinstance(n, ast.Call) and call_name(n) == 'sorted' and n.args and N(n.args[0]).endswith('.items()')]
    if bool(pk) != bool(pi):
        ctx.fail(f, (pk or pi)[0], 'same-keys fast path sorts only one of keys/items: values would be attached to the wrong column')
    # single-dict shortcut wraps each value in a list
    one = [n for n in ast.walk(f.node) if isinstance(n, ast.DictComp) and isinstance(n.value, ast.List) and len(n.value.elts) == 1]
    ctx.count(1)
    if not one:
        ctx.fail(f, f.node, 'single-record shortcut no longer yields one-row columns')
    # concat
    f = r.fn('_dictable:dictable.concat')
    ctx.count(1, f.where())
    sums = [n for n in ast.walk(f.node) if isinstance(n, ast.Call) and call_name(n) == 'sum' and len(n.args) == 2 and N(n.args[1]) == '[]']
    if not sums:
        ctx.fail(f, f.node, 'concat no longer flattens the per-table column lists in order with sum(value, [])')
    dc = calls_in(f.node, 'dict_concat')
    if not dc:
        ctx.fail(f, f.node, 'concat no longer gathers columns through dict_concat')
    for n in ast.walk(f.node):
        if isinstance(n, ast.Call) and call_name(n) in ('sorted', 'reversed', 'set') and n.args and isinstance(n.args[0], ast.Name) and n.args[0].id in ('others', 'value', 'concated'):
            ctx.fail(f, n, 'tables are reordered before concatenation: %s' % U(n))
    # __add__
    f = r.fn('_dictable:dictable.__add__')
    ctx.count(1, f.where())
    rets = [x for x in returns_of(f.node) if isinstance(x.value, ast.Call) and call_name(x.value) == 'concat']
    if not rets:
        ctx.fail(f, f.node, '__add__ does not delegate to concat')
    for x in rets:
        if [U(a) for a in x.value.args] != ['self', f.params[1]]:
            ctx.fail(f, x, '__add__ concatenates %s instead of (self, %s): rows would not be appended after the receiver' % ([U(a) for a in x.value.args], f.params[1]))


FRESH_RESULT = dict(dictable=['inc', 'exc', 'do', 'sort', 'listby', 'groupby', 'ungroup', 'join', 'xyz', 'unpivot'],
                    Dict=['__call__', 'do', 'copy', 'if_none'],
                    dictattr=['__sub__', '__and__', '__add__', '__or__', 'relabel', 'rename', 'copy', '__truediv__'])


def fresh_result(ctx, specs):
    """the value returned by these operations must be a new object: never (an alias of) the receiver or an argument itself.
    Otherwise a later in-place edit of the result (d2['c'] = ..., del d2.c) silently edits the operand."""
    fns = [ctx.repo.fn(s) for s in specs]
    A, S = alias_summaries(ctx, fns)
    for f in fns:
        ctx.count(1, f.construct)
        tops = [a for a in S[f.construct].ret.tops if a != ('F',) and a[1] == 0]
        if tops:
            # locate a return statement that hands back the operand
            site = f.node
            for r0 in returns_of(f.node):
                if r0.value is not None and U(r0.value) in [t[0] for t in tops]:
                    site = r0
            ctx.fail(f, site, '%s may return its operand `%s` itself instead of a new object: editing the result in place would edit the operand' % (f.qual, tops[0][0]),
                     witness=dict(returns=sorted(map(str, S[f.construct].ret.tops))), stmt='%s returns %s' % (f.qual, tops[0][0]))


@obligation('C01.9', 'ALIAS fresh result', 'table/mapping operations that return a new object',
            'operations that return a new table never alter their operands: if the result IS the operand (e.g. an early `return self`), the first in-place column assignment on the result alters the operand',
            axioms=('A1',))
def c01_9(ctx):
    specs = ['_dictable:dictable.%s' % m for m in FRESH_RESULT['dictable']] + ['_dict:Dict.%s' % m for m in FRESH_RESULT['Dict']] + \
            ['_dictattr:dictattr.%s' % m for m in FRESH_RESULT['dictattr']]
    fresh_result(ctx, specs)


@obligation('C01.10', 'MATCH (running result / cell precedence)', 'dictable.do, Dict.do, dictable.apply, Dict.apply, _dict_in_place_update',
            'derived columns and per-column transforms equal the row-by-row model: a transform reads the table as already transformed by the earlier steps of the same call (rows of the running result), '
            'and a cell value takes precedence over a default parameter of the same name',
            axioms=('A1',))
def c01_10(ctx):
    r = ctx.repo
    f = r.fn('_dictable:dictable.do')
    rets0 = returns_of(f.node)
    res = U(rets0[-1].value) if rets0 and isinstance(rets0[-1].value, ast.Name) else 'res'      # the running result (whatever it is called)
    st = [s for s in ast.walk(f.node) if isinstance(s, ast.Assign) and N(s.targets[0]) == '%s[key]' % res]
    ctx.count(1, f.where())
    if not st or not isinstance(st[0].value, ast.ListComp):
        ctx.fail(f, f.node, 'do no longer rebuilds each column with a comprehension over the rows')
    else:
        comp = st[0].value
        it = N(comp.generators[0].iter)
        if it != res or len(comp.generators) != 1:
            ctx.fail(f, st[0], 'the transformed column is computed from `%s`: rows must come from the running result, so that a transform whose extra arguments name columns changed earlier in the same call sees the new values' % U(comp.generators[0].iter),
                     witness="d.do(lambda value, a: value + a, 'a', 'b')")
        row = U(comp.generators[0].target)
        if N(comp.elt) != NS('f(%s[key], **{k: v for k, v in %s.items() if k in args[1:]})' % (row, row)):
            ctx.fail(f, st[0], 'the transform is not applied as f(row[key], **the other cells it names): %s' % U(comp.elt)[:100])
    for n in body_nodes(f.node):
        if isinstance(n, ast.Assign) and isinstance(n.value, ast.Call) and N(n.value) in ('list(self)', 'list(%s)' % res) and n.lineno < (st[0].lineno if st else 10**9):
            ctx.fail(f, n, 'rows are materialised once before the column loop (`%s`): later transforms read stale cells' % U(n))
    g = r.fn('_dict:Dict.do')
    st = [s for s in ast.walk(g.node) if isinstance(s, ast.Assign) and N(s.targets[0]) == 'res[key]']
    ctx.count(1, g.where())
    if not st or N(st[0].value) != NS('f(res[key], **{k: v for k, v in res.items() if k in args[1:]})'):
        ctx.fail(g, st[0] if st else g.node, 'Dict.do does not apply f to the running value with the other running values it names')
    a = r.fn('_dictable:dictable.apply')
    ctx.count(1, a.where())
    rr = returns_of(a.node)
    ok = rr and isinstance(rr[-1].value, ast.ListComp) and N(rr[-1].value.generators[0].iter) == 'self'
    if ok:
        row = U(rr[-1].value.generators[0].target)
        call = rr[-1].value.elt
        upd = [c for c in ast.walk(call) if isinstance(c, ast.Call) and call_name(c) == '_dict_in_place_update']
        if not upd or [U(x) for x in upd[0].args] != ['default_params', row]:
            ctx.fail(a, rr[-1], 'the row is merged as `%s`: default parameters must be updated BY the row (cells win); the other order lets a default such as key=<new column name> override a cell of the same name' % (U(upd[0]) if upd else U(call)),
                     witness="a table with a column named 'key': d(x = lambda key: key)")
    else:
        ctx.fail(a, a.node, 'apply does not evaluate the function once per row of self')
    u = r.fn('_dictable:_dict_in_place_update')
    ctx.count(1, u.where())
    body = [U(s) for s in u.body]
    if body != ['%s.update(%s)' % (u.params[0], u.params[1]), 'return %s' % u.params[0]]:
        ctx.fail(u, u.node, '_dict_in_place_update(a, b) is not a.update(b); return a')
    d = r.fn('_dict:Dict.apply')
    ctx.count(1, d.where())
    body = [U(s) for s in d.body]
    if 'default_params.update(self)' not in body:
        ctx.fail(d, d.node, 'Dict.apply does not let the mapping\'s own values override the default parameters')
    rr = returns_of(d.node)
    if not rr or N(rr[-1].value) != NS('kwargs_support(function)(**default_params) if callable(function) else self[function]'):
        ctx.fail(d, d.node, 'Dict.apply does not call the function with the merged parameters')
    c = r.fn('_dict:Dict.__call__')
    ctx.count(1, c.where())
    if U(c.node).count('res.apply(value, **{self._key: key})') < 2:
        ctx.fail(c, c.node, 'derived values are not computed on the running result with key = <name of the derived value> as a default parameter')


def check_dict_concat(ctx):
    """records -> columns: the transposition every table built from rows goes through (shared with C06.8)"""
    r = ctx.repo
    d = r.fn('_dictable:dict_concat')
    expect_guards(ctx, d, [('len(dicts) == 0', 'return {}', 'no record'), ('len(dicts) == 1', 'return {key: [value] for key, value in dicts[0].items()}', 'one record'),
                           ('len(possible_keys) == 1', 'pairs = [sorted(d.items()) for d in dicts]', 'all records share their keys')])
    ctx.count(1)
    defs = {U(s.targets[0]): N(s.value) for s in ast.walk(d.node) if isinstance(s, ast.Assign)}
    want = {'dicts': 'as_list(dicts)', 'possible_keys': 'list(set([tuple(sorted(d.keys())) for d in dicts]))', 'keys': None, 'values': 'zip(*[[value for _, value in row] for row in pairs])',
            'res': 'dict(zip(keys, map(list, values)))'}
    for k, w in want.items():
        if w is not None and defs.get(k) != NS(w):
            ctx.fail(d, d.node, 'dict_concat: `%s = %s`, expected `%s`' % (k, defs.get(k), w), stmt='dict_concat %s' % k)
    ks = [N(s.value) for s in body_nodes(d.node) if isinstance(s, ast.Assign) and U(s.targets[0]) == 'keys']
    if ks != ['possible_keys[0]', NS('reduce(lambda res, keys: res | set(keys), possible_keys, set())')]:
        ctx.fail(d, d.node, 'dict_concat keys are %s' % ks)


@obligation('C01.11', 'TABLES (dispatch / guard tables, truth-table equivalence)', 'dictable.__getitem__, get, concat, __add__, __setitem__, __init__; dict_concat; lens',
            'row access, slicing, masking, integer lists, projection and concatenation dispatch on the kind of their argument: each kind must reach its own action (tests compared by truth table, actions by their first statement)',
            axioms=('A1',))
def c01_11(ctx):
    r = ctx.repo
    g = r.fn('_dictable:dictable.__getitem__')
    expect_guards(ctx, g, [
        ('is_arr(item) and len(item.shape) == 1', 'item = list(item)', 'a 1-d array is a list of row numbers / mask'),
        ('isinstance(item, slice)', 'return type(self)({key: value[item] for key, value in self.items()})', 'slicing rows slices every column'),
        ('isinstance(item, (dict_keys, dict_values, range))', 'item = list(item)', 'ranges and key views are lists'),
        ('len(item) == 0', 'return type(self)(data=[], columns=self.keys())', 'an empty selection keeps the columns'),
        ('is_strs(item)', 'return type(self)(super(dictable, self).__getitem__(item))', 'a list of names is a projection'),
        ('is_bools(item)', 'res = type(self)([row for row, tf in zipper(list(self), item) if tf])', 'a mask keeps the flagged rows'),
        ('is_ints(item)', 'values = list(zip(*self.values()))', 'integer lists pick rows by position'),
        ('is_int(item)', 'return self._dict({key: value[item] for key, value in self.items()})', 'd[i] is the i-th record'),
        ('item in self.keys()', 'return super(dictable, self).__getitem__(item)', 'd[c] is the column c'),
        ('is_tuple(item)', 'return list(zip(*[self[i] for i in item]))', 'd[c1, c2] zips the columns'),
        ('callable(item)', 'return self.apply(item)', 'a callable is applied row by row'),
    ])
    ctx.count(1)
    ints = [s for s in ast.walk(g.node) if isinstance(s, ast.Return) and 'values[i] for i in item' in U(s.value)]
    if not ints or N(ints[0].value) != NS('type(self)(data=[values[i] for i in item], columns=self.keys())'):
        ctx.fail(g, ints[0] if ints else g.node, 'an integer list does not rebuild the table from those rows with the same columns')
    top = [s for s in g.body if isinstance(s, ast.If)]
    order = [N(t) for s in top for t, b in if_chain(s) if t is not None]
    if order.index('isinstance(item, list)') > order.index('is_int(item)') if 'isinstance(item, list)' in order and 'is_int(item)' in order else False:
        ctx.fail(g, g.node, 'lists are dispatched after scalars')
    raises = [U(x.exc)[:8] for x in ast.walk(g.node) if isinstance(x, ast.Raise)]
    if sorted(raises) != ['KeyError', 'ValueErr']:
        ctx.fail(g, g.node, 'unknown items no longer raise KeyError / unknown lists ValueError: %s' % raises)
    f = r.fn('_dictable:dictable.get')
    expect_guards(ctx, f, [('key in self', 'return self[key]', 'an existing column is returned')], where=f.body)
    ctx.count(1)
    dflt = [x for x in returns_of(f.node) if 'default' in U(x.value)]
    if not dflt or N(dflt[0].value) != NS('[default] * len(self)'):
        ctx.fail(f, dflt[0] if dflt else f.node, 'a missing column is not [default] * len(self)')
    c = r.fn('_dictable:dictable.concat')
    expect_guards(ctx, c, [('len(others) == 0', 'return cls()', 'nothing to concatenate'), ('len(others) == 1', 'return others[0]', 'a single table')], where=c.body)
    ctx.count(1)
    oth = [N(s.value) for s in c.body if isinstance(s, ast.Assign) and U(s.targets[0]) == 'others']
    if oth != ['as_list(others)', NS('[cls(other) if not isinstance(other, cls) else other for other in others]')]:
        ctx.fail(c, c.node, 'the operands are not normalised as a list of tables (records converted with cls(other)): %s' % oth)
    else:
        conv = [k for k, s in enumerate(c.body) if isinstance(s, ast.Assign) and U(s.targets[0]) == 'others']
        exits = [k for k, s in enumerate(c.body) if any(isinstance(x, ast.Return) for x in ast.walk(s))]
        if exits and conv and max(conv) > min(exits):
            ctx.fail(c, c.body[min(exits)], 'an exit of concat comes before the operands are converted to tables: a single record (or a single dict) is returned as it is, not as a one-row table',
                     witness='dictable.concat([dict(a=1)])')
    a = r.fn('_dictable:dictable.__add__')
    expect_guards(ctx, a, [('other is None or (is_num(other) and other == 0)', 'return self', 'sum() starts from 0')], where=a.body)
    check_dict_concat(ctx)
    s_ = r.fn('_dictable:dictable.__setitem__')
    ctx.count(1, s_.where())
    if not any(isinstance(x, ast.Assign) and U(x.targets[0]) == s_.params[2] and N(x.value) == '_value(%s)' % s_.params[2] for x in s_.body):
        ctx.fail(s_, s_.node, 'the assigned value is not normalised to a list with _value (scalars become one-element lists that broadcast)')
    st = [x for x in ast.walk(s_.node) if isinstance(x, ast.Call) and isinstance(x.func, ast.Attribute) and x.func.attr == '__setitem__']
    if not st or N(st[0].args[0]) != NS('str(key) if is_int(key) else key') or N(st[0].func.value) != 'super(dictable, self)':
        ctx.fail(s_, st[0] if st else s_.node, 'the column is not stored through the base class under its (string) name')
    i = r.fn('_dictable:dictable.__init__')
    ctx.count(1, i.where())
    seq = [' '.join(U(x).split()) for x in i.body if isinstance(x, (ast.Assign, ast.Expr))]
    want_seq = ['kwargs = {key: _value(value) for key, value in kwargs.items()}',
                'data_kwargs = {key: _value(value) for key, value in _data_columns_as_dict(data, columns).items()}',
                'kwargs.update(data_kwargs)']
    if seq[:3] != want_seq:
        ctx.fail(i, i.node, 'construction does not gather keyword columns and data columns (both through _value) into one mapping: %s' % seq[:3])
    hd = [x for x in i.body if isinstance(x, ast.If) and 'is_strs(columns)' in U(x.test)]
    if hd:
        ok, w = prop_equiv(hd[0].test, 'is_strs(columns) and (len(data_kwargs) == 0 or not is_str(columns))')
        if not ok or N(hd[0].body[0].value) != NS('{key: kwargs.get(key, [None]) for key in columns} if len(kwargs) > 0 else {key: [] for key in columns}'):
            ctx.fail(i, hd[0], 'tables built from explicit column names: `if %s: %s`' % (U(hd[0].test), U(hd[0].body[0])[:100]), witness=w)
    sup = [x for x in ast.walk(i.node) if isinstance(x, ast.Call) and isinstance(x.func, ast.Attribute) and x.func.attr == '__init__']
    if not sup or N(sup[0].func.value) != 'super(dictable, self)':
        ctx.fail(i, sup[0] if sup else i.node, 'the base initialiser is not reached through super(dictable, self)')
    l = r.fn('_zip:lens')
    expect_guards(ctx, l, [('len0(values) == 0', 'return 0', 'no columns, no rows')], where=l.body)
    v = r.fn('_dictable:_value')
    # spelling-independent table: None -> [None]; views, ranges and tuples -> list(value); anything else -> as_list(value)
    LISTED = {'dict_values', 'dict_keys', 'range', 'tuple'}
    seen = set()
    for p in sym_paths(v):
        if p.term != 'return':
            continue
        ctx.count(1, v.where(p.node))
        yes, no, isnone = set(), set(), None
        for txt, pol, e in p.atoms():
            kind, keys = classify_test(e)
            if kind == 'isinstance:value':
                (yes if pol else no).update(keys)
            if txt == NS('value is None'):
                isnone = pol
        if isnone:
            want, k = '[None]', 'none'
        elif yes and yes <= LISTED:
            want, k = 'list(value)', 'listed'
        elif not yes and LISTED <= no:
            want, k = 'as_list(value)', 'other'
        else:
            want, k = None, None
        seen.add(k)
        if want is None or p.text() != want:
            ctx.fail(v, p.node, '_value returns `%s` when [%s]; expected [None] for None, list(value) for dict views / ranges / tuples and as_list(value) otherwise' % (p.text(), ' & '.join(('' if q else 'not ') + t for t, q, _ in p.conds)))
    if not ctx.findings and seen != {'none', 'listed', 'other'}:
        ctx.fail(v, v.node, '_value does not turn tuples into lists and scalars into one-element lists')


@obligation('C01.12', 'PATH (symbolic summary) + TYPESTATE', '_dictattr:dictattr.relabel / rename',
            'renaming is ONE simultaneous substitution on the list-of-records model (a->b, b->a swaps two columns; a->b with b present keeps the renamed one last): the result is rebuilt in one pass over self.items() with every key mapped through the relabel table (keys.get(k, k)); moving keys one after the other on a copy lets an earlier move clobber a column that is still to be moved',
            axioms=('A1',))
def c01_12(ctx):
    f = ctx.repo.fn('_dictattr:dictattr.relabel')
    ctx.count(1, f.where())
    loops = [n for n in body_nodes(f.node) if isinstance(n, (ast.For, ast.While))]
    for lp in loops:
        moves = [c for c in ast.walk(lp) if (isinstance(c, ast.Call) and isinstance(c.func, ast.Attribute) and c.func.attr in ('pop', '__delitem__', '__setitem__'))
                 or isinstance(c, ast.Delete) or (isinstance(c, ast.Assign) and isinstance(c.targets[0], ast.Subscript))]
        if moves:
            ctx.fail(f, lp, 'columns are moved one after the other (`%s`): a rename whose new name is another column still to be renamed (a swap, a rotation) overwrites that column first' % U(moves[0])[:80],
                     witness="dictattr(a=1, b=2).relabel(a='b', b='a') must be {'b': 1, 'a': 2}")
            return
    sp = [p for p in sym_paths(f) if p.term == 'return']
    ctx.need(sp, 'relabel has no returning path')
    for p in sp:
        ctx.count(1)
        v = p.value
        ok = isinstance(v, ast.Call) and N(v.func) == 'type(self)' and not v.args and len(v.keywords) == 1 and v.keywords[0].arg is None and isinstance(v.keywords[0].value, ast.DictComp)
        if ok:
            dc = v.keywords[0].value
            g = dc.generators[0]
            ok = len(dc.generators) == 1 and not g.ifs and N(g.iter) == 'self.items()' and isinstance(g.target, ast.Tuple) and len(g.target.elts) == 2
            if ok:
                k, val = U(g.target.elts[0]), U(g.target.elts[1])
                key = dc.key
                ok = N(dc.value) == val and isinstance(key, ast.Call) and isinstance(key.func, ast.Attribute) and key.func.attr == 'get' and [U(a) for a in key.args] == [k, k] \
                    and isinstance(key.func.value, ast.Call) and call_name(key.func.value) == 'relabel'
                if ok:
                    tab = key.func.value
                    ok = N(tab) == NS('relabel(list(self.keys()), *args, **relabels)')
        if not ok:
            ctx.fail(f, p.node, 'relabel returns `%s`; expected type(self)(**{table.get(k, k): v for k, v in self.items()}) with table = relabel(list(self.keys()), *args, **relabels)' % (p.text() or '')[:160])
    g = ctx.repo.fn('_dictattr:dictattr.rename')
    ctx.count(1, g.where())
    rp = [p for p in sym_paths(g) if p.term == 'return']
    if not rp or any(p.text() != NS('self.relabel(*args, **relabels)') for p in rp):
        ctx.fail(g, g.node, 'rename is no longer relabel')


@obligation('C01.13', 'TABLES (guards by truth table) + NONE-VS-EMPTY', '_dictable:_data_columns_as_dict',
            'a table with columns but no rows keeps its columns through every constructor spelling (dictable(d0), d0[cols], concat): "no data at all" is None or the empty LIST only - a mapping (a dict of empty columns, a dictable with zero rows: len() counts rows) is data and contributes its keys',
            axioms=())
def c01_13(ctx):
    f = ctx.repo.fn('_dictable:_data_columns_as_dict')
    data = f.params[0]
    expect_guards(ctx, f, [('%s is None or (isinstance(%s, list) and %s == [])' % (data, data, data), 'return {}', 'no data'),
                           ('isinstance(%s, dict)' % data, 'return dict_concat(tree_to_table(%s, columns)) if is_tree(columns) else dict(%s)' % (data, data), 'a mapping keeps its keys')], where=f.body)


@obligation('C01.14', 'MATCH loop nest', '_dictable:dictable.do',
            'per-column transforms equal the list-of-records model row by row: do(functions, columns) finishes one column (all functions, in order) before it starts the next, exactly like Dict.do on every row - a function that reads another column must see that column as the model does',
            axioms=())
def c01_14(ctx):
    f = ctx.repo.fn('_dictable:dictable.do')
    outer = [s for s in f.body if isinstance(s, ast.For)]
    ctx.count(1, f.where())
    ok = outer and N(outer[-1].iter) == 'keys' and any(isinstance(x, ast.For) and N(x.iter) == 'as_list(function)' for x in outer[-1].body)
    if not ok:
        ctx.fail(f, outer[-1] if outer else f.node, 'dictable.do does not loop `for key in keys: for f in as_list(function)` (columns outside, functions inside): %s' % (U(outer[-1])[:80] if outer else 'no loop'),
                 witness='d.do([f, g], "a", "b") with g reading column a')
    g = ctx.repo.fn('_dict:Dict.do')
    o2 = [s for s in g.body if isinstance(s, ast.For)]
    if not (o2 and N(o2[-1].iter) == 'keys' and any(isinstance(x, ast.For) and N(x.iter) == 'as_list(function)' for x in o2[-1].body)):
        ctx.fail(g, o2[-1] if o2 else g.node, 'Dict.do does not loop keys outside, functions inside')
