"""C19 container lifting maps leaf-wise, preserves shape, and is schedule independent (structural necessary conditions)."""
import ast
from ..core import obligation, AnalysisError, Fn
from .. import flow
from .common import *
from . import C03 as _c03, C01 as _c01

ONE_SHOT_CALLS = {'zip', 'map', 'filter', 'iter', 'reversed', 'enumerate'}


@obligation('C19.1', 'TYPESTATE(one-shot iterator)', 'call sites of loops._wrapped',
            'the per-element companions handed down the recursion are iterated once per element one level further down: a generator/zip/map object is exhausted after the first element, so at nesting depth >= 2 the remaining calls lose their positional companions',
            axioms=('A1',))
def c19_1(ctx):
    fn = ctx.repo.fn('_loop:loops._wrapped')
    pname = fn.params[2]      # `args`
    uses = flow.use_multiplicity(fn.node, pname)
    multi = [u for u in uses if u[2] >= 1] or (len(uses) > 1 and uses)
    ctx.fact('uses_of_args', [(k, getattr(n, 'lineno', 0), d) for k, n, d in uses])
    ctx.need(uses, 'parameter %s of loops._wrapped is never consumed' % pname)
    n = 0
    for owner in (fn, ctx.repo.fn('_loop:loops.wrapped'), ctx.repo.fn('_loop:loops.T')):
        pm = parent_map(owner.node)
        for c in calls_in(owner.node, '_wrapped'):
            if len(c.args) < 2:
                continue
            n += 1
            a = c.args[1]
            ctx.count(1, owner.where(c))
            one_shot = isinstance(a, ast.GeneratorExp) or (isinstance(a, ast.Call) and isinstance(a.func, ast.Name) and a.func.id in ONE_SHOT_CALLS)
            if one_shot and multi:
                ctx.fail(owner, enclosing_stmt(pm, c), 'a one-shot iterator `%s` is bound to parameter `%s` of _wrapped, which is consumed inside a repeating construct (%s): it is empty from the second element on' % (
                    U(a)[:70], pname, ', '.join('%s@line %s depth %d' % (k, getattr(nn, 'lineno', 0), d) for k, nn, d in multi[:3])),
                    witness='loop(list)(lambda a, b: a + b)([[1, 2], [3, 4]], 10)', stmt=a)
    ctx.at_least(5, n, 'recursive calls handing companions down')


@obligation('C19.2', 'MATCH (shared with C03.5)', '_loop:loops._wrapped',
            'the result has the same shape and container types: dicts rebuilt with type(arg) over the same keys, sequences with type(arg) over the same positions, leaves mapped by the function',
            axioms=('A1',))
def c19_2(ctx):
    _c03.c03_5(ctx)
    # wrapped: dispatch on the first argument, positional or keyword
    fn = ctx.repo.fn('_loop:loops.wrapped')
    ctx.count(1, fn.where())
    src = U(fn.node)
    if 'arg = kwargs.pop(top)' not in src or 'arg, args_, kwargs_ = (args[0], args[1:], kwargs)' not in src.replace('\n', ' '):
        ctx.fail(fn, fn.node, 'the looped argument is not taken from the first positional argument or, failing that, from the keyword named like the first parameter')
    rr = [r for r in returns_of(fn.node) if N(r.value) == 'self._wrapped(arg, args_, kwargs_)']
    if not rr:
        ctx.fail(fn, fn.node, 'wrapped does not hand (arg, other positionals, keywords) to _wrapped')


@obligation('C19.3', 'MATCH', '_loop:_item_by_i, _loop:_item_by_key and the key lists built in loops._wrapped',
            'further arguments that are containers of the same length / the same keys are matched element by element (dicts BY KEY, whatever their insertion order), everything else is broadcast',
            axioms=('A1',))
def c19_3(ctx):
    fk = ctx.repo.fn('_loop:_item_by_key')
    value, key, keys = fk.params[:3]
    ctx.count(1, fk.where())
    d = [s for s in fk.body if isinstance(s, ast.If) and N(s.test) == 'isinstance(%s, dict)' % value]
    ctx.need(d, 'dict case of _item_by_key not found')
    inner = [s for s in d[0].body if isinstance(s, ast.If)]
    ctx.need(inner, 'key-set test of _item_by_key not found')
    t = inner[0].test
    tn = N(t)
    sorted_form = NS('sorted(%s.keys()) == %s' % (value, keys))
    set_forms = (NS('set(%s.keys()) == set(%s)' % (value, keys)), NS('set(%s) == set(%s)' % (value, keys)))
    fw = ctx.repo.fn('_loop:loops._wrapped')
    kdefs = [s for s in ast.walk(fw.node) if isinstance(s, ast.Assign) and U(s.targets[0]) == 'keys' and 'arg.keys()' in U(s.value)]
    ctx.need(kdefs, 'key list of the dict branch of loops._wrapped not found')
    keys_sorted = N(kdefs[0].value) == 'sorted(arg.keys())'
    if tn == sorted_form:
        if not keys_sorted:
            ctx.fail(fw, kdefs[0], 'a companion dict is recognised by sorted(value.keys()) == keys, but keys is `%s` (not sorted): dicts with the same keys never match unless already in sorted order' % U(kdefs[0].value))
    elif tn in set_forms:
        pass
    elif 'list(%s.keys())' % value in U(t) or tn == NS('%s.keys() == %s' % (value, keys)) and not keys_sorted:
        ctx.fail(fk, inner[0], 'a companion dict is recognised with `%s`, which depends on insertion order: a companion with the same keys in another order is broadcast whole to every leaf instead of being matched by key' % U(t),
                 witness="f({'x': 1, 'y': 2}, {'y': 20, 'x': 10})")
    else:
        ctx.fail(fk, inner[0], 'a companion dict is recognised with `%s`, which does not establish that it has EXACTLY the keys of the looped dict (sorted(value.keys()) == keys): a companion of the same size sharing only some keys is indexed for those and broadcast whole for the others' % U(t),
                 witness="f({'x': 1, 'y': 2}, {'x': 10, 'z': 30})")
    r1 = [r for r in inner[0].body if isinstance(r, ast.Return)]
    if not r1 or N(r1[0].value) != '%s[%s]' % (value, key):
        ctx.fail(fk, inner[0], 'a matching companion dict is not indexed by the key')
    r2 = [r for r in else_of(inner[0]) if isinstance(r, ast.Return)]
    if not r2 or N(r2[0].value) != NS('type(%s)({k: _item_by_key(v, %s, %s, i) for k, v in %s.items()})' % (value, key, keys, value)):
        ctx.fail(fk, inner[0], 'a non-matching companion dict is not searched recursively for matching members')
    last = returns_of(fk.node)
    if not last or U(last[-1].value) != value:
        ctx.fail(fk, fk.node, 'a non-matching companion is not broadcast unchanged')
    fi = ctx.repo.fn('_loop:_item_by_i')
    value, i, n = fi.params[:3]
    ctx.count(1, fi.where())
    seq = [s for s in fi.body if isinstance(s, ast.If) and N(s.test) == 'isinstance(%s, (list, tuple))' % value]
    ok = seq and isinstance(seq[0].body[0], ast.If) and N(seq[0].body[0].test) == NS('len(%s) == %s' % (value, n)) and N(seq[0].body[0].body[0].value) == '%s[%s]' % (value, i)
    if not ok:
        ctx.fail(fi, seq[0] if seq else fi.node, 'a companion sequence of the same length is not indexed by position')
    else:
        rec = [r_ for r_ in else_of(seq[0].body[0]) if isinstance(r_, ast.Return)]
        ctx.count(1)
        if not rec or N(rec[0].value) != NS('type(%s)([_item_by_i(v, %s, %s) for v in %s])' % (value, i, n, value)):
            ctx.fail(fi, rec[0] if rec else seq[0], 'a companion sequence of another length is passed on as `%s`: it must be searched member by member and REBUILT WITH ITS OWN TYPE (a tuple stays a tuple), otherwise the broadcast companion reaches the leaves as a different object' % (U(rec[0].value) if rec else '?'),
                     witness="loop(list)(lambda a, b: a.startswith(b))(['ab', 'cd', 'ef'], ('a', 'c')) needs a tuple")
    last = returns_of(fi.node)
    if not last or U(last[-1].value) != value:
        ctx.fail(fi, fi.node, 'a non-matching companion is not broadcast unchanged')
    # the recursion applies the matching to positional and keyword companions alike
    ctx.count(1)
    for c in calls_in(fw.node, '_wrapped'):
        if len(c.args) == 3:
            a, k = c.args[1], c.args[2]
            fa = {call_name(x) for x in ast.walk(a) if isinstance(x, ast.Call) and call_name(x) in ('_item_by_i', '_item_by_key')}
            fk_ = {call_name(x) for x in ast.walk(k) if isinstance(x, ast.Call) and call_name(x) in ('_item_by_i', '_item_by_key')}
            if fa != fk_ or not fa:
                ctx.fail(fw, c, 'positional and keyword companions are not matched by the same rule: %s vs %s' % (sorted(fa), sorted(fk_)))
            # SCOPE: the selector handed to _item_by_key/_item_by_i inside the companion comprehensions must be the variable of the ENCLOSING
            # iteration over the looped argument; a comprehension that binds the same name itself (for k, v in kwargs.items()) shadows it
            sel = {U(x.args[1]) for y in (a, k) for x in ast.walk(y) if isinstance(x, ast.Call) and call_name(x) in ('_item_by_i', '_item_by_key') and len(x.args) >= 2}
            for y in (a, k):
                for comp in ast.walk(y):
                    if isinstance(comp, (ast.DictComp, ast.ListComp, ast.GeneratorExp, ast.SetComp)):
                        own = {n.id for g in comp.generators for n in ast.walk(g.target) if isinstance(n, ast.Name)}
                        for x in ast.walk(comp):
                            if isinstance(x, ast.Call) and call_name(x) in ('_item_by_i', '_item_by_key') and len(x.args) >= 2 and isinstance(x.args[1], ast.Name) and x.args[1].id in own:
                                ctx.fail(fw, c, 'inside `%s` the selector `%s` is the comprehension\'s own variable, not the key/position of the looped argument (shadowed name): companions are matched against the wrong key' % (U(comp)[:70], x.args[1].id),
                                         witness="loop(dict)(f)({'x': 1, 'y': 2}, b={'x': 10, 'y': 20})")
            if len(sel) > 1:
                ctx.fail(fw, c, 'positional and keyword companions are selected with different keys: %s' % sorted(sel))


PUBLIC = {'_txt': [('lower', '_lower'), ('upper', '_upper'), ('strip', '_strip'), ('proper', '_proper'), ('replace', '_replace'), ('split', '_split'), ('f12', '_f12'), ('capitalize', '_capitalize')],
          '_as_float': [('as_float', '_as_float')]}


@obligation('C19.4', 'decorator resolution', 'lower upper strip proper replace split f12 capitalize as_float',
            'the library helpers are lifted: each public helper delegates to a private function decorated loop(list, dict, tuple), and loop extends dict with OrderedDict, dictattr, Dict',
            axioms=())
def c19_4(ctx):
    for mod, pairs in PUBLIC.items():
        for pub, priv in pairs:
            f = ctx.repo.fn('%s:%s' % (mod, pub))
            g = ctx.repo.fn('%s:%s' % (mod, priv))
            ctx.count(1, f.where())
            rr = returns_of(f.node)
            if not rr or not (isinstance(rr[-1].value, ast.Call) and call_name(rr[-1].value) == priv and rr[-1].value.args and U(rr[-1].value.args[0]) == f.params[0]):
                ctx.fail(f, rr[-1] if rr else f.node, '%s no longer delegates to the lifted %s' % (pub, priv))
            ts = loop_types(ctx.repo, g)
            if ts is None or not {'list', 'dict', 'tuple'} <= set(ts):
                ctx.fail(g, g.node, '%s is lifted over %s, expected list, dict and tuple' % (priv, ts))
            # leaves that are not of the handled type pass through unchanged
            last = returns_of(g.node)
            if last and not any(U(r.value) in g.params[:1] or (isinstance(r.value, ast.IfExp) and U(r.value.orelse) == g.params[0]) for r in last):
                ctx.fail(g, g.node, '%s does not return leaves it does not handle unchanged' % priv)


@obligation('C19.5', 'MATCH (+ C01.5)', '_zip:lens, _zip:zipper',
            'zipper zips equal-length sequences, broadcasts scalars and length-1 sequences and raises ValueError on two different lengths: a value is a scalar iff it is not iterable (an EMPTY sequence is a sequence of length 0, not a scalar)',
            axioms=('A1',))
def c19_5(ctx):
    _c01.c01_5(ctx)
    f = ctx.repo.fn('_zip:zipper')
    vals = f.node.args.vararg.arg
    asg = [s for s in f.body if isinstance(s, ast.Assign) and U(s.targets[0]) == vals]
    ctx.count(1, f.where())
    ctx.need(asg and isinstance(asg[0].value, ast.ListComp), 'normalisation of the zipper arguments not found')
    comp = asg[0].value
    v = U(comp.generators[0].target)
    ch = ifexp_chain(comp.elt)
    # expected: list(v) if isinstance(v, zip) else v if is_iterable(v) else [v]
    scal = [(t, b) for t, b in ch if t is not None and U(b) == v]
    wrap = [b for t, b in ch if t is None]
    if not scal or not wrap or N(wrap[0]) != '[%s]' % v:
        ctx.fail(f, asg[0], 'scalars are not wrapped as [value]: %s' % U(comp.elt))
    else:
        t = N(scal[0][0])
        if t == 'is_iterable(%s)' % v:
            pass
        elif 'len0(' in t or 'len(' in t or t == v:
            ctx.fail(f, asg[0], 'a value is treated as a sequence only when `%s`: an empty sequence then counts as a scalar, so zipper([], [1, 2, 3]) no longer raises and zipper([], []) is not empty' % U(scal[0][0]),
                     witness='zipper([], [1, 2, 3])')
        else:
            raise AnalysisError('unrecognised sequence test in zipper: %s' % U(scal[0][0]))
    ctx.count(1)
    n = [s for s in f.body if isinstance(s, ast.Assign) and N(s.value) == 'lens(*%s)' % vals]
    if not n:
        ctx.fail(f, f.node, 'zipper no longer reconciles lengths through lens(*values)')
    b = [s for s in ast.walk(f.node) if isinstance(s, ast.Assign) and U(s.targets[0]) == vals and s is not asg[0]]
    if not b or N(b[0].value) != NS('[list(%s) * n if is_iterable(%s) and len(%s) == 1 else %s for %s in %s]' % (v, v, v, v, v, vals)):
        ctx.fail(f, b[0] if b else f.node, 'length-1 sequences are not broadcast to the common length')
    rr = returns_of(f.node)
    if not rr or N(rr[-1].value) != 'zip(*%s)' % vals:
        ctx.fail(f, f.node, 'zipper does not return zip(*values)')


@obligation('C19.6', 'PATH range', '_as_list:as_list, _as_list:as_tuple',
            'as_list / as_tuple are idempotent normalisers: every return is of the target type and a value already of that type is returned as is (except the documented single-list tuple)',
            axioms=())
def c19_6(ctx):
    for name, tp, ctor in (('as_list', 'list', 'list'), ('as_tuple', 'tuple', 'tuple')):
        f = ctx.repo.fn('_as_list:%s' % name)
        v = f.params[0]
        for p in paths(f.body):
            if p.term != 'return':
                continue
            ctx.count(1, f.where(p.node))
            e = p.value
            txt = N(e)
            typed = False
            if name == 'as_list':
                typed = txt in ('[]', '[%s]' % v, 'list(%s)' % v) or (txt == v and p.assumes('isinstance(%s, list)' % v, True)) or (txt == '%s[0]' % v and any('isinstance(%s[0], list)' % v in c for c in p.cond_texts()))
            else:
                typed = txt in ('()', '(%s,)' % v, 'tuple(%s)' % v, 'tuple(%s[0])' % v) or (txt == v and p.assumes('isinstance(%s, tuple)' % v, True))
            if not typed:
                ctx.fail(f, p.node, '%s can return `%s`, which is not provably a %s on the path [%s]' % (name, U(e), tp, ' & '.join(p.cond_texts())))
        # idempotence on every path: whenever the path conditions admit a value that already is a list (tuple), the value itself is returned
        for p in paths(f.body):
            if p.term != 'return':
                continue
            admits, exception = True, False
            for txt, pol, e in p.atoms():
                kind, keys = classify_test(e)
                if kind == 'isinstance:' + v and (pol and tp not in keys or not pol and tp in keys):
                    admits = False
                if txt == NS('%s is None' % v) and pol:
                    admits = False
                if txt == 'isinstance(%s[0], list)' % v and pol and tp == 'tuple':
                    exception = True      # documented: a 1-tuple holding a list stands for that list
            ctx.count(1)
            if admits and not exception and N(p.value) != v:
                ctx.fail(f, p.node, '%s of a %s returns `%s` on the path [%s]: a value that already is a %s must be returned as is (idempotence)' % (name, tp, U(p.value), ' & '.join(p.cond_texts()), tp))
        ident = [p for p in paths(f.body) if p.term == 'return' and N(p.value) == v and p.assumes('isinstance(%s, %s)' % (v, tp), True)]
        ctx.count(1)
        if not ident:
            ctx.fail(f, f.node, '%s no longer returns a %s unchanged' % (name, tp))


@obligation('C19.7', 'who-may-call', '_waiter:waiter',
            'waiter returns the same nested structure with every awaitable replaced by its result whatever order they complete in: results are paired with inputs positionally through asyncio.gather only, dict values re-zipped with the keys, containers rebuilt with type(value)',
            axioms=('A4 (asyncio.gather returns results in argument order)',))
def c19_7(ctx):
    f = ctx.repo.fn('_waiter:waiter')
    v = f.params[0]
    ctx.count(1, f.where())
    for c in calls_in(f.node):
        if call_name(c) in ('as_completed', 'wait', 'wait_for', 'create_task', 'ensure_future', 'shield'):
            ctx.fail(f, c, 'asyncio.%s yields results in completion order: they can no longer be paired with their inputs positionally' % call_name(c))
    g = [c for c in calls_in(f.node, 'gather')]
    ctx.at_least(2, len(g), 'asyncio.gather calls in waiter')
    for c in g:
        ctx.count(1)
        if not (len(c.args) == 1 and isinstance(c.args[0], ast.Starred) and isinstance(c.args[0].value, ast.ListComp) and N(c.args[0].value.elt) == 'waiter(v)'):
            ctx.fail(f, c, 'gather is not given one waiter(v) per member, in order: %s' % U(c)[:80])
        elif N(c.args[0].value.generators[0].iter) not in (v, '%s.values()' % v):
            ctx.fail(f, c, 'members are gathered from `%s`' % U(c.args[0].value.generators[0].iter))
        if kw(c, 'return_exceptions') is not None:
            ctx.fail(f, c, 'return_exceptions changes the results into exception objects')
    ctx.count(1)
    aw = [s for s in ast.walk(f.node) if isinstance(s, ast.If) and any(isinstance(r, ast.Return) and isinstance(r.value, ast.Await) and U(r.value.value) == v for r in s.body)]
    if aw:
        t = N(aw[0].test)
        if t not in ('isinstance(%s, Awaitable)' % v, 'inspect.isawaitable(%s)' % v, 'isawaitable(%s)' % v, 'isinstance(%s, typing.Awaitable)' % v, 'isinstance(%s, collections.abc.Awaitable)' % v):
            ctx.fail(f, aw[0], 'a leaf is awaited only when `%s`: Futures, Tasks and objects with __await__ are awaitables too and would be returned un-awaited' % U(aw[0].test),
                     witness='waiter([asyncio.ensure_future(coro())])')
    rr = returns_of(f.node)
    txt = [N(r.value) for r in rr]
    ctx.count(1)
    if 'type(%s)(values)' % v not in txt:
        ctx.fail(f, f.node, 'lists/tuples are not rebuilt with type(value)(results)')
    if NS('type(%s)(dict(zip(%s.keys(), values)))' % (v, v)) not in txt:
        ctx.fail(f, f.node, 'dicts are not rebuilt by zipping the results with value.keys()')
    if 'await %s' % v not in [U(r.value) for r in rr]:
        ctx.fail(f, f.node, 'an awaitable leaf is not awaited')
    if v not in txt:
        ctx.fail(f, f.node, 'a plain leaf is not returned unchanged')


@obligation('C19.8', 'PATH (symbolic summary): closed set of exits', '_waiter:waiter',
            'EVERY awaitable at any depth is replaced by its result: a container is answered only by rebuilding it from the awaited members (type(value)(gathered)), never by handing the container back as it is on the strength of a look at its members - a shallow look misses awaitables one level further down',
            axioms=('A4 (asyncio.gather returns results in argument order)',))
def c19_8(ctx):
    f = ctx.repo.fn('_waiter:waiter')
    v = f.params[0]
    seen = set()
    want_seq = NS('type({0})(await asyncio.gather(*[waiter(v) for v in {0}]))'.format(v))
    want_dict = NS('type({0})(dict(zip({0}.keys(), await asyncio.gather(*[waiter(v) for v in {0}.values()]))))'.format(v))
    for p in sym_paths(f):
        if p.term != 'return':
            continue
        ctx.count(1, f.where(p.node))
        at = {t: pol for t, pol, _ in p.atoms()}
        if at.get(NS('isinstance(%s, (list, tuple))' % v)) is True:
            seen.add('seq')
            if p.text() != want_seq:
                ctx.fail(f, p.node, 'a list/tuple is answered with `%s` on the path [%s]; the only exit for a sequence is type(value)(await asyncio.gather(*[waiter(v) for v in value]))' % (
                    p.text(), ' & '.join(('' if q else 'not ') + t for t, q, _ in p.conds)[:160]), witness='waiter([(coro(), 1), 3])')
        elif at.get(NS('isinstance(%s, dict)' % v)) is True:
            seen.add('dict')
            if p.text() != want_dict:
                ctx.fail(f, p.node, 'a dict is answered with `%s`; the only exit for a dict zips value.keys() with the awaited values' % p.text())
        elif any(pol is True and ('Awaitable' in t or 'isawaitable' in t) for t, pol in at.items()):
            seen.add('await')
            if p.text() != 'await %s' % v:
                ctx.fail(f, p.node, 'an awaitable is answered with `%s`, expected await value' % p.text())
        else:
            seen.add('leaf')
            if p.text() != v:
                ctx.fail(f, p.node, 'a plain leaf is answered with `%s`' % p.text())
    if not ctx.findings and seen != {'seq', 'dict', 'await', 'leaf'}:
        ctx.fail(f, f.node, 'waiter no longer has its four exits (sequence, dict, awaitable, leaf): %s' % sorted(seen))
