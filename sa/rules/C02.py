"""C02 join is the relational join, xor the anti-join; both terminate (structural necessary conditions)."""
import ast, itertools
from ..core import obligation, AnalysisError
from .common import *
from ..core import Fn


def cursor_loops(fn):
    """outer `while A and B` loops whose body contains inner loops/ifs that increment integer cursors."""
    out = []
    for n in body_nodes(fn.node):
        if isinstance(n, ast.While) and isinstance(n.test, ast.BoolOp) and isinstance(n.test.op, ast.And):
            if any(isinstance(m, ast.While) for m in n.body):
                out.append(n)
    return out


def incs(stmts):
    s = set()
    for st in stmts:
        for n in ast.walk(st):
            if isinstance(n, ast.AugAssign) and isinstance(n.op, ast.Add) and isinstance(n.target, ast.Name) and const(n.value) is not None and const(n.value) > 0:
                s.add(n.target.id)
            if isinstance(n, ast.Assign) and len(n.targets) == 1 and isinstance(n.targets[0], ast.Name) and isinstance(n.value, ast.BinOp) and isinstance(n.value.op, ast.Add):
                t = n.targets[0].id
                a, b = n.value.left, n.value.right
                if (U(a) == t and (const(b) or 0) > 0) or (U(b) == t and (const(a) or 0) > 0):
                    s.add(t)
    return s


def always_incs(stmts, cursors):
    """does every path through stmts increment at least one of `cursors`?"""
    for p in paths(stmts, bound=256):
        if p.term in ('raise', 'return'):
            continue
        if not (incs(p.stmts) & cursors):
            return False
    return True


def classify(c, bounds):
    s = N(c)
    if s in bounds:
        return ('B', s)
    if isinstance(c, ast.Compare) and len(c.ops) == 1 and isinstance(c.ops[0], ast.Eq):
        a, b = c.left, c.comparators[0]
        if isinstance(b, ast.Call):
            a, b = b, a
        if isinstance(a, ast.Call) and call_name(a) == 'cmp' and const(b) in (-1, 0, 1):
            return ('CMP', U(a), const(b))
    return ('OTHER', s)


def merge_loop_facts(fn, loop):
    bounds = {N(c) for c in conjuncts(loop.test)}
    cursors = set()
    for c in conjuncts(loop.test):
        c = canon(c)
        if isinstance(c, ast.Compare) and len(c.ops) == 1 and isinstance(c.ops[0], (ast.Lt, ast.LtE)) and isinstance(c.left, ast.Name):
            cursors.add(c.left.id)
    guards = []   # (stmt, [classified conjuncts], incremented cursors)
    for st in loop.body:
        if isinstance(st, (ast.While, ast.If)):
            guards.append((st, [classify(c, bounds) for c in conjuncts(st.test)], incs(st.body) & cursors))
    return bounds, cursors, guards


@obligation('C02.1', 'PATH+PROP loop progress', 'the cursor merge loops of dictable.join and dictable.xor',
            'join and xor must terminate on every input: an outer iteration in which no cursor advances repeats forever. '
            'Under the axiom that the outcomes of one pure call cmp(a, b) are exactly one of -1/0/1 the no-progress path must be unsatisfiable',
            axioms=('A1', 'A5', 'range of cmp is {-1,0,1} (obligation C02.2)'))
def c02_1(ctx):
    n = 0
    for name in ('join', 'xor'):
        fn = ctx.repo.fn('_dictable:dictable.%s' % name)
        loops = cursor_loops(fn)
        if not loops:
            hashed = [x for x in ast.walk(fn.node) if isinstance(x, ast.Compare) and isinstance(x.ops[0], (ast.In, ast.NotIn))
                      and ((isinstance(x.comparators[0], ast.Call) and call_name(x.comparators[0]) in ('set', 'dict', 'frozenset')) or any(isinstance(c_, ast.Call) and call_name(c_) in ('set', 'dict', 'frozenset') for s_ in ast.walk(fn.node) if isinstance(s_, ast.Assign) and U(s_.targets[0]) == U(x.comparators[0]) for c_ in [s_.value]))]
            if hashed:
                ctx.count(1, fn.where(hashed[0]))
                ctx.fail(fn, hashed[0], 'dictable.%s decides which keys match by hashing (`%s`): equality of keys is defined by cmp (NaN equals NaN whatever the object, 1 equals 1.0, as in the sorted merge of its sibling), a set lookup uses ==/hash and puts such rows on both sides of the partition' % (name, U(hashed[0])),
                         witness="keys float('nan') read twice from a DataFrame")
                continue
            raise AnalysisError('no cursor merge loop found in dictable.%s' % name)
        for loop in loops:
            n += 1
            bounds, cursors, guards = merge_loop_facts(fn, loop)
            ctx.need(len(cursors) >= 2, 'merge loop in %s does not test two cursors' % name)
            progress = []
            for st, gs, inc in guards:
                if isinstance(st, ast.While):
                    ctx.count(1, fn.where(st))
                    wc = {c.left.id for c in map(canon, conjuncts(st.test)) if isinstance(c, ast.Compare) and isinstance(c.left, ast.Name)} & cursors
                    if not always_incs(st.body, wc or cursors):
                        ctx.fail(fn, st, 'inner loop `while %s` has a path through its body that advances no cursor it tests: it never exits' % U(st.test)[:70],
                                 witness=dict(cursors=sorted(wc or cursors)))
                        continue
                    progress.append(gs)
                elif always_incs(st.body, cursors):
                    progress.append(gs)
            for st in loop.body:
                if not isinstance(st, (ast.While, ast.If)) and incs([st]) & cursors:
                    progress = None   # unconditional increment: progress on every iteration
                    break
            if progress is None:
                continue
            calls = sorted({g[1] for gs in progress for g in gs if g[0] == 'CMP'})
            others = sorted({g[1] for gs in progress for g in gs if g[0] == 'OTHER'})
            if len(calls) + len(others) > 12:
                raise AnalysisError('too many atoms in merge loop')
            witnesses = []
            for outcome in itertools.product([-1, 0, 1], repeat=len(calls)):
                for bits in itertools.product([False, True], repeat=len(others)):
                    ec, eo = dict(zip(calls, outcome)), dict(zip(others, bits))
                    val = lambda g: True if g[0] == 'B' else (ec[g[1]] == g[2] if g[0] == 'CMP' else eo[g[1]])
                    if all(not all(val(g) for g in gs) for gs in progress):
                        witnesses.append(dict(cmp=ec, other=eo))
            ctx.count(1, fn.where(loop))
            if witnesses:
                w = witnesses[0]
                # report at the guard that uses a predicate other than the cmp outcome, if any
                site = loop
                for st, gs, inc in guards:
                    if any(g[0] == 'OTHER' for g in gs):
                        site = st
                desc = ' and '.join(['%s == %d' % kv for kv in w['cmp'].items()] + [('%s' if v else 'not (%s)') % k for k, v in w['other'].items()])
                ctx.fail(fn, site, 'an iteration of the merge loop can advance no cursor when ' + desc + ': the loop spins forever',
                         witness=w, stmt=ast.If(site.test, [ast.Pass()], []) if isinstance(site, ast.If) else ast.While(site.test, [ast.Pass()], []))
    ctx.at_least(2, n, 'merge loops')


RANGE_OK = set()   # further functions of _sort proved (by the same rule, coinductively) to return only -1/0/1


def _range_ok(fn, e, names_ok, depth=0):
    if const(e) in (-1, 0, 1) and isinstance(const(e), int) and not isinstance(const(e), bool):
        return True
    if isinstance(e, ast.IfExp):
        return _range_ok(fn, e.body, names_ok) and _range_ok(fn, e.orelse, names_ok)
    if isinstance(e, ast.Call) and isinstance(e.func, ast.Name) and (e.func.id in ('cmp', 'cmparr') or e.func.id in RANGE_OK):
        return True
    if isinstance(e, ast.Name) and e.id in names_ok:
        return True
    return False


@obligation('C02.2', 'NUM range', '_sort:cmp, _sort:cmparr',
            'the trichotomy used by the merge loops (and by Cmp.__lt__/__gt__) needs cmp to return only -1, 0 or 1',
            axioms=('A1',))
def c02_2(ctx):
    RANGE_OK.clear()
    names = ['cmp', 'cmparr']
    # helpers of the same module called in return position are checked by the same rule (cycle assumption is sound: greatest fixpoint)
    for name in list(names):
        for r0 in returns_of(ctx.repo.fn('_sort:%s' % name).node):
            if r0.value is not None and isinstance(r0.value, ast.Call) and isinstance(r0.value.func, ast.Name) and ctx.repo.has_fn('_sort:%s' % r0.value.func.id) and r0.value.func.id not in names:
                names.append(r0.value.func.id)
                RANGE_OK.add(r0.value.func.id)
    for name in names:
        fn = ctx.repo.fn('_sort:%s' % name)
        # names that only ever hold values in range
        assigned = {}
        for n in body_nodes(fn.node):
            if isinstance(n, ast.Assign) and len(n.targets) == 1 and isinstance(n.targets[0], ast.Name):
                assigned.setdefault(n.targets[0].id, []).append(n.value)
            elif isinstance(n, (ast.AugAssign,)) and isinstance(n.target, ast.Name):
                assigned.setdefault(n.target.id, []).append(None)
            elif isinstance(n, (ast.For,)):
                for t in ast.walk(n.target):
                    if isinstance(t, ast.Name):
                        assigned.setdefault(t.id, []).append(None)
        names_ok = set()
        for k, vs in assigned.items():
            if k not in fn.params and all(v is not None and _range_ok(fn, v, set()) for v in vs):
                names_ok.add(k)
        rets = returns_of(fn.node)
        ctx.need(len(rets) >= 2, '%s has too few returns' % name)
        for r0 in rets:
            ctx.count(1, fn.where(r0))
            if r0.value is None or not _range_ok(fn, r0.value, names_ok):
                ctx.fail(fn, r0, '%s may return a value outside {-1, 0, 1}: %s' % (name, U(r0.value) if r0.value is not None else 'None'))
        # falling off the end returns None
        ps = [p for p in paths(fn.body, bound=2048) if p.term == 'fall']
        if ps:
            ctx.fail(fn, fn.node, '%s can fall off its end and return None' % name, witness=ps[0].cond_texts())


@obligation('C02.3', 'CONTRADICTION key equality', '_dictable:dictable._listby vs the merge loops',
            'grouping decides key equality with the same relation as the ordering (cmp == 0); with `==` distinct NaN objects, which cmp ranks equal, '
            'form separate adjacent groups and the merge pairs groups one to one, so rows with duplicate NaN keys are lost',
            axioms=('A1',))
def c02_3(ctx):
    fn = ctx.repo.fn('_dictable:dictable._listby')
    loops = [n for n in fn.body if isinstance(n, ast.For)]
    ctx.need(len(loops) == 1, 'run-length loop of _listby not found')
    loop = loops[0]
    tg = loop.target
    ctx.need(isinstance(tg, ast.Tuple) and len(tg.elts) == 2, 'run-length loop does not unpack (key, index)')
    key = U(tg.elts[0])
    eqs = []
    for n in ast.walk(loop):
        if isinstance(n, ast.Compare) and len(n.ops) == 1 and isinstance(n.ops[0], (ast.Eq, ast.NotEq)) and key in (U(n.left), U(n.comparators[0])):
            other = n.comparators[0] if U(n.left) == key else n.left
            if isinstance(other, ast.Name):
                eqs.append(n)
    cm = [n for n in ast.walk(loop) if isinstance(n, ast.Call) and call_name(n) in ('cmp', 'eq') and any(U(a) == key for a in n.args)]
    ctx.count(1, fn.where(loop))
    if eqs and not cm:
        pm = parent_map(fn.node)
        for e in eqs:
            ctx.fail(fn, enclosing_stmt(pm, e), 'group boundary is decided with `%s` although the rows were ordered with cmp: keys that cmp ranks equal but == separates (distinct NaN objects) split one key into several groups' % U(e),
                     witness='dictable(a=[nan1, nan2]) with two distinct float("nan") objects', stmt=e)
    elif not eqs and not cm:
        raise AnalysisError('no key comparison found in the run-length loop of _listby')


def _expansions(fn):
    """[(stmt, comp)] for  rtn[k] = sum([[ELT for a in A for b in B] for A, B in zip(X, Y)], [])"""
    out = []
    for n in body_nodes(fn.node):
        if isinstance(n, ast.Assign) and isinstance(n.value, ast.Call) and call_name(n.value) == 'sum' and len(n.value.args) == 2:
            outer = n.value.args[0]
            if isinstance(outer, ast.ListComp) and isinstance(outer.elt, ast.ListComp) and len(outer.elt.generators) == 2:
                out.append((n, outer))
    return out


@obligation('C02.4', 'SIBLING cross-product alignment', 'the column expansions of dictable.join',
            'the rows of the per-group product must stay aligned across columns: every column iterates the same (left ids) x (right ids) nesting over the same zip of groups, left columns index with the left id and right columns with the right id',
            axioms=('A1',))
def c02_4(ctx):
    fn = ctx.repo.fn('_dictable:dictable.join')
    ex = _expansions(fn)
    ctx.at_least(5, len(ex), 'column expansions in join')
    # which locals hold left / right columns
    side = {}
    for n in body_nodes(fn.node):
        if isinstance(n, ast.Assign) and len(n.targets) == 1 and isinstance(n.targets[0], ast.Name) and isinstance(n.value, ast.Subscript):
            base = U(n.value.value)
            if base in ('self', 'other'):
                side.setdefault(n.targets[0].id, set()).add('L' if base == 'self' else 'R')
    ref = None
    for st, outer in ex:
        ctx.count(1, fn.where(st))
        g = outer.generators
        if not (len(g) == 1 and isinstance(g[0].iter, ast.Call) and call_name(g[0].iter) == 'zip' and len(g[0].iter.args) == 2 and isinstance(g[0].target, ast.Tuple) and len(g[0].target.elts) == 2):
            raise AnalysisError('unexpected outer generator in join expansion: %s' % U(outer)[:80])
        X, Y = [U(a) for a in g[0].iter.args]
        A, B = [U(a) for a in g[0].target.elts]
        ig = outer.elt.generators
        a, ia, b, ib = U(ig[0].target), U(ig[0].iter), U(ig[1].target), U(ig[1].iter)
        shape = (X, Y, ia == A and ib == B)
        if ref is None:
            ref = (shape, st)
            if not (ia == A and ib == B):
                if ia == B and ib == A:
                    pass   # consistently swapped nesting is acceptable only if all sites agree (checked below)
                else:
                    ctx.fail(fn, st, 'inner generators iterate %s, %s instead of the group pair (%s, %s)' % (ia, ib, A, B))
        elif shape != ref[0]:
            ctx.fail(fn, st, 'this column is expanded with a different nesting/zip than its siblings (%s vs %s): product rows are misaligned across columns' % (shape, ref[0]),
                     witness=dict(this=U(outer)[:120], sibling=U(ref[1])[:120]))
        # which id variable belongs to which side: the variable iterating the first zip operand is the left id
        left_id = a if ia == A else b
        right_id = b if ib == B else a
        for s in ast.walk(outer.elt.elt):
            if isinstance(s, ast.Subscript) and isinstance(s.value, ast.Name) and s.value.id in side:
                sd = side[s.value.id]
                idx = U(s.slice)
                want = left_id if sd == {'L'} else right_id if sd == {'R'} else None
                # a name assigned from both sides in different branches: decide by the assignment in the same branch
                if want is None:
                    want = _branch_side(fn, st, s.value.id, left_id, right_id)
                if want is not None and idx != want:
                    ctx.fail(fn, st, 'column of the %s table is indexed with `%s` (the other side\'s row id)' % ('left' if want == left_id else 'right', idx))
    if ref and (ref[0][0], ref[0][1]) != ('lids', 'rids'):
        ns = [n for n in body_nodes(fn.node) if isinstance(n, ast.Assign) and U(n.targets[0]) == 'ns']
        if ns and 'zip(%s, %s)' % (ref[0][0], ref[0][1]) not in U(ns[0].value):
            ctx.fail(fn, ns[0], 'group sizes are computed over a different zip than the column expansions')
    # key column repeated len(l)*len(r) times
    ns = [n for n in body_nodes(fn.node) if isinstance(n, ast.Assign) and isinstance(n.value, ast.ListComp) and isinstance(n.value.elt, ast.BinOp) and isinstance(n.value.elt.op, ast.Mult)
          and all(isinstance(x, ast.Call) and call_name(x) == 'len' for x in (n.value.elt.left, n.value.elt.right))]
    ctx.count(1)
    if not ns:
        ctx.fail(fn, fn.node, 'key column is no longer repeated len(left group) * len(right group) times per matched group')


def _branch_side(fn, st, name, left_id, right_id):
    """for a local assigned from self[...] in one branch and other[...] in another: use the assignment preceding `st` in the same block."""
    pm = parent_map(fn.node)
    blk = pm.get(st)
    for field in ('body', 'orelse'):
        lst = getattr(blk, field, None)
        if isinstance(lst, list) and st in lst:
            i = lst.index(st)
            for prev in reversed(lst[:i]):
                if isinstance(prev, ast.Assign) and U(prev.targets[0]) == name and isinstance(prev.value, ast.Subscript):
                    return left_id if U(prev.value.value) == 'self' else right_id if U(prev.value.value) == 'other' else None
    return None


def _cursor_table(ctx, fn, loop):
    """{outcome: set(cursors advanced)} for the three guarded statements of a merge loop."""
    bounds, cursors, guards = merge_loop_facts(fn, loop)
    tab = {}
    for st, gs, inc in guards:
        outs = [g for g in gs if g[0] in ('CMP', 'OTHER')]
        key = None
        for g in outs:
            if g[0] == 'CMP':
                key = g[2]
            elif g[0] == 'OTHER' and '==' in g[1]:
                key = 0   # the equality branch (see C02.1 for the predicate it should use)
        tab[key] = (inc, st)
    return cursors, tab


@obligation('C02.5', 'SIBLING skeleton + MATCH', 'merge loops of join and xor; xor collection and tail flush',
            'both loops must advance the left cursor on cmp == -1, the right one on cmp == 1 and both on equality; xor returns exactly the rows matching nothing: it collects the group it steps over alone, nothing on equality, and flushes the unvisited tail',
            axioms=('A1',))
def c02_5(ctx):
    tabs = {}
    for name in ('join', 'xor'):
        fn = ctx.repo.fn('_dictable:dictable.%s' % name)
        loops = cursor_loops(fn)
        ctx.need(len(loops) == 1, 'expected one merge loop in %s' % name)
        loop = loops[0]
        cursors, tab = _cursor_table(ctx, fn, loop)
        # identify left/right cursor from the cmp call: cmp(LX[l], RX[r])
        cm = [c for c in calls_in(loop, 'cmp') if len(c.args) == 2 and all(isinstance(a, ast.Subscript) for a in c.args)]
        ctx.need(cm, 'no cmp(lxs[l], rxs[r]) call in the merge loop of %s' % name)
        lcur, rcur = U(cm[0].args[0].slice), U(cm[0].args[1].slice)
        lkeys, rkeys = U(cm[0].args[0].value), U(cm[0].args[1].value)
        for c in cm:
            ctx.count(1)
            if (U(c.args[0]), U(c.args[1])) != (U(cm[0].args[0]), U(cm[0].args[1])):
                ctx.fail(fn, c, 'merge loop compares %s here but %s elsewhere' % (U(c), U(cm[0])))
        want = {-1: {lcur}, 1: {rcur}, 0: {lcur, rcur}}
        for k, w in want.items():
            ctx.count(1, fn.where(loop))
            if k not in tab:
                ctx.fail(fn, loop, 'merge loop of %s has no branch for outcome %d' % (name, k))
            elif tab[k][0] != w:
                ctx.fail(fn, tab[k][1], 'on outcome %d the merge loop of %s advances %s instead of %s' % (k, name, sorted(tab[k][0]), sorted(w)))
        tabs[name] = (fn, loop, tab, lcur, rcur)
        # the key lists must come from _listby of the respective sides
        for nm, side in ((lkeys, 'self'), (rkeys, 'other')):
            src = [n for n in body_nodes(fn.node) if isinstance(n, ast.Assign) and isinstance(n.targets[0], ast.Tuple) and U(n.targets[0].elts[0]) == nm]
            ctx.count(1)
            if not src or not (isinstance(src[0].value, ast.Call) and call_name(src[0].value) == '_listby' and U(src[0].value.func.value) == side):
                ctx.fail(fn, src[0] if src else fn.node, '%s is not the grouped key list of %s' % (nm, side))
    # shortcuts around the merge loop ("the key ranges do not overlap, nothing to merge"): two EQUAL keys always have something to merge, so
    # a test on cmp(key, key) that leaves the function may not put outcome 0 together with an ordered outcome (`!= 1`, `<= 0`, `>= 0` ...)
    import operator as _op
    OPS = {ast.Eq: _op.eq, ast.NotEq: _op.ne, ast.Lt: _op.lt, ast.LtE: _op.le, ast.Gt: _op.gt, ast.GtE: _op.ge}
    for name, (fn, loop, tab, lcur, rcur) in tabs.items():
        inside = {id(n) for n in ast.walk(loop)}
        ctx.count(1, fn.where())
        for n in body_nodes(fn.node):
            if not isinstance(n, ast.If) or id(n) in inside or not any(isinstance(x, ast.Return) for b in n.body for x in ast.walk(b)):
                continue
            for c in ast.walk(n.test):
                if isinstance(c, ast.Compare) and len(c.ops) == 1 and type(c.ops[0]) in OPS and isinstance(c.left, ast.Call) and call_name(c.left) == 'cmp' \
                        and len(c.left.args) == 2 and all(isinstance(a, ast.Subscript) for a in c.left.args):
                    k = const(c.comparators[0])
                    if k is None and isinstance(c.comparators[0], ast.UnaryOp) and isinstance(c.comparators[0].op, ast.USub):
                        k = -const(c.comparators[0].operand)
                    if not isinstance(k, int):
                        continue
                    ctx.count(1, fn.where(n))
                    adm = {o for o in (-1, 0, 1) if OPS[type(c.ops[0])](o, k)}
                    if 0 in adm and len(adm) == 2:
                        ctx.fail(fn, n, '%s leaves before the merge loop under `%s`, which holds for EQUAL keys as well as for ordered ones: a key that is the last of one table and the first of the other is matched by the join but treated as unmatched here' % (name, U(c)),
                                 witness='x with keys 1,2 and y with keys 2,3: key 2 is in x.join(y) and must not be in x/y')
    # xor specifics
    fn, loop, tab, lcur, rcur = tabs['xor']
    def appends(st):
        return [c for c in calls_in(st) if call_name(c) in ('append', 'extend') and isinstance(c.func, ast.Attribute)]
    for k, cur, ids, mode in ((-1, lcur, 'lids', 0), (1, rcur, 'rids', 1)):
        if k not in tab:
            continue
        st = tab[k][1]
        ap = appends(st)
        ctx.count(1, fn.where(st))
        good = [a for a in ap if a.args and N(a.args[0]) == '%s[%s]' % (ids, cur)]
        if not good:
            ctx.fail(fn, st, 'xor does not collect %s[%s] when it steps over an unmatched %s group' % (ids, cur, 'left' if k == -1 else 'right'))
            continue
        pm = parent_map(st)
        g = pm.get(pm.get(good[0]))
        if not (isinstance(g, ast.If) and N(g.test) == NS('mode == %d' % mode)):
            ctx.fail(fn, st, 'collection of %s is not under `mode == %d`' % (ids, mode))
    if 0 in tab:
        ctx.count(1)
        if appends(tab[0][1]):
            ctx.fail(fn, tab[0][1], 'xor collects rows in the equal-keys branch: matched rows would be returned')
    # tail flush after the loop
    after = fn.body[fn.body.index(loop) + 1:] if loop in fn.body else []
    for cur, ids, side, mode in ((lcur, 'lids', 'self', 0), (rcur, 'rids', 'other', 1)):
        ctx.count(1)
        fl = [c for s in after for c in calls_in(s, 'extend') if c.args and N(c.args[0]) == '%s[%s:]' % (ids, cur)]
        if not fl:
            ctx.fail(fn, loop, 'xor no longer flushes the unvisited tail %s[%s:] after the merge loop: trailing unmatched rows are dropped' % (ids, cur))
        rets = [r for s in after for r in ast.walk(s) if isinstance(r, ast.Return) and r.value is not None and isinstance(r.value, ast.Subscript) and U(r.value.value) == side]
        if not rets or not any(N(r.value.slice) == 'sum(res, [])' for r in rets):
            ctx.fail(fn, loop, 'xor does not return %s[sum(res, [])] for mode %d' % (side, mode))


@obligation('C02.6', 'MATCH', '_dictable:dictable.join',
            'with no key the result is the full cross product; an empty result keeps all columns; same-named non-key columns follow the mode table',
            axioms=('A1',))
def c02_6(ctx):
    fn = ctx.repo.fn('_dictable:dictable.join')
    for f0 in (fn, ctx.repo.fn('_dictable:dictable.xor')):
        none_not_falsy(ctx, f0, ['lcols', 'rcols'], 'an explicitly empty key list means "no key" (the full cross product); treating it like None turns it into a join on the shared column names')
        for nm in ('lcols', 'rcols'):
            dflt = [s for s in f0.body if isinstance(s, ast.If) and N(s.test) == NS('%s is None' % nm)]
            if not dflt:
                ctx.fail(f0, f0.node, 'the default of %s is not resolved under `%s is None`' % (nm, nm))
    # no-key branch
    ifs = [n for n in fn.body if isinstance(n, ast.If) and N(n.test) in ('len(cols)', NS('len(cols) > 0'), NS('len(cols) != 0'))]
    ctx.need(len(ifs) == 1, 'the `if len(cols)` split of join not found')
    els = else_of(ifs[0])
    ctx.count(1, fn.where(ifs[0]))
    txt = ' ; '.join(N(s.value) + '->' + U(s.targets[0]) for s in els if isinstance(s, ast.Assign))
    if 'range(len(self))' not in txt or 'range(len(other))' not in txt:
        ctx.fail(fn, ifs[0], 'no-key branch does not pair all rows of self with all rows of other (range(len(self)) x range(len(other)))')
    else:
        for s in els:
            if isinstance(s, ast.Assign) and isinstance(s.targets[0], ast.Name) and U(s.targets[0]) in ('lids', 'rids'):
                want = 'range(len(self))' if U(s.targets[0]) == 'lids' else 'range(len(other))'
                if want not in U(s.value):
                    ctx.fail(fn, s, '%s of the cross product ranges over the wrong table: %s' % (U(s.targets[0]), U(s.value)))
    # empty result keeps columns
    ctx.count(1)
    emp = [n for n in ast.walk(ifs[0]) if isinstance(n, ast.Return) and isinstance(n.value, ast.Call) and len(n.value.args) == 2 and N(n.value.args[0]) == '[]']
    if not emp:
        ctx.fail(fn, ifs[0], 'join with no matching keys no longer returns an empty table carrying the result columns')
    else:
        cols = set(names_in(emp[0].value.args[1]))
        if not {'cols', 'lkeys', 'rkeys', 'jkeys'} <= cols:
            ctx.fail(fn, emp[0], 'empty join result drops some of the columns: %s' % U(emp[0].value.args[1]))
    # mode table
    loops = [n for n in fn.body if isinstance(n, ast.For) and U(n.iter) == 'jkeys']
    ctx.need(len(loops) == 1, 'loop over the same-named non-key columns not found')
    chain = if_chain(loops[0].body[0]) if isinstance(loops[0].body[0], ast.If) else []
    ctx.need(len(chain) == 4, 'mode dispatch of join does not have four branches')
    expect = [("'l'", '0', 'self'), ("'r'", '1', 'other')]
    for (test, body), (letter, num, side) in zip(chain[:2], expect):
        ctx.count(1, fn.where(body[0]))
        ok, w = prop_equiv(test, "is_str(mode) and mode[0].lower() == %s or mode == %s" % (letter, num))
        if not ok:
            ctx.fail(fn, body[0], 'mode branch test `%s` is not equivalent to `is_str(mode) and mode[0].lower() == %s or mode == %s`' % (U(test), letter, num), witness=w)
        src = [s for s in body if isinstance(s, ast.Assign) and isinstance(s.value, ast.Subscript) and U(s.value.value) in ('self', 'other')]
        if not src or U(src[0].value.value) != side:
            ctx.fail(fn, body[0], "mode %s/%s takes the column from `%s`, expected `%s`" % (letter, num, U(src[0].value.value) if src else '?', side))
    test, body = chain[2]
    ctx.count(1)
    if N(test) != 'callable(mode)' or not any(isinstance(c, ast.Call) and U(c.func) == 'mode' and len(c.args) == 2 for s in body for c in ast.walk(s)):
        ctx.fail(fn, body[0], 'callable mode is not applied to the (left, right) pair')
    else:
        c = [c for s in body for c in ast.walk(s) if isinstance(c, ast.Call) and U(c.func) == 'mode'][0]
        lv = [s for s in body if isinstance(s, ast.Assign) and U(s.value).startswith('self[')]
        rv = [s for s in body if isinstance(s, ast.Assign) and U(s.value).startswith('other[')]
        if lv and rv and not (U(c.args[0]).startswith(U(lv[0].targets[0]) + '[') and U(c.args[1]).startswith(U(rv[0].targets[0]) + '[')):
            ctx.fail(fn, body[-1], 'callable mode receives its arguments as (right, left)')
    test, body = chain[3]
    ctx.count(1)
    tup = [t for s in body for t in ast.walk(s) if isinstance(t, ast.Tuple) and len(t.elts) == 2 and all(isinstance(e, ast.Subscript) for e in t.elts)]
    if test is not None or not tup:
        ctx.fail(fn, body[0], 'default mode no longer pairs the two values in a tuple')


@obligation('C02.7', 'ALIAS purity', 'dictable.join, dictable.xor, dictable._listby',
            'both calls must leave both operands unchanged (including through the dictable(other) conversion)',
            axioms=('A1',))
def c02_7(ctx):
    r = ctx.repo
    fns = [r.fn('_dictable:dictable.%s' % m) for m in ('join', 'xor', '_listby')]
    purity(ctx, fns)


def cmparr_lexicographic(ctx):
    fn = ctx.repo.fn('_sort:cmparr')
    loops = [s for s in fn.body if isinstance(s, (ast.For, ast.While))]
    ctx.need(len(loops) == 1, 'element loop of cmparr not found')
    loop = loops[0]
    ctx.need(isinstance(loop, ast.For) and isinstance(loop.iter, ast.Call) and call_name(loop.iter) == 'zip' and [U(a) for a in loop.iter.args] == fn.params[:2],
             'cmparr does not iterate zip(x, y)')
    # names holding a cmp outcome
    outcome = set()
    comparator = None
    for n in ast.walk(loop):
        if isinstance(n, ast.Assign) and isinstance(n.value, ast.Call) and isinstance(n.value.func, ast.Name) and isinstance(n.targets[0], ast.Name):
            g = ctx.repo.resolve_name(fn.mod, n.value.func.id)
            if isinstance(g, Fn):
                outcome.add(n.targets[0].id)
                comparator = g
    for n in ast.walk(loop):
        if isinstance(n, ast.Call) and isinstance(n.func, ast.Name) and comparator is None:
            g = ctx.repo.resolve_name(fn.mod, n.func.id)
            if isinstance(g, Fn):
                comparator = g
    ctx.need(comparator is not None, 'cmparr compares elements with no repository function')
    pm = parent_map(loop)
    for n in ast.walk(loop):
        if isinstance(n, ast.If):
            ctx.count(1, fn.where(n))
            nm = names_in(n.test)
            calls = [c for c in ast.walk(n.test) if isinstance(c, ast.Call)]
            only_outcome = nm and nm <= outcome and not calls
            direct = calls and all(isinstance(c.func, ast.Name) and isinstance(ctx.repo.resolve_name(fn.mod, c.func.id), Fn) for c in calls) and not (nm - outcome - {U(a) for c in calls for a in c.args} - {c.func.id for c in calls} - set(U(loop.target).replace('(', '').replace(')', '').replace(' ', '').split(',')))
            if not (only_outcome or (direct and not any(isinstance(x, ast.Compare) and isinstance(x.ops[0], (ast.Is, ast.IsNot)) for x in ast.walk(n.test)) and not any(isinstance(x, ast.Compare) and isinstance(x.ops[0], ast.Eq) and not isinstance(x.left, ast.Call) and not isinstance(x.comparators[0], ast.Call) and const(x.comparators[0]) is None for x in ast.walk(n.test)))):
                ctx.fail(fn, n, 'cmparr decides `%s` with a relation other than the cmp outcome: pairs that == separates but cmp ranks equal (distinct NaN objects), or that == equates but cmp separates (1 and True), are handled inconsistently' % U(n.test))
        if isinstance(n, ast.Return):
            ctx.count(1, fn.where(n))
            v = n.value
            guard = pm.get(n)
            nonzero = False
            if isinstance(v, ast.Name) and v.id in outcome and isinstance(guard, ast.If) and N(guard.test) in (NS('%s != 0' % v.id), v.id) and n in guard.body:
                nonzero = True
            if const(v) in (-1, 1):
                nonzero = True
            if not nonzero:
                ctx.fail(fn, n, 'cmparr returns `%s` from inside the element loop without knowing it is non-zero: a pair that cmp ranks equal ends the comparison before the later elements are compared' % U(v),
                         witness='cmp((nan1, 1), (nan2, 2)) with distinct NaN objects')
    # after the loop: equal
    tail = [s for s in fn.body[fn.body.index(loop) + 1:] if isinstance(s, ast.Return)]
    ctx.count(1)
    if not tail or not (const(tail[-1].value) == 0 or (isinstance(tail[-1].value, ast.Name) and tail[-1].value.id in outcome)):
        ctx.fail(fn, tail[-1] if tail else fn.node, 'cmparr does not return 0 when every pair compares equal')
    # per-element normalisation
    ctx.count(1, comparator.where())
    norm = [s for s in comparator.body if isinstance(s, ast.Assign) and isinstance(s.value, ast.Call) and call_name(s.value) == 'as_primitive']
    px, py = comparator.params[:2]
    if not norm or N(norm[0].targets[0]) != '(%s, %s)' % (px, py) or N(norm[0].value) != 'as_primitive([%s, %s])' % (px, py):
        ctx.fail(fn, loop, 'elements are compared with %s, which does not normalise its operands with as_primitive: numpy scalars / dates inside dict values or arrays are not compared like top-level operands' % comparator.name,
                 witness='cmp(dict(a=np.int64(2)), dict(a=2.0)) != 0')
    top = ctx.repo.fn('_sort:cmp')
    norm = [s for s in top.body if isinstance(s, ast.Assign) and isinstance(s.value, ast.Call) and call_name(s.value) == 'as_primitive']
    if not norm:
        ctx.fail(top, top.node, 'cmp no longer normalises its operands with as_primitive')


@obligation('C02.8', 'PATH lexicographic', '_sort:cmparr (key tuples of join/xor are compared with it)',
            'multi-column keys are equal only if every column is: cmparr may stop only at a pair whose cmp is non-zero and must decide with the cmp outcome alone, else (nan, 1) matches (nan, 2) for distinct NaN objects',
            axioms=('A1', 'A5'))
def c02_8(ctx):
    cmparr_lexicographic(ctx)


def _venn_eval(e, env):
    """evaluate a set-algebra expression over Venn regions (bitsets): names from env; a - b, a & b, a + b / a | b"""
    if isinstance(e, ast.Name) and e.id in env:
        return env[e.id]
    k = N(e)
    if k in env:
        return env[k]
    if isinstance(e, ast.BinOp):
        a, b = _venn_eval(e.left, env), _venn_eval(e.right, env)
        if isinstance(e.op, ast.Sub):
            return a & ~b
        if isinstance(e.op, ast.BitAnd):
            return a & b
        if isinstance(e.op, (ast.Add, ast.BitOr)):
            return a | b
    raise AnalysisError('expression outside the set algebra of the key bookkeeping: %s' % U(e))


@obligation('C02.9', 'NUM (set algebra over Venn regions) + PATH', 'column bookkeeping of dictable.join',
            'each result row carries the key, every other column of both sides and same-named non-key columns combined by mode: with L, R the column sets of the operands and C the key columns, '
            'left-only = L-C-R, right-only = R-C-L, shared = (L&R)-C; every column of each class is stored into the result on every path; the empty result carries their union',
            axioms=('A1',))
def c02_9(ctx):
    fn = ctx.repo.fn('_dictable:dictable.join')
    # regions of the Venn diagram of (L, R, C): bit i set <=> region i included
    regions = [(l, r_, c) for l in (0, 1) for r_ in (0, 1) for c in (0, 1)]
    full = (1 << len(regions)) - 1

    def mask(pred):
        m = 0
        for i, reg in enumerate(regions):
            if pred(*reg):
                m |= 1 << i
        return m
    env = {'self.keys()': mask(lambda l, r_, c: l), 'other.keys()': mask(lambda l, r_, c: r_), 'cols': mask(lambda l, r_, c: c)}
    order = []
    for s in fn.body:
        if isinstance(s, ast.Assign) and isinstance(s.targets[0], ast.Name) and s.targets[0].id in ('lkeys', 'rkeys', 'jkeys'):
            env[s.targets[0].id] = _venn_eval(s.value, env) & full
            order.append(s)
    ctx.count(len(order), fn.where())
    want = {'lkeys': mask(lambda l, r_, c: l and not r_ and not c), 'rkeys': mask(lambda l, r_, c: r_ and not l and not c), 'jkeys': mask(lambda l, r_, c: l and r_ and not c)}
    names = {(1, 0, 0): 'a column only in the left table', (0, 1, 0): 'a column only in the right table', (1, 1, 0): 'a non-key column in both tables',
             (1, 0, 1): 'a key column of the left table', (0, 1, 1): 'a key column of the right table', (1, 1, 1): 'a key column in both tables', (0, 0, 1): 'a computed key', (0, 0, 0): 'no column'}
    for k, w in want.items():
        if k not in env:
            ctx.fail(fn, fn.node, 'join no longer computes the column class `%s`' % k)
            continue
        if env[k] != w:
            diff = env[k] ^ w
            i = [j for j in range(len(regions)) if diff >> j & 1][0]
            ctx.fail(fn, [s for s in order if s.targets[0].id == k][-1], 'column class `%s` is wrong for %s: it is %s but should be %s' % (k, names[regions[i]], 'included' if env[k] >> i & 1 else 'excluded', 'included' if w >> i & 1 else 'excluded'),
                     witness=dict(region=dict(zip(('in_left', 'in_right', 'is_key'), regions[i]))))
    # every class is written into the result
    for k, src in (('lkeys', 'self'), ('rkeys', 'other'), ('jkeys', None)):
        loops = [s for s in fn.body if isinstance(s, ast.For) and U(s.iter) == k]
        ctx.count(1)
        if len(loops) != 1:
            ctx.fail(fn, fn.node, 'join does not loop over the columns `%s`' % k)
            continue
        kv = U(loops[0].target)
        for p in paths(loops[0].body, bound=256):
            if p.term in ('raise',):
                continue
            st = [s for s in p.stmts if isinstance(s, ast.Assign) and N(s.targets[0]) == 'rtn[%s]' % kv]
            if not st:
                ctx.fail(fn, loops[0], 'a column of class `%s` is not stored into the result on the path [%s]' % (k, ' & '.join(p.cond_texts())[:100]))
                break
            if src is not None:
                vs = [s for s in p.stmts if isinstance(s, ast.Assign) and isinstance(s.value, ast.Subscript) and U(s.value.slice) == kv]
                if not vs or U(vs[0].value.value) != src:
                    ctx.fail(fn, loops[0], 'columns of class `%s` are read from `%s`, expected `%s`' % (k, U(vs[0].value.value) if vs else '?', src))
                    break
    # the result table starts with the key columns
    ctx.count(1)
    rt = [s for s in ast.walk(fn.node) if isinstance(s, ast.Assign) and U(s.targets[0]) == 'rtn' and isinstance(s.value, ast.Call) and len(s.value.args) == 2]
    if not rt or U(rt[0].value.args[1]) != 'cols':
        ctx.fail(fn, rt[0] if rt else fn.node, 'the key values are not stored under the key columns `cols`')
    else:
        comp = [c for c in ast.walk(rt[0].value.args[0]) if isinstance(c, ast.ListComp)]
        ok = comp and N(comp[0].elt) in (NS('[x] * n'), NS('n * [x]')) and N(comp[0].generators[0].iter) == 'zip(xs, ns)' and N(comp[0].generators[0].target) == '(x, n)'
        if not ok:
            ctx.fail(fn, rt[0], 'each key is not repeated once per row of its group product ([x] * n over zip(xs, ns)): %s' % U(rt[0].value.args[0])[:80])
    ns = [s for s in ast.walk(fn.node) if isinstance(s, ast.Assign) and U(s.targets[0]) == 'ns']
    if not ns or N(ns[0].value) not in (NS('[len(l) * len(r) for l, r in zip(lids, rids)]'), NS('[len(r) * len(l) for l, r in zip(lids, rids)]')):
        ctx.fail(fn, ns[0] if ns else fn.node, 'group product sizes are not len(left ids) * len(right ids) over zip(lids, rids)')
    # cols: per key pair, the name of whichever side is a column name; both formulas -> error
    ctx.count(1)
    lp = [s for s in fn.body if isinstance(s, ast.For) and N(s.iter) == 'zip(lcols, rcols)']
    if not lp or N(lp[0].target) != '(lcol, rcol)':
        ctx.fail(fn, lp[0] if lp else fn.node, 'key pairs are not taken as zip(lcols, rcols)')
    else:
        ch = if_chain(lp[0].body[0]) if isinstance(lp[0].body[0], ast.If) else []
        got = [(N(t) if t is not None else 'else', U(b[0])) for t, b in ch]
        if got[:2] != [('is_str(lcol)', 'cols.append(lcol)'), ('is_str(rcol)', 'cols.append(rcol)')] or len(got) != 3 or 'raise ValueError' not in got[2][1]:
            ctx.fail(fn, lp[0], 'key column names are not chosen as: left name if it is a name, else right name, else ValueError: %s' % got)
    # the matched groups
    ctx.count(1)
    eqb = [s for s in ast.walk(fn.node) if isinstance(s, ast.If) and 'cmp(' in U(s.test) and '== 0' in U(s.test)]
    if eqb and not any(isinstance(x, ast.Expr) and N(x.value) == 'res.append((lxs[l], lids[l], rids[r]))' for x in eqb[0].body):
        ctx.fail(fn, eqb[0], 'equal keys no longer record (key, left ids, right ids)')
    un = [s for s in ast.walk(fn.node) if isinstance(s, ast.Assign) and N(s.targets[0]) == '(xs, lids, rids)']
    if not un or N(un[0].value) != 'zip(*res)':
        ctx.fail(fn, un[0] if un else fn.node, 'the matched groups are not unpacked as xs, lids, rids = zip(*res)')
    else:
        # DEF-USE order: the per-group product sizes are computed from the UNPACKED id lists
        nsdef = [s_ for s_ in body_nodes(fn.node) if isinstance(s_, ast.Assign) and U(s_.targets[0]) == 'ns']
        if nsdef and nsdef[0].lineno < un[0].lineno:
            ctx.fail(fn, nsdef[0], 'the group product sizes are computed before `xs, lids, rids = zip(*res)`: they are taken from the id lists of the grouping step, not from the matched groups',
                     witness='duplicate keys plus an unmatched key that sorts before a matched one')
    ctx.count(1)
    ln = [s for s in fn.body if isinstance(s, ast.If) and any(isinstance(r0, ast.Raise) for r0 in s.body) and 'len(lcols)' in U(s.test)]
    if not ln or N(ln[0].test) != NS('len(lcols) != len(rcols)'):
        ctx.fail(fn, ln[0] if ln else fn.node, 'key lists of different length are not rejected')


@obligation('C02.10', 'NUM (unit steps)', 'cursors of the merge loops',
            'the merge visits every group of both sides: cursors start at 0 and advance by exactly 1 (a step of 2 skips a group, so matching rows are lost)',
            axioms=())
def c02_10(ctx):
    for name in ('join', 'xor'):
        fn = ctx.repo.fn('_dictable:dictable.%s' % name)
        loops = cursor_loops(fn)
        ctx.need(loops, 'merge loop not found')
        bounds, cursors, guards = merge_loop_facts(fn, loops[0])
        for c in sorted(cursors):
            init = [s for s in body_nodes(fn.node) if isinstance(s, ast.Assign) and U(s.targets[0]) == c and s.lineno < loops[0].lineno]
            ctx.count(1, fn.where(loops[0]))
            if not init or const(init[-1].value) != 0:
                ctx.fail(fn, init[-1] if init else loops[0], 'cursor %s starts at %s, not 0: the first group is never visited' % (c, U(init[-1].value) if init else 'nothing'))
            for n in ast.walk(loops[0]):
                if isinstance(n, ast.AugAssign) and U(n.target) == c:
                    ctx.count(1)
                    if not (isinstance(n.op, ast.Add) and const(n.value) == 1):
                        ctx.fail(fn, n, 'cursor %s advances by `%s %s`, expected += 1' % (c, type(n.op).__name__, U(n.value)))
        for nm, src in (('ls', 'len(lxs)'), ('rs', 'len(rxs)')):
            d = [s for s in body_nodes(fn.node) if isinstance(s, ast.Assign) and U(s.targets[0]) == nm]
            ctx.count(1)
            if not d or N(d[0].value) != src:
                ctx.fail(fn, d[0] if d else fn.node, 'bound %s is not %s' % (nm, src))
        want = sorted([NS('l < ls'), NS('r < rs')])
        if sorted(bounds) != want:
            ctx.fail(fn, loops[0], 'merge loop runs while `%s`, expected l < ls and r < rs' % U(loops[0].test))


@obligation('C02.11', 'PATH partition (shared with C11.1/C11.2)', '_dictable:dictable._listby',
            'join and xor pair GROUPS of rows: every row must be in exactly one group of its key (run-length loop over the sorted (key, index) pairs, last group flushed)',
            axioms=('A1',))
def c02_11(ctx):
    from . import C11 as _c11
    _c11.c11_1(ctx)
    _c11.c11_2(ctx)


@obligation('C02.12', 'PROP (truth tables) + PATH', 'argument normalisation of dictable.xor / dictable.join',
            'xor returns the unmatched rows of the side named by mode (left unless mode is "r..." or 1), with no key column it is a copy of x; a non-table operand is converted; key lists of different length are rejected',
            axioms=())
def c02_12(ctx):
    fx = ctx.repo.fn('_dictable:dictable.xor')
    md = [s for s in fx.body if isinstance(s, ast.Assign) and U(s.targets[0]) == 'mode']
    ctx.count(1, fx.where())
    if not md or not isinstance(md[0].value, ast.IfExp) or const(md[0].value.body) != 1 or const(md[0].value.orelse) != 0:
        ctx.fail(fx, md[0] if md else fx.node, 'mode is not normalised to 1 (right) / 0 (left): %s' % (U(md[0].value) if md else 'no normalisation'))
    else:
        ok, w = prop_equiv(md[0].value.test, "is_str(mode) and mode[0].lower() == 'r' or mode == 1")
        if not ok:
            ctx.fail(fx, md[0], 'mode selects the right table when `%s`, which is not equivalent to `is_str(mode) and mode[0].lower() == "r" or mode == 1`' % U(md[0].value.test), witness=w)
    if const(fx.defaults().get('mode')) != 'l':
        ctx.fail(fx, fx.node, "xor no longer defaults to the left table (mode = 'l')")
    fin = [s for s in fx.body if isinstance(s, ast.If) and N(s.test) in (NS('mode == 0'), NS('mode == 1'), NS('mode != 0'), NS('mode != 1'))]
    ctx.count(1)
    if not fin:
        ctx.fail(fx, fx.node, 'the final left/right split of xor on the normalised mode not found')
    else:
        t = N(fin[-1].test)
        left_first = t in (NS('mode == 0'), NS('mode != 1'))
        a, b = (fin[-1].body, else_of(fin[-1])) if left_first else (else_of(fin[-1]), fin[-1].body)
        ra = [r for r in ast.walk(ast.Module(a, [])) if isinstance(r, ast.Return)]
        rb = [r for r in ast.walk(ast.Module(b, [])) if isinstance(r, ast.Return)]
        if not ra or not U(ra[0].value).startswith('self[') or not rb or not U(rb[0].value).startswith('other['):
            ctx.fail(fx, fin[-1], 'mode 0 does not return rows of self / mode 1 rows of other')
    for fn in (fx, ctx.repo.fn('_dictable:dictable.join')):
        ctx.count(1, fn.where())
        cv = [s for s in fn.body if isinstance(s, ast.If) and 'isinstance(other, dictable)' in U(s.test)]
        if not cv or N(cv[0].test) != NS('not isinstance(other, dictable)') or N(cv[0].body[0].value) != 'dictable(other)':
            ctx.fail(fn, cv[0] if cv else fn.node, 'a non-table right operand is not converted with dictable(other)')
        ln = [s for s in fn.body if isinstance(s, ast.If) and any(isinstance(r0, ast.Raise) for r0 in s.body) and 'len(lcols)' in U(s.test)]
        if not ln or N(ln[0].test) != NS('len(lcols) != len(rcols)') or 'ValueError' not in U(ln[0].body[0]):
            ctx.fail(fn, ln[0] if ln else fn.node, 'key lists of different length are not rejected with ValueError')
        for nm in ('lcols', 'rcols'):
            tu = [s for s in fn.body if isinstance(s, ast.Assign) and U(s.targets[0]) == nm and N(s.value) == 'as_tuple(%s)' % nm]
            if not tu:
                ctx.fail(fn, fn.node, '%s is not normalised with as_tuple before it is used as the grouping key' % nm)
        d = [s for s in fn.body if isinstance(s, ast.If) and N(s.test) == NS('lcols is None')]
        if d and N(d[0].body[0].value) != NS('self.keys() & other.keys()'):
            ctx.fail(fn, d[0], 'the default key is not the shared column names self.keys() & other.keys()')
        d = [s for s in fn.body if isinstance(s, ast.If) and N(s.test) == NS('rcols is None')]
        if d and N(d[0].body[0].value) != 'lcols':
            ctx.fail(fn, d[0], 'the default right key is not the left key')
    nk = [s for s in fx.body if isinstance(s, ast.If) and N(s.test) == NS('len(lcols) == 0')]
    ctx.count(1)
    if not nk or N(nk[0].body[0].value) != 'self.copy()':
        ctx.fail(fx, nk[0] if nk else fx.node, 'xor without key columns is not a copy of x')
    fj = ctx.repo.fn('_dictable:dictable.join')
    em = [s for s in ast.walk(fj.node) if isinstance(s, ast.If) and 'len(res)' in U(s.test)]
    ctx.count(1)
    if not em or N(em[0].test) != NS('len(res) == 0'):
        ctx.fail(fj, em[0] if em else fj.node, 'the empty-result case of join is decided by `%s`' % (U(em[0].test) if em else '?'))
    else:
        e = em[0].body[0].value
        if isinstance(e, ast.Call) and len(e.args) == 2:
            for n in ast.walk(e.args[1]):
                if isinstance(n, ast.BinOp) and not isinstance(n.op, ast.Add):
                    ctx.fail(fj, em[0], 'the columns of an empty join result are `%s`, expected the union cols + lkeys + rkeys + jkeys' % U(e.args[1]))
                    break


@obligation('C02.13', 'MATCH + call graph (shared with C07.9)', 'length rank in the comparison core of cmp; _loop:len0',
            'the merge walks two lists sorted with sort() (native order when it can) using cmp: both must rank string keys alike, so the length rank of cmp has to treat a string as a scalar (len0), or equal keys are passed by and rows are lost',
            axioms=('A1',))
def c02_13(ctx):
    from . import C07 as _c07
    _c07.c07_9(ctx)
