"""C07 cmp is a total preorder over mixed types; sort / dictable.sort follow it stably (structural necessary conditions)."""
import ast, copy
from collections import Counter
from ..core import obligation, AnalysisError, Fn
from .common import *
from . import C02 as _c02


def cmp_core(repo):
    """(wrapper prefix statements, core Fn): follow `return g(x, y)` wrappers from cmp to the function holding the comparison logic."""
    fn = repo.fn('_sort:cmp')
    prefix = []
    for _ in range(3):
        body = fn.body
        last = body[-1] if body else None
        has_logic = any(isinstance(s, ast.If) and not (isinstance(s.test, ast.Compare) and isinstance(s.test.ops[0], ast.Is)) for s in body)
        if (not has_logic) and isinstance(last, ast.Return) and isinstance(last.value, ast.Call) and isinstance(last.value.func, ast.Name) and len(last.value.args) == 2:
            g = repo.resolve_name(fn.mod, last.value.func.id)
            if isinstance(g, Fn) and g.name not in ('cmp', 'cmparr'):
                prefix += body[:-1]
                fn = g
                continue
        break
    return prefix, fn


@obligation('C07.1', 'NUM range', '_sort:cmp, _sort:cmparr', 'cmp returns -1, 0 or 1 (Cmp.__lt__/__gt__ and the merge loops test exactly these values)', axioms=('A1',))
def c07_1(ctx):
    _c02.c02_2(ctx)


# ------------------------------------------------------------------------------------------------ MIRROR
SIG = {'x': 'y', 'y': 'x', 'tx': 'ty', 'ty': 'tx', 'lx': 'ly', 'ly': 'lx', 'xk': 'yk', 'yk': 'xk', 'xv': 'yv', 'yv': 'xv'}
ANTI_FUNCS = {'cmp', 'cmparr', '_cmp'}
TYPE_PREDS = {'isinstance', 'is_iterable', 'is_nan'}


def _sig(e):
    e = copy.deepcopy(e)
    for n in ast.walk(e):
        if isinstance(n, ast.Name) and n.id in SIG:
            n.id = SIG[n.id]
    return e


def _norm_test(t, typeeq):
    if isinstance(t, ast.Compare) and len(t.ops) == 1:
        if typeeq and len(names_in(t) & {'lx', 'ly'}) == 1 and names_in(t) <= {'lx', 'ly'}:
            # lengths are equal once the (lx<ly, ly<lx) pair has been passed: a test of one length against a constant is self-symmetric
            t = copy.deepcopy(t)
            for n in ast.walk(t):
                if isinstance(n, ast.Name) and n.id == 'ly':
                    n.id = 'lx'
        return N(t)
    if isinstance(t, ast.Call) and isinstance(t.func, ast.Name) and t.func.id in TYPE_PREDS and typeeq and t.func.id != 'is_nan':
        t = copy.deepcopy(t)
        if t.args and isinstance(t.args[0], ast.Name) and t.args[0].id == 'y':
            t.args[0].id = 'x'
        return U(t)
    return N(t)


def _norm_ret(e, anti, negate_):
    c = const(e)
    if c is not None and isinstance(c, (int, float)) and not isinstance(c, bool):
        return ('const', -c if negate_ else c)
    if isinstance(e, ast.Call) and isinstance(e.func, ast.Name) and e.func.id in ANTI_FUNCS and len(e.args) == 2:
        a, b = U(e.args[0]), U(e.args[1])
        return ('antcall', e.func.id, b, a) if negate_ else ('antcall', e.func.id, a, b)
    if isinstance(e, ast.Name) and e.id in anti:
        return ('anti', e.id)
    if isinstance(e, ast.IfExp):
        cases = []
        cur = e
        while isinstance(cur, ast.IfExp):
            cases.append((_norm_test(cur.test, True), _norm_ret(cur.body, anti, negate_)))
            cur = cur.orelse
        return ('cases', frozenset(cases), _norm_ret(cur, anti, negate_))
    return ('expr', U(e), negate_)


def _items(stmts, anti, typeeq, swap):
    out = []
    f = _sig if swap else (lambda e: e)
    for s in stmts:
        if isinstance(s, ast.Expr) and isinstance(s.value, ast.Constant):
            continue
        if isinstance(s, ast.Assign):
            tg, val = f(s.targets[0]), f(s.value)
            if isinstance(tg, ast.Tuple) and isinstance(val, ast.Call) and len(val.args) == 1 and isinstance(val.args[0], (ast.List, ast.Tuple)) and len(tg.elts) == len(val.args[0].elts):
                out.append(('tassign', U(val.func), frozenset((U(a), U(b)) for a, b in zip(tg.elts, val.args[0].elts))))
                continue
            if isinstance(val, ast.Call) and isinstance(val.func, ast.Name) and val.func.id in ANTI_FUNCS:
                name = U(tg)
                anti.add(name)
                a, b = U(val.args[0]), U(val.args[1])
                out.append(('antassign', name, val.func.id) + ((b, a) if swap else (a, b)))
                continue
            out.append(('assign', U(tg), U(val)))
        elif isinstance(s, ast.Return):
            out.append(('ret', _norm_ret(f(s.value), anti, swap)))
        elif isinstance(s, ast.If):
            for test, body in if_chain(s, extend=False):
                tn = 'else' if test is None else _norm_test(f(test), typeeq)
                if test is not None and isinstance(test, ast.Compare) and isinstance(test.left, ast.Name) and test.left.id in anti:
                    tn = U(test)
                out.append(('if', tn, frozenset(Counter(_items(body, anti, typeeq, swap)).items())))
        else:
            out.append(('other', U(f(s))))
    return out


@obligation('C07.2', 'MIRROR(x<->y)', 'comparison core of _sort:cmp',
            'antisymmetry cmp(x, y) == -cmp(y, x): the body must be closed under swapping the operands (and their paired locals) with negated results; any one-sided edit breaks closure',
            axioms=('A1',))
def c07_2(ctx):
    prefix, fn = cmp_core(ctx.repo)
    body = prefix + fn.body
    idx = None
    for i, s in enumerate(body):
        if isinstance(s, ast.If) and {'tx', 'ty'} <= names_in(s.test):
            idx = i
            break
    if idx is None:
        raise AnalysisError('type-order test (tx < ty) not found in the comparison core %s' % fn.construct)
    pre, post = body[:idx + 1], body[idx + 1:]
    a1, a2 = set(), set()
    A = Counter(_items(pre, a1, False, False)) + Counter(_items(post, a1, True, False))
    B = Counter(_items(pre, a2, False, True)) + Counter(_items(post, a2, True, True))
    ctx.count(sum(A.values()), fn.where())
    ctx.fact('items', sum(A.values()))
    if A != B:
        only_a = list((A - B).items())
        only_b = list((B - A).items())
        # find the offending statement by text
        site = fn.node
        desc = str(only_a[0][0])[:150] if only_a else str(only_b[0][0])[:150]
        for s in body:
            if only_a and U(s)[:40] in str(only_a[0][0]):
                site = s
        ctx.fail(fn, site, 'cmp is not closed under swapping its operands: `%s` has no mirrored partner (its mirror image would be `%s`)' % (desc, str(only_b[0][0])[:150] if only_b else '?'),
                 witness=dict(only_in_body=[str(k)[:200] for k, _ in only_a[:3]], only_in_mirror=[str(k)[:200] for k, _ in only_b[:3]]),
                 stmt=desc)


@obligation('C07.3', 'MATCH', 'comparison core of _sort:cmp',
            'NaN ranks above every finite number (mapped to +inf on both sides) and ints, not bools, are widened to float on both sides so that numerically equal ints and floats compare 0',
            axioms=('A1',))
def c07_3(ctx):
    prefix, fn = cmp_core(ctx.repo)
    body = prefix + fn.body
    for v in ('x', 'y'):
        ctx.count(1, fn.where())
        nan = [s for s in body if isinstance(s, ast.If) and N(s.test) == 'is_nan(%s)' % v]
        if not nan:
            ctx.fail(fn, fn.node, 'NaN in operand %s is no longer mapped before the numeric comparison' % v)
        else:
            asg = [a for a in nan[0].body if isinstance(a, ast.Assign) and U(a.targets[0]) == v]
            if not asg or N(asg[0].value) not in ('np.inf', 'float("inf")', "float('inf')", 'math.inf', 'inf'):
                ctx.fail(fn, nan[0], 'NaN in %s is mapped to `%s`, expected +inf (NaN must rank above every finite number)' % (v, U(asg[0].value) if asg else '?'))
        ctx.count(1)
        wid = [s for s in body if isinstance(s, ast.Assign) and U(s.targets[0]) == v and isinstance(s.value, ast.IfExp) and N(s.value.body) == 'float(%s)' % v]
        if not wid:
            ctx.fail(fn, fn.node, 'int operand %s is no longer widened to float' % v)
        else:
            t = N(wid[0].value.test)
            if t != NS('isinstance(%s, int) and not isinstance(%s, bool)' % (v, v)) or N(wid[0].value.orelse) != v:
                ctx.fail(fn, wid[0], 'widening guard for %s is `%s`' % (v, U(wid[0].value.test)))
    # the NaN mapping must precede the final numeric comparison and follow the type/length tests (it changes neither)
    ctx.count(1)
    fin = [s for s in ast.walk(ast.Module(body, [])) if isinstance(s, ast.Return) and isinstance(s.value, ast.IfExp)]
    if not fin:
        ctx.fail(fn, fn.node, 'final three-way numeric comparison not found')
    else:
        v = fin[-1].value
        ch = ifexp_chain(v)
        got = {(N(t) if t is not None else 'else'): const(b) for t, b in ch}
        if got != {NS('x < y'): -1, NS('x > y'): 1, 'else': 0}:
            ctx.fail(fn, fin[-1], 'final comparison is `%s`, expected -1 if x<y else 1 if x>y else 0' % U(v))


@obligation('C07.4', 'CONTRADICTION', 'dict branch of cmp vs dict branch of eq',
            'cmp must not raise on empty containers: `k, v = zip(*sorted(D.items()))` cannot be unpacked for an empty dict; eq guards the same idiom with len(x) == 0',
            axioms=('A1',))
def c07_4(ctx):
    prefix, fn = cmp_core(ctx.repo)
    n = 0
    for owner in (fn, ctx.repo.fn('_eq:eq')):
        pm = parent_map(owner.node)
        for s in body_nodes(owner.node):
            if isinstance(s, ast.Assign) and isinstance(s.targets[0], ast.Tuple) and isinstance(s.value, ast.Call) and call_name(s.value) == 'zip' \
                    and s.value.args and isinstance(s.value.args[0], ast.Starred) and '.items()' in U(s.value.args[0]):
                n += 1
                ctx.count(1, owner.where(s))
                d = [x for x in ast.walk(s.value) if isinstance(x, ast.Call) and call_name(x) == 'items']
                subj = U(d[0].func.value)
                # an emptiness guard must dominate: an earlier sibling `if len(subj) == 0 / lx == 0: return`
                guarded = False
                blk = pm.get(s)
                for field in ('body', 'orelse'):
                    lst = getattr(blk, field, None)
                    if isinstance(lst, list) and s in lst:
                        for prev in lst[:lst.index(s)]:
                            if isinstance(prev, ast.If) and any(isinstance(r, ast.Return) for r in prev.body):
                                t = N(prev.test)
                                o = SIG.get(subj, subj)   # lengths of both operands are equal at this point (established by the enclosing tests)
                                if t in (NS('len(%s) == 0' % subj), 'not %s' % subj, 'not len(%s)' % subj, NS('l%s == 0' % subj), NS('l%s == 0' % o), NS('len(%s) == 0' % o), 'not %s' % o):
                                    guarded = True
                if not guarded:
                    ctx.fail(owner, s, 'unpacking zip(*sorted(%s.items())) is not guarded against an empty dict: it raises ValueError for {}' % subj,
                             witness='cmp({}, {}) on two distinct empty dicts')
    ctx.at_least(3, n, 'zip(*sorted(D.items())) unpackings in cmp and eq')


@obligation('C07.5', 'MATCH', '_sort:Cmp, _sort:sort',
            'the fallback of sort must order by cmp: Cmp.__lt__ is cmp == -1, __gt__ is cmp == 1, and sort falls back to sorted(key=Cmp) exactly when native comparison raises TypeError',
            axioms=('A1',))
def c07_5(ctx):
    r = ctx.repo
    f = r.fn('_sort:Cmp.cmp')
    ctx.count(1, f.where())
    y = f.params[1]
    sp = sym_paths(f)
    seen = set()
    for p in sp:      # whatever the spelling: cmp(self.x, y.x) when y is a Cmp, cmp(self.x, y) otherwise
        if p.term != 'return':
            continue
        if p.holds('isinstance(%s, Cmp)' % y, True):
            want, k = 'cmp(self.x, %s.x)' % y, 'wrapped'
        elif p.holds('isinstance(%s, Cmp)' % y, False):
            want, k = 'cmp(self.x, %s)' % y, 'plain'
        else:
            want, k = None, None
        seen.add(k)
        if want is None or p.text() != want:
            ctx.fail(f, p.node, 'Cmp.cmp returns `%s` when [%s]; expected cmp(self.x, y.x) for a Cmp operand and cmp(self.x, y) otherwise' % (
                p.text(), ' & '.join(('' if q else 'not ') + t for t, q, _ in p.conds)))
    if not ctx.findings and seen != {'wrapped', 'plain'}:
        ctx.fail(f, f.node, 'Cmp.cmp no longer unwraps a Cmp operand')
    for name, want in (('__lt__', -1), ('__gt__', 1)):
        f = r.fn('_sort:Cmp.%s' % name)
        rets = returns_of(f.node)
        ctx.count(1, f.where())
        if not rets or N(rets[-1].value) != NS('self.cmp(%s) == %d' % (f.params[1], want)):
            ctx.fail(f, rets[-1] if rets else f.node, 'Cmp.%s is `%s`, expected self.cmp(y) == %d' % (name, U(rets[-1].value) if rets else '?', want))
    f = r.fn('_sort:sort')
    tries = [s for s in f.body if isinstance(s, ast.Try)]
    ctx.count(1, f.where())
    if not tries:
        ctx.fail(f, f.node, 'sort has no native-then-fallback structure')
    else:
        t = tries[0]
        h = [x for x in t.handlers if x.type is not None and 'TypeError' in U(x.type)]
        if not h:
            ctx.fail(f, t, 'sort no longer falls back on TypeError')
        else:
            rr = [x for x in h[0].body if isinstance(x, ast.Return)]
            if not rr or not (isinstance(rr[0].value, ast.Call) and call_name(rr[0].value) == 'sorted' and kw(rr[0].value, 'key') is not None and U(kw(rr[0].value, 'key')) == 'Cmp'
                              and U(rr[0].value.args[0]) == f.params[0] and kw(rr[0].value, 'reverse') is None):
                ctx.fail(f, h[0], 'fallback is `%s`, expected sorted(iterable, key = Cmp)' % (U(rr[0].value) if rr else '?'))
        for x in t.handlers:
            if x.type is None or 'Exception' in U(x.type):
                ctx.fail(f, x, 'sort swallows every exception, not only TypeError')


@obligation('C07.6', 'CONTRADICTION / guard', '_sort:sort native path',
            'native sorted() with a NaN among the values is not an order and does not raise (A1), so the fast path must be unreachable for inputs containing NaN; otherwise sort returns a list that is not non-decreasing under cmp',
            axioms=('A1',))
def c07_6(ctx):
    f = ctx.repo.fn('_sort:sort')
    nat = [c for c in calls_in(f.node, 'sorted') if kw(c, 'key') is None]
    ctx.count(1, f.where())
    if not nat:
        return   # no native path left: nothing to guard
    pm = parent_map(f.node)
    for c in nat:
        st = enclosing_stmt(pm, c)
        guarded = False
        # a NaN test on the iterable anywhere before the native call
        for n in body_nodes(f.node):
            if isinstance(n, ast.Call) and call_name(n) in ('is_nan', 'isnan', 'is_nans') and n.lineno <= c.lineno:
                guarded = True
            if isinstance(n, ast.Compare) and isinstance(n.ops[0], ast.NotEq) and U(n.left) == U(n.comparators[0]) and n.lineno <= c.lineno:
                guarded = True
        if not guarded:
            ctx.fail(f, st, 'native sorted(%s) is reachable for inputs containing NaN: the result is then not ordered under cmp' % U(c.args[0]),
                     witness='sort([2.0, float("nan"), 1.0]) returns [2.0, nan, 1.0]')


@obligation('C07.7', 'MATCH', '_dictable:dictable.sort',
            'dictable.sort is a stable permutation of whole rows: keys are decorated as (key, row index) with the index second, one permutation is applied to every column, unlisted values rank after all listed ones',
            axioms=('A1',))
def c07_7(ctx):
    f = ctx.repo.fn('_dictable:dictable.sort')
    dec = [s for s in f.body if isinstance(s, ast.Assign) and isinstance(s.value, ast.Call) and 'zip' in U(s.value)]
    ctx.count(1, f.where())
    ok = False
    if dec:
        z = [c for c in ast.walk(dec[0].value) if isinstance(c, ast.Call) and call_name(c) == 'zip']
        if z and len(z[0].args) == 2 and U(z[0].args[0]) == 'keys' and N(z[0].args[1]) == 'range(len(self))':
            ok = True
        dname = U(dec[0].targets[0])
    if not ok:
        ctx.fail(f, dec[0] if dec else f.node, 'rows are not decorated as zip(keys, range(len(self))) (key first, original position second): ties would not keep their original order')
        return
    srt = [s for s in f.body if isinstance(s, ast.Assign) and isinstance(s.value, ast.Call) and call_name(s.value) == 'zip' and s.value.args and isinstance(s.value.args[0], ast.Starred)]
    ctx.count(1)
    if not srt or N(srt[0].value.args[0].value) != 'sort(%s)' % dname or not (isinstance(srt[0].targets[0], ast.Tuple) and len(srt[0].targets[0].elts) == 2):
        ctx.fail(f, srt[0] if srt else f.node, 'permutation is not taken from sort(%s)' % dname)
        return
    rows = U(srt[0].targets[0].elts[1])
    rets = returns_of(f.node)
    last = rets[-1]
    ctx.count(1)
    good = isinstance(last.value, ast.Call) and last.value.args and isinstance(last.value.args[0], ast.DictComp)
    if good:
        dc = last.value.args[0]
        k, v = [U(x) for x in dc.generators[0].target.elts]
        good = N(dc.generators[0].iter) == 'self.items()' and U(dc.key) == k and N(dc.value) == '[%s[i] for i in %s]' % (v, rows) and not dc.generators[0].ifs
    if not good:
        ctx.fail(f, last, 'the same permutation `%s` is not applied to every column: %s' % (rows, U(last.value)[:100]))
    if not (isinstance(last.value, ast.Call) and N(last.value.func) == 'type(self)'):
        ctx.fail(f, last, 'sort does not return a table of the same class')
    # value orders: unlisted -> len(d)
    ctx.count(1)
    bv = [s for s in ast.walk(f.node) if isinstance(s, ast.Assign) and U(s.targets[0]) == 'keys' and 'get' in U(s.value)]
    if not bv:
        ctx.fail(f, f.node, 'explicit value orders are no longer ranked with d.get(value, default)')
    else:
        # the rank tables are built in the caller's keyword order (the first value order is the primary key)
        dd = [x for x in ast.walk(f.node) if isinstance(x, ast.Assign) and U(x.targets[0]) == 'dicts']
        ctx.count(1)
        if not dd or not isinstance(dd[0].value, ast.DictComp) or N(dd[0].value.generators[0].iter) != 'byval.items()' \
                or N(dd[0].value.value) != NS('dict(zip(vals, range(len(vals))))') or U(dd[0].value.key) != U(dd[0].value.generators[0].target.elts[0]):
            ctx.fail(f, dd[0] if dd else f.node, 'rank tables are `%s`: expected one dict(zip(vals, range(len(vals)))) per value-ordered column, in the order the caller gave them (byval.items())' % (U(dd[0].value)[:100] if dd else '?'),
                     witness="sort(key=[...], gender=[...]) sorts by key first, then gender")
        g = [c for c in calls_in(bv[0], 'get')]
        dn = U(g[0].func.value)
        if len(g[0].args) != 2 or N(g[0].args[1]) != 'len(%s)' % dn:
            ctx.fail(f, bv[0], 'rank of an unlisted value is `%s`, expected len(%s) (after every listed value)' % (U(g[0].args[1]) if len(g[0].args) > 1 else 'None', dn),
                     witness="dictable(m=['dec','n/a','jan']).sort(m=<12 months>)")
        dd = [s for s in ast.walk(f.node) if isinstance(s, ast.Assign) and U(s.targets[0]) == 'dicts']
        if not dd or 'zip(vals, range(len(vals)))' not in U(dd[0].value):
            ctx.fail(f, dd[0] if dd else f.node, 'listed values are not ranked by their position in the given order')
    # empty / no key => copy
    ctx.count(1)
    cp = [r0 for r0 in rets if N(r0.value) == 'self.copy()']
    if len(cp) < 2:
        ctx.fail(f, f.node, 'sort of an empty table / without keys no longer returns self.copy()')


@obligation('C07.8', 'PATH lexicographic', '_sort:cmparr and the element comparator it calls',
            'tuples/lists/dict values compare lexicographically under cmp: the loop may stop only at a pair whose cmp is non-zero, every control decision in it must be a function of the cmp outcome (not of == / is), '
            'and each element pair must be normalised (as_primitive) exactly like top-level operands',
            axioms=('A1', 'A5'))
def c07_8(ctx):
    _c02.cmparr_lexicographic(ctx)


@obligation('C07.9', 'MATCH + call graph', 'length rank in the comparison core of cmp; _loop:len0',
            'sort uses native order when it can, so cmp must agree with native order on strings: the length rank of cmp has to treat a string as a scalar (length 0); ranking strings by len() makes sort(["b", "aa"]) decreasing under cmp',
            axioms=('A1',))
def c07_9(ctx):
    prefix, fn = cmp_core(ctx.repo)
    body = prefix + fn.body
    for v, lv in (('x', 'lx'), ('y', 'ly')):
        a = [s for s in body if isinstance(s, ast.Assign) and U(s.targets[0]) == lv]
        ctx.count(1, fn.where())
        if not a or not isinstance(a[0].value, ast.Call) or len(a[0].value.args) != 1 or U(a[0].value.args[0]) != v:
            ctx.fail(fn, a[0] if a else fn.node, 'the length rank %s is not a length function of %s' % (lv, v))
            continue
        g = ctx.repo.resolve_name(fn.mod, call_name(a[0].value))
        if not isinstance(g, Fn):
            ctx.fail(fn, a[0], 'length rank uses `%s`, which is not the string-aware length of the package (len() of a string is its number of characters)' % U(a[0].value.func),
                     witness="cmp('aa', 'b') == 1 but sorted(['b', 'aa']) == ['aa', 'b']")
            continue
        src = U(g.node)
        if 'is_str(' not in src and 'isinstance(%s, str)' % g.params[0] not in src:
            ctx.fail(fn, a[0], 'length rank uses %s, which does not exempt strings: strings are ranked by their number of characters before their content' % g.name,
                     witness="cmp('aa', 'b') == 1 but sorted(['b', 'aa']) == ['aa', 'b']")
    g = ctx.repo.fn('_loop:len0')
    ctx.count(1, g.where())
    rr = [r for r in ast.walk(g.node) if isinstance(r, ast.Return) and isinstance(r.value, ast.IfExp)]
    if not rr or N(rr[0].value.test) != 'is_str(%s)' % g.params[0] or const(rr[0].value.body) != 0:
        ctx.fail(g, g.node, 'len0 of a string is no longer 0')


@obligation('C07.10', 'PATH (symbolic summary) table', '_as_primitive:_as_primitive',
            'cmp compares as_primitive(x) with as_primitive(y): numpy scalars must become Python numbers first (np.float64 IS a float and np.int64 compares by type name otherwise), so every path that hands the value back unchanged must have ruled out is_bool/is_int/is_float/is_date before; numeric equality across int/float and NaN-above-finite depend on it',
            axioms=('A1',))
def c07_10(ctx):
    f = ctx.repo.fn('_as_primitive:_as_primitive')
    v = f.params[0]
    conv = {'is_bool(%s)' % v: None, 'is_int(%s)' % v: 'int(%s)' % v, 'is_float(%s)' % v: 'float(%s)' % v, 'is_date(%s)' % v: 'dt(%s)' % v}
    sp = [p for p in sym_paths(f) if p.term == 'return']
    ctx.need(len(sp) >= 5, '_as_primitive: conversion table not found')
    seen = set()
    for p in sp:
        ctx.count(1, f.where(p.node))
        at = {t: pol for t, pol, _ in p.atoms()}
        hit = [k for k in conv if at.get(NS(k)) is True]
        if hit:
            k = hit[0]
            seen.add(k)
            if conv[k] is not None and p.text() != NS(conv[k]):
                ctx.fail(f, p.node, 'a value with %s is returned as `%s`, expected %s' % (k, p.text(), conv[k]))
            if conv[k] is None and p.text() not in ('True', 'False', 'bool(%s)' % v):
                ctx.fail(f, p.node, 'a boolean-like value is returned as `%s`, expected the Python bool' % p.text())
            continue
        if p.text() == v or (p.value is not None and v in {n.id for n in ast.walk(p.value) if isinstance(n, ast.Name)} and not isinstance(p.value, ast.Call)):
            missing = [k for k in conv if at.get(NS(k)) is not False]
            if missing:
                ctx.fail(f, p.node, 'the value is handed back unchanged on the path [%s] before %s was ruled out: a numpy scalar (np.float64 is a float, np.int64 is not an int) escapes conversion and cmp ranks it by type name' % (
                    ' & '.join(('' if q else 'not ') + t for t, q, _ in p.conds), ', '.join(missing)), witness='cmp(np.float64(2.0), 2) must be 0')
    if not ctx.findings and seen != set(conv):
        ctx.fail(f, f.node, '_as_primitive no longer converts %s' % sorted(set(conv) - seen))


@obligation('C07.11', 'TABLES (guards by truth table)', 'identity shortcut of _sort:cmp',
            'reflexivity for EVERY value, orderable or not: cmp(x, x) must be 0 without comparing x with itself (None < None raises; float("nan") < itself is False both ways): the identity test has to come first',
            axioms=('A1',))
def c07_11(ctx):
    fn = ctx.repo.fn('_sort:cmp')
    x, y = fn.params[:2]
    first = [s for s in fn.body if not (isinstance(s, ast.Expr) and isinstance(s.value, ast.Constant))]
    ctx.count(1, fn.where())
    ok = first and isinstance(first[0], ast.If) and N(first[0].test) in (NS('%s is %s' % (x, y)), NS('%s is %s' % (y, x))) and first[0].body and isinstance(first[0].body[0], ast.Return) and const(first[0].body[0].value) == 0
    if not ok:
        ctx.fail(fn, first[0] if first else fn.node, 'cmp does not start with `if x is y: return 0`: identical operands that cannot be ordered natively (None, NaN, mixed containers holding them) are compared with themselves',
                 witness='cmp(None, None); sort([None, 2, None])')


@obligation('C07.12', 'PATH dominance', 'length rank of the comparison core of cmp',
            'values of one type are ranked by length FIRST and only then by content: the (lx < ly, ly < lx) pair must be decided before the dict branch and before the element-wise comparison, for dicts and sequences alike (two dicts of different size compared key by key on their common prefix is neither antisymmetric nor transitive)',
            axioms=('A1',))
def c07_12(ctx):
    prefix, fn = cmp_core(ctx.repo)
    body = prefix + fn.body
    ctx.count(1, fn.where())
    rank = [i for i, s in enumerate(body) if isinstance(s, ast.If) and names_in(s.test) == {'lx', 'ly'} and any(isinstance(r, ast.Return) for r in s.body)]
    dic = [i for i, s in enumerate(body) if isinstance(s, ast.If) and N(s.test) == 'isinstance(x, dict)']
    elem = [i for i, s in enumerate(body) if any(isinstance(c, ast.Call) and call_name(c) == 'cmparr' for c in ast.walk(s))]
    if not rank:
        ctx.fail(fn, fn.node, 'the length rank (lx < ly / ly < lx) is not decided at the top level of the comparison core: it no longer applies to every kind of value',
                 witness="cmp({}, {'a': 1}) must be -1 and cmp({'a': 1}, {}) must be 1")
    elif (dic and rank[0] > dic[0]) or (elem and rank[0] > min(elem)):
        ctx.fail(fn, body[rank[0]], 'the length rank is decided after the dict branch / the element-wise comparison')
