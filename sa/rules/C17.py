"""C17 bitemporal store: reading as of T sees exactly what had been published by T (structural necessary conditions)."""
import ast
from ..core import obligation, AnalysisError
from .common import *


def _stamp(ctx):
    m, v = ctx.repo.module_value('_bitemporal', '_updated')
    return const(v)


@obligation('C17.1', 'DEF-USE dominance + MATCH', '_bitemporal:bi_read',
            'information stamped later than T never leaks into an as-of-T read: whenever asof is a date, the frame that reaches the per-date selection is the one filtered by stamp <= asof - for EVERY value of `what`',
            axioms=('A4',))
def c17_1(ctx):
    fn = ctx.repo.fn('_bitemporal:bi_read')
    df, asof = fn.params[0], fn.params[1]
    flt = [s for s in fn.body if isinstance(s, ast.If) and 'is_date(%s)' % asof in [N(c) for c in conjuncts(s.test)]]
    ctx.count(1, fn.where())
    if not flt:
        # maybe nested under another condition
        nested = [s for s in ast.walk(fn.node) if isinstance(s, ast.If) and 'is_date(%s)' % asof in U(s.test)]
        if nested:
            ctx.fail(fn, nested[0], 'the as-of filter is applied only under an additional condition (`%s`): for the other cases later publications leak into the read' % U(nested[0].test))
        else:
            ctx.fail(fn, fn.node, 'bi_read no longer filters the store by the as-of date')
        return
    s = flt[0]
    extra = [c for c in conjuncts(s.test) if N(c) != 'is_date(%s)' % asof]
    if extra:
        ctx.fail(fn, s, 'the as-of filter is skipped unless `%s` also holds: for those reads rows stamped after T are returned' % ' and '.join(U(c) for c in extra),
                 witness='bi_read(store, asof = T, what = 0) shows dates first published after T')
    a = [x for x in s.body if isinstance(x, ast.Assign) and U(x.targets[0]) == df]
    want = NS('%s[%s[_updated] <= %s]' % (df, df, asof))
    if not a or N(a[0].value) != want:
        got = U(a[0].value) if a else '?'
        ctx.fail(fn, a[0] if a else s, 'as-of filter is `%s`, expected `%s` (stamp <= T, inclusive)' % (got, U(ast.parse(want).body[0].value)))
    # the selection must use the filtered name, and no statement between rebinds df from the unfiltered store
    sel = [x for x in ast.walk(fn.node) if isinstance(x, ast.Assign) and U(x.targets[0]) == 'gb']
    ctx.count(1)
    if not sel or not U(sel[0].value).startswith('%s.sort_values(' % df):
        ctx.fail(fn, sel[0] if sel else fn.node, 'the per-date selection does not start from the filtered frame `%s`' % df)
    elif sel[0].lineno < s.lineno:
        ctx.fail(fn, sel[0], 'rows are grouped before the as-of filter is applied')
    # early exit only for non-bitemporal input or what == 'all'
    ctx.count(1)
    first = [x for x in fn.body if isinstance(x, ast.If) and any(isinstance(r, ast.Return) and U(r.value) == df for r in x.body)]
    for x in first:
        if x.lineno < s.lineno and N(x.test) != NS("not is_bi(%s) or what == 'all'" % df):
            ctx.fail(fn, x, 'the store is returned unfiltered when `%s`' % U(x.test))
    # bi asof: per-row stamps
    ctx.count(1)
    b = [x for x in fn.body if isinstance(x, ast.If) and N(x.test) == 'is_bi(%s)' % asof]
    if b and N(b[0].body[0].value) != NS('%s[%s[_updated] <= %s.reindex(%s.index)[_updated]]' % (df, df, asof, df)):
        ctx.fail(fn, b[0], 'row-wise as-of filter is `%s`' % U(b[0].body[0].value))


@obligation('C17.2', 'TYPESTATE(stable-order)', '_bitemporal:bi_merge -> _drop_repeats',
            'of several versions sharing a stamp the one merged last must win: the frame sorted by the stamp reaches drop_duplicates(subset=[stamp], keep="last") and an adjacent-row comparison, so the sort must be stable (pandas defaults to quicksort, A4)',
            axioms=('A4',))
def c17_2(ctx):
    fn = ctx.repo.fn('_bitemporal:bi_merge')
    sorts = [c for c in calls_in(fn.node, 'sort_values')]
    gbs = [c for c in calls_in(fn.node, 'groupby')]
    ctx.need(gbs or sorts, 'neither sort_values nor groupby found in bi_merge')
    if not sorts:
        ctx.count(1, fn.where())
        ctx.fail(fn, gbs[0], 'the per-date groups are formed without sorting by the publication stamp: _drop_repeats compares ADJACENT versions and keeps the last of a stamp, which is only "the history in publication order" after sort_values(_updated, kind="stable"); re-merging an older version otherwise places it after newer ones',
                 witness='versions 1 -> 2 -> 1 (reverting history), then version 2 merged again')
        return
    # the consumer is tie-sensitive?
    dr = ctx.repo.fn('_bitemporal:_drop_repeats')
    tie = [c for c in calls_in(dr.node, 'drop_duplicates') if const(kw(c, 'keep')) in ('last', 'first')] or [s for s in ast.walk(dr.node) if 'iloc[1:]' in U(s)]
    pm = parent_map(fn.node)
    for c in sorts:
        ctx.count(1, fn.where(c))
        by = U(c.args[0]) if c.args else U(kw(c, 'by') or ast.Constant(None))
        k = const(kw(c, 'kind'))
        if tie and by == '_updated' and k not in ('stable', 'mergesort'):
            ctx.fail(fn, enclosing_stmt(pm, c), 'sort_values(%s) uses kind=%r: the order of versions sharing a stamp is arbitrary when drop_duplicates(keep="last") picks one' % (by, k or 'quicksort (default)'),
                     witness='10 dates x 3 versions with one stamp: bi_read returns version 1 or 2 for some dates', stmt=c)
        if by != '_updated':
            ctx.fail(fn, enclosing_stmt(pm, c), 'versions are sorted by %s, not by their stamp' % by)
    # merge order: old versions first, new ones last (concat keeps it; the stable sort then preserves it)
    ctx.count(1)
    b = [s for s in fn.body if isinstance(s, ast.Assign) and U(s.targets[0]) == 'bis' and N(s.value) == NS('old_bis + new_bis')]
    if not b:
        ctx.fail(fn, fn.node, 'versions are not concatenated as old + new: "merged last" would no longer be last')
    cc = [s for s in fn.body if isinstance(s, ast.Assign) and U(s.targets[0]) == 'df' and N(s.value) == 'pd.concat(bis)']
    if not cc:
        ctx.fail(fn, fn.node, 'the merged frame is not pd.concat(bis)')
    # between the concatenation and the per-date cleanup no row may be dropped: the same-stamp winner must be chosen AFTER the forward fill
    # of _drop_repeats, otherwise a NaN in the version merged last wipes the value an earlier same-stamp version had
    ctx.count(1)
    pm0 = parent_map(fn.node)
    for c in calls_in(fn.node):
        if call_name(c) in ('duplicated', 'drop_duplicates', 'dropna', 'last', 'first', 'nth', 'tail', 'head'):
            ctx.fail(fn, enclosing_stmt(pm0, c), 'bi_merge drops rows with %s(...) before the per-date cleanup: of two versions sharing a stamp the later one then wins BEFORE NaNs are forward-filled, so its NaN overrides the earlier value' % call_name(c),
                     witness='two versions with one stamp, the second with NaN on a date the first had a value for')
    ctx.count(1)
    res = [s for s in fn.body if isinstance(s, ast.Assign) and U(s.targets[0]) == 'res']
    if not res or N(res[0].value) != 'pd.concat([_drop_repeats(d) for _, d in gb])':
        ctx.fail(fn, res[0] if res else fn.node, 'per-date cleanup is not _drop_repeats on every observation date')
    gb = [s for s in fn.body if isinstance(s, ast.Assign) and U(s.targets[0]) == 'gb']
    dfb = [s for s in fn.body if isinstance(s, ast.Assign) and U(s.targets[0]) == 'df']
    for extra in dfb[1:]:
        if isinstance(extra.value, ast.Subscript):
            ctx.fail(fn, extra, 'the merged frame is filtered (`%s`) before the per-date cleanup' % U(extra)[:90])
    if not gb or '.groupby(df.index.name)' not in U(gb[0].value):
        ctx.fail(fn, gb[0] if gb else fn.node, 'versions are not grouped by observation date')


@obligation('C17.3', 'MATCH', '_bitemporal:_drop_repeats',
            'a NaN never overrides an earlier value and re-merging a known version changes nothing: values are forward-filled before the repeat test, a row is a repeat only if it equals the row PUBLISHED JUST BEFORE it in every column '
            '(a value that reverts to an older one is new information), the first row is always kept, same-stamp rows keep the last',
            axioms=('A4',))
def c17_3(ctx):
    fn = ctx.repo.fn('_bitemporal:_drop_repeats')
    d = fn.params[0]
    defs = {U(s.targets[0]): s for s in fn.body if isinstance(s, ast.Assign)}
    ctx.count(1, fn.where())
    nu = defs.get('no_updated')
    if nu is None or N(nu.value) != NS('%s.drop(columns=_updated).ffill()' % d):
        ctx.fail(fn, nu or fn.node, 'values are not forward-filled (without the stamp column) before the repeat test: a NaN publication would override the earlier value')
    ctx.count(1)
    dup = [c for c in calls_in(fn.node, 'duplicated')]
    if dup:
        ctx.fail(fn, enclosing_stmt(parent_map(fn.node), dup[0]), 'repeats are found with duplicated(): a value that REVERTS to an earlier one (2 -> 5 -> 2) is treated as a repeat and dropped, so reads after the third stamp still return 5',
                 witness='versions 2, 5, 2 for one date at three stamps')
    else:
        o, n = defs.get('old_values'), defs.get('new_values')
        if o is None or n is None or N(o.value) != 'no_updated.iloc[:-1].values' or N(n.value) != 'no_updated.iloc[1:].values':
            ctx.fail(fn, o or fn.node, 'the repeat test does not compare each row with the row just before it (iloc[:-1] vs iloc[1:])')
        rp = defs.get('repeats')
        if rp is None or N(rp.value) != NS('new_values == old_values'):
            ctx.fail(fn, rp or fn.node, 'repeat flags are `%s`' % (U(rp.value) if rp else '?'))
        rs = [s for s in fn.body if isinstance(s, ast.Assign) and U(s.targets[0]) == 'res']
        if not rs or N(rs[0].value) != NS('%s[~np.concatenate([[False], repeats.min(axis=1)])]' % d):
            ctx.fail(fn, rs[0] if rs else fn.node, 'rows kept are `%s`, expected: first row always, later rows unless ALL columns repeat (min over axis 1)' % (U(rs[0].value) if rs else '?'))
    ctx.count(1)
    dd = [c for c in calls_in(fn.node, 'drop_duplicates')]
    if not dd or N(kw(dd[0], 'subset') or ast.Constant(0)) != '[_updated]' or const(kw(dd[0], 'keep')) != 'last':
        ctx.fail(fn, fn.node, 'same-stamp versions are not reduced with drop_duplicates(subset = [stamp], keep = "last")')
    # order: the same-stamp winner is chosen AFTER the forward-filled repeat test (on its result), never on the raw versions - otherwise the
    # NaN of the version merged last removes the same-stamp version that carried the value before the fill can see it
    ctx.count(1)
    if dd:
        nu_i = fn.body.index(nu) if nu in fn.body else None
        pm_ = parent_map(fn.node)
        st = enclosing_stmt(pm_, dd[0])
        st_i = fn.body.index(st) if st in fn.body else None
        recv = dd[0].func.value if isinstance(dd[0].func, ast.Attribute) else None
        if nu_i is not None and st_i is not None and st_i < nu_i or (isinstance(recv, ast.Name) and recv.id == d):
            ctx.fail(fn, st, 'same-stamp versions are reduced (`%s`) on the raw versions, before the forward fill and the repeat test: the NaN of a later same-stamp version then overrides the value of the earlier one' % U(st)[:90],
                     witness='versions 1@t0, 5@t1, NaN@t1 for one date: reads at t1 must return 5')
    rr = returns_of(fn.node)
    if not rr or U(rr[-1].value) != 'res':
        ctx.fail(fn, fn.node, '_drop_repeats does not return the cleaned rows')


@obligation('C17.4', 'MATCH', '_bitemporal:bi_read, _as_what, _nth',
            'reads return the latest value per date by default and the first published one with what=0: rows are ordered by stamp before grouping by date, n >= 0 clamps to the last row and n < 0 to the first',
            axioms=('A4',))
def c17_4(ctx):
    fn = ctx.repo.fn('_bitemporal:bi_read')
    ctx.count(1, fn.where())
    if const(fn.defaults().get('what')) != -1:
        ctx.fail(fn, fn.node, 'default read is what=%s, expected -1 (the latest published value)' % U(fn.defaults().get('what')))
    gb = [s for s in ast.walk(fn.node) if isinstance(s, ast.Assign) and U(s.targets[0]) == 'gb']
    if not gb or N(gb[0].value) != NS('%s.sort_values(_updated).groupby(%s.index.name)' % (fn.params[0], fn.params[0])):
        ctx.fail(fn, gb[0] if gb else fn.node, 'versions are not ordered by stamp and grouped by observation date: %s' % (U(gb[0].value) if gb else '?'))
    ap = [s for s in ast.walk(fn.node) if isinstance(s, ast.Assign) and U(s.targets[0]) == 'res' and 'gb.apply' in U(s.value)]
    if not ap or N(ap[0].value) != 'gb.apply(_as_what(what))':
        ctx.fail(fn, ap[0] if ap else fn.node, 'the per-date selection is not gb.apply(_as_what(what))')
    f2 = ctx.repo.fn('_bitemporal:_as_what')
    ctx.count(1, f2.where())
    rr = returns_of(f2.node)
    if not any(N(r.value) == NS('partial(_nth, n=%s)' % f2.params[0]) for r in rr):
        ctx.fail(f2, f2.node, 'an integer `what` is not turned into the n-th row selector')
    m, v = ctx.repo.module_value('_bitemporal', '_nth')
    ctx.count(1)
    want = NS('lambda v, n: v.iloc[min(n, len(v) - 1)] if n >= 0 else v.iloc[max(n, -len(v))]')
    if N(v) != want:
        ctx.fail(f2, f2.node, '_nth is `%s`' % U(v), stmt=v)
    # the stamp column is removed from the result
    ctx.count(1)
    dr = [s for s in fn.body if isinstance(s, ast.Assign) and N(s.value) == NS('res.drop(columns=_updated)')]
    if not dr:
        ctx.fail(fn, fn.node, 'the stamp column is not removed from the read')


@obligation('C17.5', 'MATCH', '_bitemporal:Bi',
            'stamp assignment: an explicit stamp is dt(asof) on every row; data that is already bitemporal is returned unchanged', axioms=())
def c17_5(ctx):
    fn = ctx.repo.fn('_bitemporal:Bi')
    df, asof = fn.params[:2]
    first = [s for s in fn.body if isinstance(s, ast.If)]
    ctx.count(1, fn.where())
    if not first or N(first[0].test) != NS('%s is None or is_bi(%s)' % (asof, df)) or U(first[0].body[0].value) != df:
        ctx.fail(fn, first[0] if first else fn.node, 'already-bitemporal data (or no stamp) is not returned unchanged')
    ctx.count(1)
    st = [s for s in ast.walk(fn.node) if isinstance(s, ast.Assign) and N(s.targets[0]) == '%s[_updated]' % df and N(s.value) == 'dt(%s)' % asof]
    if not st:
        ctx.fail(fn, fn.node, 'an explicit stamp is no longer assigned as dt(asof) to every row')
    ctx.count(1)
    cp = [s for s in ast.walk(fn.node) if isinstance(s, ast.Assign) and U(s.targets[0]) == df and N(s.value) in ('%s.copy()' % df, NS('pd.DataFrame(%s, columns=[_series])' % df))]
    if len(cp) < 2:
        ctx.fail(fn, fn.node, 'the stamp column is added to the caller\'s frame instead of a copy')
    # future stamps are capped at now
    ctx.count(1)
    caps = [s for s in ast.walk(fn.node) if isinstance(s, ast.Assign) and isinstance(s.targets[0], ast.Subscript) and '.loc' in U(s.targets[0]) and U(s.value) == 'now']
    if len(caps) < 2:
        ctx.fail(fn, fn.node, 'bumped stamps in the future are no longer capped at now')
    # an explicit stamp is kept as given: the "not later than now" cap belongs to the bump branches only
    ctx.count(1)
    for p in paths(fn.body):
        stamped = [s for s in p.stmts if isinstance(s, ast.Assign) and N(s.targets[0]) == '%s[_updated]' % df and N(s.value) == 'dt(%s)' % asof]
        capped = [s for s in p.stmts if isinstance(s, ast.Assign) and isinstance(s.targets[0], ast.Subscript) and '.loc' in U(s.targets[0]) and '_updated' in U(s.targets[0])]
        if stamped and capped:
            ctx.fail(fn, capped[0], 'an explicit publication stamp is clipped to "now" (`%s` also runs after df[stamp] = dt(asof)): a version stamped in the future is stored as published now and leaks into every read with T >= now' % U(capped[0])[:70],
                     witness='Bi(v, dt(2999,1,1)) then bi_read(store, asof = today)')
            break
    # is_bi
    g = ctx.repo.fn('_bitemporal:is_bi')
    ctx.count(1, g.where())
    rr = returns_of(g.node)
    if not rr or N(rr[-1].value) != NS('is_df(%s) and _updated in %s.columns' % (g.params[0], g.params[0])):
        ctx.fail(g, g.node, 'is_bi is no longer "a DataFrame with the stamp column"')
    if _stamp(ctx) != 'updated':
        ctx.fail(g, g.node, 'stamp column renamed to %r' % _stamp(ctx))


@obligation('C17.6', 'TABLES (guards by truth table) + argument roles', '_bitemporal:bi_merge preliminaries, bi_read output shaping',
            'every version enters the store with its own stamp (Bi(version, stamp), data first), nothing to merge returns None / the single version, and a read of a stored Series comes back as that Series',
            axioms=())
def c17_6(ctx):
    r = ctx.repo
    m = r.fn('_bitemporal:bi_merge')
    for c in calls_in(m.node, 'Bi'):
        ctx.count(1, m.where(c))
        if len(c.args) != 2 or U(c.args[0]) != 'b' or U(c.args[1]) not in ('asof', 'existing_data'):
            ctx.fail(m, c, 'a version is stamped as %s: the data come first, the stamp second' % U(c))
    defs = {}
    for s in ast.walk(m.node):
        if isinstance(s, ast.Assign) and isinstance(s.targets[0], ast.Name):
            defs.setdefault(U(s.targets[0]), []).append(N(s.value))
    ctx.count(1)
    if NS('[b if is_bi(b) else Bi(b, asof) for b in as_list(new_data)]') not in defs.get('new_bis', []):
        ctx.fail(m, m.node, 'new versions are not stamped with asof unless already bitemporal: %s' % defs.get('new_bis'))
    if NS('[b for b in as_list(old_data) if is_bi(b)]') not in defs.get('old_bis', []) or NS('[b if is_bi(b) else Bi(b, existing_data) for b in as_list(old_data)]') not in defs.get('old_bis', []):
        ctx.fail(m, m.node, 'existing data are not taken as they are (bitemporal) / stamped with existing_data')
    expect_guards(ctx, m, [
        ("existing_data in ('ignore', 'overwrite')", 'old_bis = []', 'existing data can be discarded on request'),
        ('len(bis) == 0', 'return None', 'nothing to merge'),
        ('len(bis) == 1', 'return bis[0]', 'a single version is the store'),
        ('index_name is None', "df.index.name = 'index'", 'grouping needs a named index'),
    ], where=[x for x in ast.walk(m.node) if isinstance(x, ast.If)])
    ctx.count(1)
    if not any(isinstance(s, ast.Assign) and N(s.targets[0]) == 'res.index.name' and U(s.value) == 'index_name' for s in m.body):
        ctx.fail(m, m.node, 'the original index name is not restored on the merged store')
    b = r.fn('_bitemporal:bi_read')
    expect_guards(ctx, b, [
        ('res.shape[1] == 1 and res.columns[0] == _series', 'res = res[_series]', 'a stored Series is read back as a Series'),
        ('_columns in res.columns', 'combos = list(set(res[_columns].values))', 'frames with mixed columns'),
        ('index_name is None', "df.index.name = 'index'", 'grouping needs a named index'),
        ('len(df)', 'if index_name is None:\n    df.index.name = "index"', 'an empty store reads as empty'),
    ], where=[x for x in ast.walk(b.node) if isinstance(x, ast.If)])
    ctx.count(1)
    if not any(isinstance(s, ast.Assign) and N(s.targets[0]) == 'res.index.name' and U(s.value) == 'index_name' for s in b.body):
        ctx.fail(b, b.node, 'the original index name is not restored on the read')
    f = r.fn('_bitemporal:Bi')
    expect_guards(ctx, f, [("asof == 'shift'", 'now = dt()', 'shift: each row is published at the next observation date'),
                           ('is_bump(asof)', 'now = dt()', 'a bump: published that long after the observation'),
                           ('isinstance(asof, list)', 'now = dt()', 'a list of bumps'),
                           ('is_series(%s)' % f.params[0], 'df = pd.DataFrame(%s, columns=[_series])' % f.params[0], 'a Series is stored under the reserved column')],
                  where=[x for x in ast.walk(f.node) if isinstance(x, ast.If)])
    ctx.count(1)
    sh = [s for s in ast.walk(f.node) if isinstance(s, ast.Assign) and N(s.targets[0]) == 'df[_updated]']
    vals = [N(s.value) for s in sh]
    want = [NS('list(df.index[1:]) + [now]'), NS('dt_bump(df, asof).index'), NS('dt_bump(df, *asof).index'), 'dt(asof)']
    if sorted(vals) != sorted(want):
        ctx.fail(f, f.node, 'stamps are assigned as %s' % vals)
    caps = [N(s.targets[0]) for s in ast.walk(f.node) if isinstance(s, ast.Assign) and '.loc' in U(s.targets[0])]
    if any(c != NS('df.loc[df[_updated] > now, _updated]') for c in caps):
        ctx.fail(f, f.node, 'the cap on future stamps is `%s`' % caps)
