"""C05 Calendar business-day arithmetic (structural necessary conditions)."""
import ast, itertools
from ..core import obligation, AnalysisError
from .common import *


def _single_return(fn):
    rets = returns_of(fn.node)
    if len(rets) != 1 or rets[0].value is None:
        raise AnalysisError('%s does not consist of a single return expression' % fn.qual)
    return rets[0]


@obligation('C05.1', 'PROP equivalence', '_drange:Calendar.is_bday, Calendar.is_holiday',
            'is_bday(t) holds exactly when t is neither a weekend day nor a holiday, and is_holiday is its complement (adjust and add loop on is_holiday)',
            axioms=())
def c05_1(ctx):
    fb = ctx.repo.fn('_drange:Calendar.is_bday')
    fh = ctx.repo.fn('_drange:Calendar.is_holiday')
    d = fb.params[1]
    W = NS('%s.weekday() in self.weekend' % d)
    H = NS('ymd(%s) in self.holidays' % d)
    rb, rh = _single_return(fb), _single_return(fh)
    dh = fh.params[1]
    rh_e = subst_names(rh.value, {dh: ast.Name(d, ast.Load())}) if dh != d else rh.value
    for e, fn in ((rb.value, fb), (rh_e, fh)):
        extra = [a for a in bool_atoms(e) if a not in (W, H) and N(negate(ast.parse(a, mode='eval').body)) not in (W, H)]
        if extra:
            raise AnalysisError('unrecognised atom(s) in %s: %s' % (fn.qual, extra))
    for w, h in itertools.product([False, True], repeat=2):
        env = {W: w, H: h}
        ctx.count(2)
        b = bool_eval(rb.value, env)
        hol = bool_eval(rh_e, env)
        if b != ((not w) and (not h)):
            ctx.fail(fb, rb, 'is_bday is %s for weekend=%s, holiday=%s' % (b, w, h), witness=dict(weekend=w, holiday=h, is_bday=b))
        if hol != (w or h):
            ctx.fail(fh, rh, 'is_holiday is %s for weekend=%s, holiday=%s (must be the complement of is_bday)' % (hol, w, h), witness=dict(weekend=w, holiday=h, is_holiday=hol))


def _step_dir(stmts, var='t'):
    """+1 / -1 for `t = t + DAY` / `t = t - DAY` (or augmented forms) found in stmts."""
    dirs = set()
    for s in stmts:
        for n in ast.walk(s):
            if isinstance(n, ast.Assign) and len(n.targets) == 1 and isinstance(n.value, ast.BinOp) and U(n.value.left) == U(n.targets[0]) and U(n.value.right) == 'DAY':
                dirs.add(+1 if isinstance(n.value.op, ast.Add) else -1 if isinstance(n.value.op, ast.Sub) else 0)
            if isinstance(n, ast.AugAssign) and U(n.value) == 'DAY':
                dirs.add(+1 if isinstance(n.op, ast.Add) else -1 if isinstance(n.op, ast.Sub) else 0)
    return dirs


@obligation('C05.2', 'MATCH polarity', '_drange:Calendar.adjust',
            "adjust 'f' is the nearest business day on or after t (steps forward while is_holiday), 'p' on or before; 'm' equals 'f' unless that leaves the month, when it equals 'p'",
            axioms=())
def c05_2(ctx):
    fn = ctx.repo.fn('_drange:Calendar.adjust')
    chain = None
    for s in fn.body:
        if isinstance(s, ast.If) and 'startswith' in U(s.test):
            chain = if_chain(s)
            break
    ctx.need(chain is not None, 'adj dispatch of Calendar.adjust not found')
    chain = flip_negated_tail(chain, lambda t: classify_test(t)[0].startswith('startswith'))
    rows = {}
    for test, body in chain:
        if test is None:
            rows['else'] = body
            continue
        kind, keys = classify_test(test)
        if kind.startswith('startswith') and len(keys) == 1:
            rows[keys[0]] = body
    for letter, want in (('f', +1), ('p', -1)):
        ctx.count(1, fn.where())
        if letter not in rows:
            ctx.fail(fn, fn.node, "adjust has no '%s' branch" % letter)
            continue
        body = rows[letter]
        loops = [s for s in body if isinstance(s, ast.While)]
        main = [w for w in loops if 'self.is_holiday(t)' in [N(c) for c in conjuncts(w.test)]]
        if not main:
            ctx.fail(fn, body[0], "adjust '%s' does not step while self.is_holiday(t)" % letter)
            continue
        for w in loops:
            d = _step_dir(w.body)
            if d != {want}:
                ctx.fail(fn, w, "adjust '%s' steps %s, expected %s DAY" % (letter, sorted(d), '+' if want > 0 else '-'))
        if not any(isinstance(s, ast.Return) and U(s.value) == 't' for s in body):
            ctx.fail(fn, body[-1], "adjust '%s' does not return the stepped date" % letter)
    ctx.count(1)
    if 'm' not in rows:
        ctx.fail(fn, fn.node, "adjust has no 'm' (modified following) branch")
    else:
        body = rows['m']
        first = [s for s in body if isinstance(s, ast.Assign) and isinstance(s.value, ast.Call) and call_name(s.value) == 'adjust']
        if not first or const(first[0].value.args[1]) != 'f':
            ctx.fail(fn, body[0], "'m' does not start from the following adjustment")
        ifs = [s for s in body if isinstance(s, ast.If)]
        if not ifs:
            ctx.fail(fn, body[0], "'m' has no month test")
        else:
            t = N(ifs[0].test)
            date = fn.params[1]
            if t == NS('t.month != %s.month' % date):
                a, b = ifs[0].body, else_of(ifs[0])
            elif t == NS('t.month == %s.month' % date):
                b, a = ifs[0].body, else_of(ifs[0])
            else:
                ctx.fail(fn, ifs[0], "'m' month test is `%s`" % U(ifs[0].test))
                a = b = None
            if a is not None:
                ra = [s for s in a if isinstance(s, ast.Return)]
                rb = [s for s in b if isinstance(s, ast.Return)]
                if not ra or not (isinstance(ra[0].value, ast.Call) and call_name(ra[0].value) == 'adjust' and const(ra[0].value.args[1]) == 'p' and U(ra[0].value.args[0]) == date):
                    ctx.fail(fn, ifs[0], "'m' does not fall back to adjust(date, 'p') when the following day leaves the month")
                if not rb or U(rb[0].value) != 't':
                    ctx.fail(fn, ifs[0], "'m' does not keep the following adjustment when it stays in the month")
    ctx.count(1)
    if 'else' not in rows or not any(isinstance(s, ast.Raise) for s in rows['else']):
        ctx.fail(fn, fn.node, 'an unknown adjustment no longer raises')
    # time of day dropped before stepping
    ctx.count(1)
    if not any(isinstance(s, ast.Assign) and U(s.targets[0]) == 't' and N(s.value) == 'ymd(%s)' % fn.params[1] for s in fn.body):
        ctx.fail(fn, fn.node, 'adjust no longer normalises the date with ymd before stepping')


@obligation('C05.3', 'NUM threshold', '_drange:Calendar.add',
            'the single-step loop is only correct for one step; |n| > 1 must use the business-day table: int2dt[dt2int[adjust(t)] + n]',
            axioms=())
def c05_3(ctx):
    fn = ctx.repo.fn('_drange:Calendar.add')
    days = fn.params[2]
    ifs = [s for s in fn.body if isinstance(s, ast.If) and 'abs(%s)' % days in U(s.test)]
    if not ifs:
        # the split between the table path and the single-step loop, whatever it tests now
        alt = [s for s in fn.body if isinstance(s, ast.If) and days in names_in(s.test) and ('int2dt' in U(ast.Module(s.body, [])) or 'int2dt' in U(ast.Module(else_of(s), [])))]
        if alt:
            ctx.count(1, fn.where(alt[0]))
            ctx.fail(fn, alt[0], 'the table/loop split tests `%s` instead of the magnitude abs(%s): the single-step loop then also serves counts below -1 (or above 1), for which it jumps that many calendar days at a time' % (U(alt[0].test), days),
                     witness='cal.add(monday, -3)')
            return
    ctx.need(len(ifs) == 1, 'threshold test on abs(%s) not found in Calendar.add' % days)
    t = canon(ifs[0].test)
    ctx.count(1, fn.where(ifs[0]))
    txt = N(ifs[0].test)
    if txt in (NS('abs(%s) > 1' % days), NS('abs(%s) >= 2' % days)):
        table, loop = ifs[0].body, else_of(ifs[0])
    elif txt in (NS('abs(%s) <= 1' % days), NS('abs(%s) < 2' % days)):
        loop, table = ifs[0].body, else_of(ifs[0])
    else:
        ctx.fail(fn, ifs[0], 'table/loop threshold is `%s`; the stepping loop is only valid for |%s| <= 1' % (U(ifs[0].test), days))
        return
    ctx.count(1)
    rets = [s for s in table if isinstance(s, ast.Return)]
    if not rets or N(rets[0].value) != NS('self.int2dt[self.dt2int[t] + %s]' % days):
        ctx.fail(fn, rets[0] if rets else table[0], 'table path is `%s`, expected self.int2dt[self.dt2int[t] + %s]' % (U(rets[0].value) if rets else '?', days))
    ctx.count(1)
    inc = [s for s in loop if isinstance(s, ast.Assign) and N(s.value) in (NS('%s * DAY' % days), NS('DAY * %s' % days))]
    whiles = [s for s in loop if isinstance(s, ast.While)]
    if not inc or not whiles or N(whiles[0].test) != 'self.is_holiday(res)':
        ctx.fail(fn, loop[0], 'single-step path does not step by %s * DAY while is_holiday' % days)
    else:
        iv = U(inc[0].targets[0])
        first = [s for s in loop if isinstance(s, ast.Assign) and N(s.value) == NS('t + %s' % iv)]
        stepw = [s for s in whiles[0].body if isinstance(s, ast.Assign) and N(s.value) == NS('res + %s' % iv)]
        if not first or not stepw:
            ctx.fail(fn, whiles[0], 'single-step path does not move by the same increment before and inside the loop')
    # t = self.adjust(date, adj) before the split
    ctx.count(1)
    adj = [s for s in fn.body if isinstance(s, ast.Assign) and U(s.targets[0]) == 't' and isinstance(s.value, ast.Call) and call_name(s.value) == 'adjust']
    if not adj:
        ctx.fail(fn, fn.node, 'add no longer counts from adjust(t)')


@obligation('C05.4', 'TYPESTATE populate-before-read', 'Calendar methods and _weekday_intraday_clock',
            'the business-day table is built lazily: every read of dt2int/int2dt must be dominated by _populate() on the same receiver',
            axioms=())
def c05_4(ctx):
    fns = [f for f in ctx.repo.methods('Calendar') if f.name != '_populate']
    fns.append(ctx.repo.fn('_drange:_weekday_intraday_clock'))
    nread = 0
    for fn in fns:
        def reads(s):
            out = []
            for n in ast.walk(s):
                if isinstance(n, ast.Attribute) and n.attr in ('dt2int', 'int2dt'):
                    out.append(n)
                if isinstance(n, ast.Subscript) and const(n.slice) in ('dt2int', 'int2dt'):
                    out.append(n)
            return out
        if not reads(fn.node):
            continue
        for p in paths(fn.body, bound=4096):
            populated = False
            for ev in p.seq:
                if ev[0] == 'c':
                    if not isinstance(ev[1], ast.AST):
                        continue
                    node, site = ev[1], ev[1]
                else:
                    s = ev[1]
                    if isinstance(s, (ast.For, ast.AsyncFor)):
                        node = s.iter
                    elif isinstance(s, ast.While):
                        node = s.test
                    else:
                        node = s
                    site = s
                rs = reads(node)
                pop_here = any(isinstance(c, ast.Call) and call_name(c) == '_populate' for c in ast.walk(node))
                if rs and not (populated or pop_here):
                    pm = parent_map(fn.node)
                    ctx.fail(fn, enclosing_stmt(pm, rs[0]), 'business-day table read (%s) on a path where _populate() has not been called' % U(rs[0]), witness=p.cond_texts())
                if rs:
                    nread += 1
                    ctx.count(1)
                if pop_here:
                    populated = True
    ctx.at_least(5, nread, 'table reads on paths')


@obligation('C05.5', 'MATCH', '_drange:Calendar._populate',
            'the table must enumerate exactly the days that are neither weekend nor holiday, and dt2int/int2dt must be inverse zips of the same list (bijection business day <-> ordinal)',
            axioms=('A3',))
def c05_5(ctx):
    fn = ctx.repo.fn('_drange:Calendar._populate')
    bw = [n for n in body_nodes(fn.node) if isinstance(n, ast.Assign) and U(n.targets[0]) == 'byweekday']
    ctx.count(1, fn.where())
    ok = False
    if bw:
        g = [c for c in ast.walk(bw[0].value) if isinstance(c, (ast.GeneratorExp, ast.ListComp))]
        if g and any(N(i) == NS('k not in self.weekend') for i in g[0].generators[0].ifs) and N(g[0].generators[0].iter) == 'weekdays.items()' and U(g[0].elt) == 'v':
            ok = True
    if not ok:
        ctx.fail(fn, bw[0] if bw else fn.node, 'byweekday is not the weekdays NOT in self.weekend')
    # the table `weekdays` it reads: weekday number (date.weekday(): Monday = 0) -> dateutil weekday constant, the same numbering as the day-by-day path
    mod, wd = ctx.repo.module_value('_drange', 'weekdays')
    ctx.count(1, 'module %s: weekdays' % mod)
    want = ['MO', 'TU', 'WE', 'TH', 'FR', 'SA', 'SU']
    got = {const(k): U(v) for k, v in zip(wd.keys, wd.values)} if isinstance(wd, ast.Dict) else None
    if got != dict(enumerate(want)):
        ctx.fail(fn, wd, 'the table `weekdays` is %s: it must map date.weekday() numbers to the dateutil constants of the same day (0: MO ... 5: SA, 6: SU), or the enumerated business days disagree with is_bday' % U(wd),
                 witness="calendar with weekend=[6] (Sunday only): the table skips Saturdays")
    bd = [n for n in body_nodes(fn.node) if isinstance(n, ast.Assign) and U(n.targets[0]) == 'bdays']
    ctx.count(1)
    if not bd or not isinstance(bd[0].value, ast.ListComp):
        ctx.fail(fn, fn.node, 'business days are no longer enumerated by a comprehension over rrule')
    else:
        comp = bd[0].value
        it = comp.generators[0].iter
        v = U(comp.generators[0].target)
        if not (isinstance(it, ast.Call) and call_name(it) == 'rrule' and U(it.args[0]) == 'DAILY' and N(kw(it, 'dtstart')) == 'self.t0' and N(kw(it, 'until')) == 'self.t1'
                and U(kw(it, 'byweekday')) == 'byweekday' and (kw(it, 'interval') is None or const(kw(it, 'interval')) == 1)):
            ctx.fail(fn, bd[0], 'rrule enumeration is not DAILY from self.t0 until self.t1 over byweekday: %s' % U(it))
        if [N(i) for i in comp.generators[0].ifs] != [NS('%s not in self.holidays' % v)] or U(comp.elt) != v:
            ctx.fail(fn, bd[0], 'holidays are not filtered out of the business days')
    ctx.count(1)
    stores = {const(n.targets[0].slice): N(n.value) for n in body_nodes(fn.node) if isinstance(n, ast.Assign) and isinstance(n.targets[0], ast.Subscript) and U(n.targets[0].value) == 'self'}
    if stores.get('dt2int') != 'dict(zip(bdays, range(len(bdays))))':
        ctx.fail(fn, fn.node, 'dt2int is not dict(zip(bdays, range(len(bdays)))): %s' % stores.get('dt2int'))
    if stores.get('int2dt') != 'dict(zip(range(len(bdays)), bdays))':
        ctx.fail(fn, fn.node, 'int2dt is not the inverse zip dict(zip(range(len(bdays)), bdays)): %s' % stores.get('int2dt'))
    if not any(U(r.value) == 'self' for r in returns_of(fn.node)):
        ctx.fail(fn, fn.node, '_populate no longer returns self (calendar()._populate() is used as an expression)')


@obligation('C05.6', 'MATCH', '_drange:Calendar.bdays, Calendar.drange',
            'bdays counts table positions between the adjusted endpoints; drange lists int2dt[i] for i0..i1 inclusive in steps of b',
            axioms=())
def c05_6(ctx):
    fn = ctx.repo.fn('_drange:Calendar.bdays')
    rets = returns_of(fn.node)
    ctx.count(1, fn.where())
    t0, t1 = fn.params[1], fn.params[2]
    if not rets or N(rets[-1].value) != NS('self.dt2int[self.adjust(%s, adj)] - self.dt2int[self.adjust(%s, adj)]' % (t1, t0)):
        ctx.fail(fn, rets[-1] if rets else fn.node, 'bdays is not dt2int[adjust(t1)] - dt2int[adjust(t0)]: %s' % (U(rets[-1].value) if rets else '?'))
    fn = ctx.repo.fn('_drange:Calendar.drange')
    ctx.count(1, fn.where())
    comp = [n for n in ast.walk(fn.node) if isinstance(n, ast.ListComp) and 'int2dt' in U(n.elt)]
    if not comp:
        ctx.fail(fn, fn.node, "Calendar.drange 'b' branch no longer lists int2dt[i]")
    else:
        it = comp[0].generators[0].iter
        if not (isinstance(it, ast.Call) and call_name(it) == 'range' and len(it.args) == 3 and N(it.args[0]) == 'i0' and N(it.args[1]) == NS('i1 + b') and N(it.args[2]) == 'b'):
            ctx.fail(fn, comp[0], 'range is %s, expected range(i0, i1 + b, b) (inclusive end)' % U(it))
        defs = {U(s.targets[0]): N(s.value) for s in ast.walk(fn.node) if isinstance(s, ast.Assign)}
        own = lambda t: (t or '').replace(', None)', ')').replace(', adj=None)', ')')       # adjust(t) == adjust(t, None): the calendar's own convention
        if own(defs.get('i0')) != 'self.dt2int[self.adjust(t0)]' or own(defs.get('i1')) != 'self.dt2int[self.adjust(t1)]':
            ctx.fail(fn, comp[0], 'i0/i1 are not the table positions of the adjusted endpoints: %s, %s' % (defs.get('i0'), defs.get('i1')))
        if defs.get('b') != 'int(bump[:-1])':
            ctx.fail(fn, comp[0], 'step is not the integer part of the bump: %s' % defs.get('b'))


@obligation('C05.7', 'PATH', '_drange:calendar',
            'a calendar fetched by key reflects the holidays it was last registered with: whenever holidays/weekend/t0/t1 are given a new Calendar is stored under the key, and the stored one is returned',
            axioms=())
def c05_7(ctx):
    fn = ctx.repo.fn('_drange:calendar')
    rets = returns_of(fn.node)
    ctx.count(1, fn.where())
    if not rets or N(rets[-1].value) != 'calendars[key]':
        ctx.fail(fn, rets[-1] if rets else fn.node, 'calendar() does not return calendars[key]')
    # the elif guard must re-register when any of the four settings is given
    el = [n for n in ast.walk(fn.node) if isinstance(n, ast.If) and 'key not in calendars' in U(n.test)]
    ctx.count(1)
    if not el:
        ctx.fail(fn, fn.node, 'registration guard not found')
        return
    dj = {N(d) for d in disjuncts(el[0].test)}
    for p in ('holidays', 'weekend', 't0', 't1'):
        if NS('%s is not None' % p) not in dj:
            ctx.fail(fn, el[0], 'a calendar is not re-registered when `%s` is supplied' % p)
    st = [s for s in el[0].body if isinstance(s, ast.Assign) and N(s.targets[0]) == 'calendars[key]']
    if not st or not (isinstance(st[0].value, ast.Call) and call_name(st[0].value) == 'Calendar'):
        ctx.fail(fn, el[0], 'a new Calendar is not stored under calendars[key]')
    else:
        c = st[0].value
        for p in ('holidays', 'weekend', 't0', 't1'):
            if kw(c, p) is None or U(kw(c, p)) != p:
                ctx.fail(fn, st[0], 'Calendar(...) is not given %s = %s' % (p, p))


@obligation('C05.8', 'MATCH argument roles + default chains', 'Calendar.adjust, add, bdays, drange; calendar()',
            "adjust(t, 'f'/'p') must honour the adjustment GIVEN (then the calendar's own, then 'm'); add/bdays count from adjust(date, adj) with date and adj in their own roles; "
            "drange resolves (t0, t1) in that order; registering a Calendar object stores it under its key",
            axioms=())
def c05_8(ctx):
    r = ctx.repo
    f = r.fn('_drange:Calendar.adjust')
    ctx.count(1, f.where())
    a = [s for s in f.body if isinstance(s, ast.Assign) and U(s.targets[0]) == 'adj']
    if not a or N(a[0].value) != NS("(adj or self.adj or 'm').lower()"):
        ctx.fail(f, a[0] if a else f.node, "the adjustment is resolved as `%s`, expected (adj or self.adj or 'm').lower(): first the one given" % (U(a[0].value) if a else 'nothing'))
    tt = [N(s.value) for s in f.body if isinstance(s, ast.Assign) and U(s.targets[0]) == 't']
    if tt[:2] != ['ymd(%s)' % f.params[1], 'datetime.datetime(t.year, t.month, t.day)']:
        ctx.fail(f, f.node, 'the date is not reduced to its midnight (ymd, then a naive datetime) before stepping: %s' % tt[:2])
    for c in calls_in(f.node, 'adjust'):
        if len(c.args) == 2 and U(c.args[1]) in ('d', f.params[1]):
            ctx.fail(f, c, 'recursive adjust is called with (adjustment, date): %s' % U(c))
    for name in ('add', 'bdays'):
        g = r.fn('_drange:Calendar.%s' % name)
        ctx.count(1, g.where())
        a = [s for s in g.body if isinstance(s, ast.Assign) and U(s.targets[0]) == 'adj']
        if not a or N(a[0].value) != NS('adj or self.adj'):
            ctx.fail(g, a[0] if a else g.node, '%s resolves the adjustment as `%s`, expected adj or self.adj' % (name, U(a[0].value) if a else 'nothing'))
        for c in calls_in(g.node, 'adjust'):
            if len(c.args) == 2 and U(c.args[1]) != 'adj':
                ctx.fail(g, c, '%s calls %s: the date comes first, the adjustment second' % (name, U(c)))
        for c in calls_in(g.node, 'add'):
            if len(c.args) >= 2 and U(c.args[1]) != g.params[2]:
                ctx.fail(g, c, 'recursive add is called as %s: (date, days) in that order' % U(c))
    # the default chain only reaches the calendar's own convention (self.adj) when the parameter defaults to None
    for (mod, cls, name), node in sorted(r.funcs.items(), key=str):
        if mod == '_drange' and cls == 'Calendar' and name in ('adjust', 'add', 'bdays', 'drange', 'dt_bump'):     # the business-day arithmetic of this property (trade_date documents its own 'f')
            m = r.fn('_drange:Calendar.%s' % name)
            chain = [b for b in ast.walk(m.node) if isinstance(b, ast.BoolOp) and isinstance(b.op, ast.Or) and [U(v) for v in b.values[:2]] == ['adj', 'self.adj']]
            if 'adj' in m.params and chain:
                ctx.count(1, m.where())
                d = m.defaults().get('adj')
                if d is None or const(d, 'X') is not None:
                    ctx.fail(m, m.node, "Calendar.%s declares adj=%s: any default but None makes `adj or self.adj` dead, so a calendar built with adj='p'/'f' is counted with %s there and with its own convention in adjust/bdays" % (name, U(d) if d is not None else '<required>', U(d) if d is not None else '?'),
                             stmt='def %s(adj=%s)' % (name, U(d) if d is not None else ''))
    ini = r.fn('_drange:Calendar.__init__')
    ctx.count(1, ini.where())
    hol = [N(x.value) for x in body_nodes(ini.node) if isinstance(x, ast.Assign) and U(x.targets[0]) == 'holidays']
    if hol != ['as_list(holidays)', 'dict(zip(holidays, holidays))']:
        ctx.fail(ini, ini.node, 'the holidays given are not all stored (as_list, then a dict keyed by date): %s - is_bday(t) must be false for EVERY supplied holiday, the first and last day of the range included' % hol,
                 stmt='holidays: %s' % hol, witness='Calendar(key, holidays=[dt(2013,1,1)], t0=2013, t1=2015).is_bday(dt(2013,1,1))')
    none_not_falsy(ctx, ini, ['weekend', 'holidays'], 'an EMPTY weekend/holiday list is a configuration of its own (every day of the week is a business day): the Sat-Sun default may only replace None')
    g = r.fn('_drange:Calendar.add')
    t = [s for s in g.body if isinstance(s, ast.Assign) and U(s.targets[0]) == 't']
    ctx.count(1)
    if not t or N(t[0].value) != 'self.adjust(%s, adj)' % g.params[1]:
        ctx.fail(g, t[0] if t else g.node, 'add does not count from self.adjust(date, adj): %s' % (U(t[0].value) if t else '?'))
    d = r.fn('_drange:Calendar.drange')
    ctx.count(1, d.where())
    dr = [s for s in d.body if isinstance(s, ast.Assign) and isinstance(s.value, ast.Call) and call_name(s.value) == 'date_range']
    if not dr or N(dr[0].targets[0]) != '(t0, t1)' or [U(x) for x in dr[0].value.args] != ['t0', 't1']:
        ctx.fail(d, dr[0] if dr else d.node, 'endpoints are not resolved as t0, t1 = self.date_range(t0, t1)')
    expect_guards(ctx, d, [("is_str(bump) and bump[-1] == 'b'", 'self._populate()', "business-day bumps ('kb') use the calendar table")], where=d.body)
    rr = [x for x in returns_of(d.node) if isinstance(x.value, ast.Call) and call_name(x.value) == 'drange']
    if not rr or [U(x) for x in rr[0].value.args] != ['t0', 't1', 'bump']:
        ctx.fail(d, d.node, 'other bumps are not delegated to drange(t0, t1, bump)')
    c = r.fn('_drange:calendar')
    ctx.count(1, c.where())
    top = [s for s in c.body if isinstance(s, ast.If) and N(s.test) == 'isinstance(key, Calendar)']
    if not top:
        ctx.fail(c, c.node, 'registering a Calendar object is no longer handled')
    else:
        inner = [s for s in top[0].body if isinstance(s, ast.If)]
        if inner:
            ok, w = prop_equiv(inner[0].test, 'holidays is None and weekend is None and t0 is None and t1 is None')
            body = [U(x) for x in inner[0].body]
            if not ok or body != ['calendars[key.key] = key', 'key = key.key']:
                ctx.fail(c, inner[0], 'a Calendar passed without overrides is not stored as it is under its own key (when `%s`: %s)' % (U(inner[0].test), body), witness=w)
            ov = {U(x.targets[0]): N(x.value) for x in else_of(inner[0]) if isinstance(x, ast.Assign)}
            want = {'holidays': NS('holidays or list(key.holidays.keys())'), 'weekend': NS('weekend or key.weekend'), 't0': NS('t0 or key.t0'), 't1': NS('t1 or key.t1'), 'key': 'key.key',
                    'calendars[key]': NS('Calendar(key, holidays=holidays, weekend=weekend, t0=t0, t1=t1)')}
            if ov != want:
                bad = [k for k in want if ov.get(k) != want[k]]
                ctx.fail(c, inner[0], 'a Calendar passed with overrides is not re-registered with each override falling back to the old setting: %s' % {k: ov.get(k) for k in bad})
