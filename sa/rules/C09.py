"""C09 dt_bump adds business days, calendar units and compound tenors exactly (structural necessary conditions)."""
import ast
from ..core import obligation, AnalysisError
from .common import *
from . import C04 as _c04

UNITS = set('dbwmqyhns')


def token_loop(fn):
    """the `while period.search(bump) is not None` loop of dt_bump / Calendar.dt_bump."""
    loops = [n for n in ast.walk(fn.node) if isinstance(n, ast.While) and 'period.search' in U(n.test)]
    if len(loops) != 1:
        raise AnalysisError('token loop of %s not found' % fn.qual)
    return loops[0]


def unit_chain(loop):
    """{unit letter: body} from the `bmp.endswith('x')` chain inside the token loop; also returns the If node."""
    for s in loop.body:
        if isinstance(s, ast.If):
            rows = {}
            head = None
            for test, body, node in if_chain(s, nodes=True):
                if test is None:
                    if head is not None:
                        rows['else'] = body
                    continue
                kind, keys = classify_test(test)
                if kind.startswith('endswith:'):
                    head = head or node
                    for k in keys:
                        rows[k] = body
                elif head is not None:        # a returning/continuing guard BEFORE the dispatch is not part of it (C09.4 looks at those)
                    rows.setdefault('other', []).append((test, body))
            if head is not None and any(len(k) == 1 for k in rows if isinstance(k, str)):
                return head, rows
    raise AnalysisError('unit dispatch chain not found in the token loop')


@obligation('C09.1', 'TABLES agreement', 'period regex vs unit chain of _dates:dt_bump vs _drange:Calendar.dt_bump',
            'a unit letter admitted by the tokenizer but not handled by the dispatch is silently skipped; the regex must be anchored so that tokens are taken from the front',
            axioms=())
def c09_1(ctx):
    pat_text, flags = regex_literal(ctx.repo, '_dates', 'period')
    info = regex_info(pat_text, flags)
    fn = ctx.repo.fn('_dates:dt_bump')
    ctx.count(1, fn.where())
    if not info['anchored_start']:
        ctx.fail(fn, fn.node, 'period regex is not anchored at the start: a token could be matched in the middle of the tenor')
    items = info['items']
    if len(items) != 3:
        ctx.fail(fn, fn.node, 'the period regex `%s` is no longer exactly sign? digits+ unit (%d parts): whatever else it admits is taken for a tenor by is_bump/dt before date parsing, and the dispatch slices the count as bmp[:-1]' % (pat_text, len(items)),
                 stmt='period = %s' % pat_text, witness="dt('05 Dec 2021') / dt_bump(t, '3 m')")
        return
    sign, digits, unit = items
    ctx.count(1)
    if not (sign.get('chars') == set('-+') and sign['min'] == 0 and sign['max'] == 1):
        ctx.fail(fn, fn.node, 'sign part of the period regex is %s{%s,%s}' % (sorted(sign.get('chars', [])), sign['min'], sign['max']))
    if not (digits.get('chars') == set('0123456789') and digits['min'] == 1 and digits['max'] is None):
        ctx.fail(fn, fn.node, 'count part of the period regex is not one or more digits')
    admitted = {c.lower() for c in unit.get('chars', set())}
    if unit['min'] != 1 or unit['max'] != 1:
        ctx.fail(fn, fn.node, 'unit part of the period regex is not exactly one letter')
    loop = token_loop(fn)
    chain, rows = unit_chain(loop)
    handled = {k for k in rows if isinstance(k, str) and len(k) == 1}
    ctx.count(1, fn.where(chain))
    ctx.fact('admitted', sorted(admitted))
    ctx.fact('handled', sorted(handled))
    if admitted - handled:
        ctx.fail(fn, chain, 'unit(s) %s are admitted by the period regex but have no branch in dt_bump: such a token is consumed and ignored' % sorted(admitted - handled))
    if handled - admitted:
        ctx.fail(fn, chain, 'unit(s) %s are handled but not admitted by the period regex (dead branch, tenor rejected)' % sorted(handled - admitted))
    if admitted != UNITS:
        ctx.fail(fn, fn.node, 'unit letters are %s, expected %s' % (sorted(admitted), sorted(UNITS)))
    # the tenor is lowered before the dispatch (regex admits upper case)
    ctx.count(1)
    low = [s for s in ast.walk(fn.node) if isinstance(s, ast.Assign) and U(s.targets[0]) == 'bump' and N(s.value) == 'bump.lower()']
    if not low and any(c.isupper() for c in unit.get('chars', set())):
        ctx.fail(fn, fn.node, 'upper-case units are admitted but the tenor is not lowered before the dispatch')
    # Calendar.dt_bump: 'b' tokens go to self.add, everything else to dt_bump
    f2 = ctx.repo.fn('_drange:Calendar.dt_bump')
    l2 = token_loop(f2)
    c2, r2 = unit_chain(l2)
    ctx.count(1, f2.where(c2))
    if 'b' not in r2 or not any(isinstance(c, ast.Call) and call_name(c) == 'add' for s in r2['b'] for c in ast.walk(s)):
        ctx.fail(f2, c2, "Calendar.dt_bump no longer adds business days through self.add for 'b' tokens")
    if 'else' not in r2 or not any(isinstance(c, ast.Call) and call_name(c) == 'dt_bump' and [U(a) for a in c.args] == ['t', 'bmp'] for s in r2['else'] for c in ast.walk(s)):
        ctx.fail(f2, c2, 'Calendar.dt_bump no longer delegates non-business tokens to dt_bump(t, bmp)')


@obligation('C09.2', 'TABLES', 'unit branches of _dates:dt_bump',
            "'nd','nw','nh','nn','ns' add exactly that much time; 'nm','nq','ny' move the month/year through the month-overflow constructor keeping the day of month",
            axioms=('A1',))
def c09_2(ctx):
    fn = ctx.repo.fn('_dates:dt_bump')
    loop = token_loop(fn)
    chain, rows = unit_chain(loop)
    # n := int(bmp[:-1]) possibly hoisted into a local
    n_names = {'int(bmp[:-1])'}
    for s in loop.body:
        if isinstance(s, ast.Assign) and N(s.value) == 'int(bmp[:-1])':
            n_names.add(U(s.targets[0]))

    def sub_n(node):
        node = subst_names(node, {nm: ast.Name('N', ast.Load()) for nm in n_names if nm.isidentifier()})
        return U(node).replace('int(bmp[:-1])', 'N')
    expect = {
        'd': ['t + DAY * N', 't + N * DAY'],
        'w': ['t + DAY * (7 * N)', 't + 7 * N * DAY', 't + DAY * 7 * N', 't + DAY * (N * 7)'],
        'h': ['t + datetime.timedelta(hours=N)'],
        'n': ['t + datetime.timedelta(minutes=N)'],
        's': ['t + datetime.timedelta(seconds=N)'],
        'm': ['_ymd(t.year, t.month + N, t.day)'],
        'q': ['_ymd(t.year, t.month + 3 * N, t.day)', '_ymd(t.year, t.month + N * 3, t.day)'],
        'y': ['_ymd(t.year + N, t.month, t.day)'],
    }
    for unit, forms in expect.items():
        ctx.count(1, unit)
        if unit not in rows:
            ctx.fail(fn, chain, "unit '%s' has no branch" % unit)
            continue
        body = rows[unit]
        asg = [s for s in body if isinstance(s, (ast.Assign, ast.AugAssign))]
        if len(asg) != 1:
            ctx.fail(fn, body[0], "unit '%s' branch is not a single update of t" % unit)
            continue
        a = asg[0]
        val = a.value if isinstance(a, ast.Assign) else ast.BinOp(ast.Name('t', ast.Load()), a.op, a.value)
        tgt = U(a.targets[0]) if isinstance(a, ast.Assign) else U(a.target)
        got = sub_n(val)
        if tgt != 't' or got not in forms:
            ctx.fail(fn, a, "unit '%s' computes `%s`, expected `%s`" % (unit, got, forms[0]))
    # ints and timedeltas
    ctx.count(1)
    i = [n for n in ast.walk(fn.node) if isinstance(n, ast.If) and N(n.test) == 'is_int(bump)']
    def upd(a):     # the value t holds after `t = e` / `t += e`
        return N(a.value) if isinstance(a, ast.Assign) else N(ast.BinOp(ast.Name('t', ast.Load()), a.op, a.value)) if isinstance(a, ast.AugAssign) and U(a.target) == 't' else None
    if not i or upd(i[0].body[0]) not in (NS('t + DAY * bump'), NS('t + bump * DAY')):
        ctx.fail(fn, i[0] if i else fn.node, 'integer bumps no longer add that many days')


# ------------------------------------------------------------------------------------------ NUM linear forms
class Lin:
    """c0 + c1*W for a symbolic number of whole weeks W"""
    def __init__(s, c0, c1=0):
        s.c0, s.c1 = c0, c1

    def __add__(s, o):
        o = lin(o)
        return Lin(s.c0 + o.c0, s.c1 + o.c1)
    __radd__ = __add__

    def __sub__(s, o):
        o = lin(o)
        return Lin(s.c0 - o.c0, s.c1 - o.c1)

    def __rsub__(s, o):
        return lin(o) - s

    def __mul__(s, o):
        o = lin(o)
        if s.c1 and o.c1:
            raise AnalysisError('non-linear arithmetic in the business-day closed form')
        return Lin(s.c0 * o.c0, s.c0 * o.c1 + s.c1 * o.c0)
    __rmul__ = __mul__

    def floordiv(s, k):
        if not (isinstance(k, int) and k > 0 and s.c1 % k == 0):
            raise AnalysisError('floor division %s // %s is not exact on the linear form' % (s, k))
        return Lin(s.c0 // k, s.c1 // k)

    def mod(s, k):
        if not (isinstance(k, int) and k > 0 and s.c1 % k == 0):
            raise AnalysisError('modulo %s %% %s is not exact on the linear form' % (s, k))
        return Lin(s.c0 % k, 0)

    def concrete(s):
        if s.c1:
            raise AnalysisError('comparison on a symbolic value %s in the business-day closed form' % s)
        return s.c0

    def __repr__(s):
        return '%d+%dW' % (s.c0, s.c1)


def lin(x):
    return x if isinstance(x, Lin) else Lin(x)


class _Date:
    def __init__(s, off, time_kept=True):
        s.off = lin(off)
        s.time_kept = time_kept      # False once the value went through something that returns midnight (today(t), ymd(t), t.date() ...)


class _Day:
    pass


class TruncDiv(AnalysisError):
    pass


def _ev(e, env):
    if isinstance(e, ast.Constant):
        return e.value
    if isinstance(e, ast.Call) and isinstance(e.func, ast.Name) and e.func.id == 'int' and len(e.args) == 1 and isinstance(e.args[0], ast.BinOp) and isinstance(e.args[0].op, ast.Div):
        raise TruncDiv(ast.unparse(e))
    if isinstance(e, ast.UnaryOp) and isinstance(e.op, ast.USub):
        return lin(0) - lin(_ev(e.operand, env))
    if isinstance(e, ast.Name):
        if e.id not in env:
            raise AnalysisError('unknown name %s in the business-day closed form' % e.id)
        return env[e.id]
    if isinstance(e, ast.BinOp):
        a, b = _ev(e.left, env), _ev(e.right, env)
        if isinstance(e.op, ast.FloorDiv):
            return lin(a).floordiv(lin(b).concrete() if isinstance(b, Lin) else b)
        if isinstance(e.op, ast.Mod):
            return lin(a).mod(lin(b).concrete() if isinstance(b, Lin) else b)
        if isinstance(a, _Date) or isinstance(b, _Date):
            d, k = (a, b) if isinstance(a, _Date) else (b, a)
            if isinstance(k, tuple) and k[0] == 'days' and isinstance(e.op, (ast.Add, ast.Sub)) and (isinstance(e.op, ast.Add) or d is a):
                return _Date(d.off + k[1] if isinstance(e.op, ast.Add) else d.off - k[1], d.time_kept)
            raise AnalysisError('unsupported date arithmetic: %s' % U(e))
        if isinstance(a, _Day) or isinstance(b, _Day):
            k = b if isinstance(a, _Day) else a
            if not isinstance(e.op, ast.Mult):
                raise AnalysisError('unsupported DAY arithmetic: %s' % U(e))
            return ('days', lin(k))
        if isinstance(e.op, ast.Add):
            return lin(a) + b
        if isinstance(e.op, ast.Sub):
            return lin(a) - b
        if isinstance(e.op, ast.Mult):
            return lin(a) * b
    if isinstance(e, ast.Compare) and len(e.ops) == 1:
        a, b = lin(_ev(e.left, env)).concrete(), lin(_ev(e.comparators[0], env)).concrete()
        ops = {ast.Gt: a > b, ast.GtE: a >= b, ast.Lt: a < b, ast.LtE: a <= b, ast.Eq: a == b, ast.NotEq: a != b}
        if type(e.ops[0]) in ops:
            return ops[type(e.ops[0])]
    if isinstance(e, ast.BoolOp):
        for v in e.values:                    # short-circuit, as Python does
            x = _ev(v, env)
            if bool(x) != isinstance(e.op, ast.And):
                return x
        return x
    if isinstance(e, ast.Call) and isinstance(e.func, ast.Name) and e.func.id in ('min', 'max') and e.args and not e.keywords:
        vals = [lin(_ev(a, env)).concrete() for a in e.args]
        return min(vals) if e.func.id == 'min' else max(vals)
    if isinstance(e, ast.Call) and isinstance(e.func, ast.Name) and e.func.id == 'abs' and len(e.args) == 1:
        return abs(lin(_ev(e.args[0], env)).concrete())
    if isinstance(e, ast.Call) and U(e) == 't.weekday()':
        t = env['t']
        if t.off.c1 % 7:
            raise AnalysisError('weekday of a date offset by a symbolic non-multiple of 7')
        return (env['__s0__'] + t.off.c0) % 7
    if isinstance(e, ast.Call) and N(e) == 'int(bmp[:-1])':
        return env['__n__']
    if isinstance(e, ast.Call) and call_name(e) in ('today', 'ymd') and len(e.args) == 1 and not e.keywords and isinstance(_ev(e.args[0], env), _Date):
        return _Date(_ev(e.args[0], env).off, False)          # the same day at midnight
    if isinstance(e, ast.Call) and call_name(e) == 'timedelta' and len(e.args) == 1 and not e.keywords:
        return ('days', lin(_ev(e.args[0], env)))
    if isinstance(e, ast.Call) and call_name(e) == 'timedelta' and not e.args and len(e.keywords) == 1 and e.keywords[0].arg == 'days':
        return ('days', lin(_ev(e.keywords[0].value, env)))
    raise AnalysisError('statement form outside the whitelisted subset of the numeric evaluator: %s' % U(e))


def _run(stmts, env):
    for s in stmts:
        if isinstance(s, ast.Assign) and len(s.targets) == 1 and isinstance(s.targets[0], ast.Tuple) and isinstance(s.value, ast.Call) and call_name(s.value) == 'divmod' \
                and len(s.targets[0].elts) == 2 and len(s.value.args) == 2:
            a, k = lin(_ev(s.value.args[0], env)), _ev(s.value.args[1], env)
            k = lin(k).concrete() if isinstance(k, Lin) else k
            env[s.targets[0].elts[0].id] = a.floordiv(k)
            env[s.targets[0].elts[1].id] = a.mod(k)
        elif isinstance(s, ast.Assign) and len(s.targets) == 1 and isinstance(s.targets[0], ast.Name):
            env[s.targets[0].id] = _ev(s.value, env)
        elif isinstance(s, ast.AugAssign) and isinstance(s.target, ast.Name):
            env[s.target.id] = _ev(ast.BinOp(ast.Name(s.target.id, ast.Load()), s.op, s.value), env)
        elif isinstance(s, ast.If):
            _run(s.body if _ev(s.test, env) else s.orelse, env)
        elif isinstance(s, ast.Pass):
            pass
        else:
            raise AnalysisError('statement form outside the whitelisted subset of the numeric evaluator: %s' % U(s)[:60])


@obligation('C09.3', "NUM linear-form evaluation", "the 'b' branch of _dates:dt_bump",
            "dt_bump(t, 'nb') from a weekday is the n-th weekday after/before t and from a weekend first rolls to Monday: for every start weekday s in 0..6 and every n = r + 5W (r in 0..4, W any integer) "
            'the closed form must equal counting weekdays one by one and land on a weekday',
            axioms=('A2',))
def c09_3(ctx):
    fn = ctx.repo.fn('_dates:dt_bump')
    loop = token_loop(fn)
    chain, rows = unit_chain(loop)
    if 'b' not in rows:
        ctx.fail(fn, chain, "dt_bump has no 'b' branch")
        return
    body = rows['b']
    # statements of the loop body that precede the dispatch and define locals used by the branch (e.g. a hoisted n = int(bmp[:-1]))
    pre = []
    for s in loop.body:
        if s is chain:
            break
        if isinstance(s, ast.Assign) and N(s.value) == 'int(bmp[:-1])':
            pre.append(s)
    # DEF-USE: everything the branch reads must be the parameters of THIS part (the running date t, the token bmp) or be computed from
    # them inside the same iteration; a value computed once before the token loop is stale for every later part of a compound tenor
    inside = {id(n) for s in pre + body for n in ast.walk(s)}
    outer_defs = {n.id for s in fn.body for n in ast.walk(s) if isinstance(n, ast.Name) and isinstance(n.ctx, ast.Store) and id(n) not in inside}
    first_store = {}
    for s in pre + body:
        for n in ast.walk(s):
            if isinstance(n, ast.Name) and n.id not in first_store:
                first_store[n.id] = isinstance(n.ctx, ast.Store)
    for nm, stored_first in first_store.items():
        if not stored_first and nm in outer_defs and nm not in ('t', 'bmp', 'bump', 'DAY') and nm not in fn.params:
            ctx.count(1)
            ctx.fail(fn, body[0], "the 'b' branch reads `%s`, which is computed outside the token loop: in a compound tenor the second part would use the value of the first (e.g. the weekday the tenor started from)" % nm,
                     witness="dt_bump(thursday, '1d1b')", stmt="'b' branch reads %s" % nm)
            return
    bad = []
    pending = []
    for s0 in range(7):
        for r in range(5):
            env = dict(t=_Date(0), DAY=_Day(), __s0__=s0, __n__=Lin(r, 5))
            try:
                try:
                    _run(pre + body, env)
                except TruncDiv:
                    raise
                except AnalysisError as ex:
                    if 'symbolic' not in str(ex):
                        raise
                    # the closed form branches on the symbolic count: no proof for every W, but concrete counts can still refute it
                    for W in range(-4, 5):
                        cenv = dict(t=_Date(0), DAY=_Day(), __s0__=s0, __n__=Lin(r + 5 * W, 0))
                        _run(pre + body, cenv)
                        roll_ = (7 - s0) if s0 > 4 else 0
                        s1_, k_, left_ = (s0 + roll_) % 7, 0, r + 5 * W
                        step_ = 1 if left_ > 0 else -1
                        while left_:
                            k_ += step_
                            if (s1_ + k_) % 7 < 5:
                                left_ -= step_
                        got_ = cenv['t'].off.c0
                        ctx.count(1)
                        if got_ != roll_ + k_:
                            days = ['Mon', 'Tue', 'Wed', 'Thu', 'Fri', 'Sat', 'Sun']
                            ctx.fail(fn, body[0], "business-day closed form is wrong: from a %s, %db moves %d days, counting weekdays one by one gives %d" % (days[s0], r + 5 * W, got_, roll_ + k_),
                                     witness=dict(start_weekday=s0, n=r + 5 * W, moved=got_, expected=roll_ + k_), stmt=ast.Module(body, []))
                            return
                    pending.append(ex)
                    continue
            except TruncDiv as ex:
                ctx.count(1)
                ctx.fail(fn, body[0], 'the closed form divides with `%s`, which truncates toward zero: for a negative count that is not a multiple of 5 the number of whole weeks is one too small (floor division // is required), so -1b from a Monday lands on Sunday' % ex,
                         witness="dt_bump(monday, '-1b')", stmt=str(ex))
                return
            if not env['t'].time_kept:
                ctx.count(1)
                ctx.fail(fn, body[0], "the 'b' branch sends the date through a function that returns midnight (today/ymd): the time of day of t is lost, while every other unit keeps it",
                         witness="dt_bump(datetime.datetime(2020, 1, 4, 9, 30), '1b')", stmt='time of day dropped in the b branch')
                return
            off = env['t'].off
            roll = (7 - s0) if s0 > 4 else 0
            s1 = (s0 + roll) % 7
            k = 0
            left = r
            while left:
                k += 1
                if (s1 + k) % 7 < 5:
                    left -= 1
            spec = Lin(roll + k, 7)
            land = (s0 + off.c0) % 7
            ctx.count(1)
            if (off.c0, off.c1) != (spec.c0, spec.c1) or land >= 5:
                bad.append(dict(start_weekday=s0, n='%d + 5W' % r, offset_days=repr(off), expected=repr(spec), lands_on_weekday=land))
    ctx.fact('abstract_cases', 35)
    if pending and not bad:
        raise pending[0]
    if bad:
        days = ['Mon', 'Tue', 'Wed', 'Thu', 'Fri', 'Sat', 'Sun']
        b0 = bad[0]
        ctx.fail(fn, body[0], "business-day closed form is wrong in %d of 35 abstract cases; e.g. from a %s with n = %s it moves %s days, counting weekdays gives %s" % (
            len(bad), days[b0['start_weekday']], b0['n'], b0['offset_days'], b0['expected']), witness=bad[:4], stmt=ast.Module(body, []))


@obligation('C09.4', 'MATCH', 'token loop of _dates:dt_bump',
            'compound tenors apply their parts left to right, each exactly once: a token is taken from the front, removed by slicing off its own length, and always reaches the unit dispatch; residue raises',
            axioms=('A1',))
def c09_4(ctx):
    fn = ctx.repo.fn('_dates:dt_bump')
    loop = token_loop(fn)
    chain, rows = unit_chain(loop)
    # the start is promoted to a datetime unless it already is one: a plain date cannot carry the hour/minute/second parts
    st = [s for s in fn.body if isinstance(s, ast.Assign) and U(s.targets[0]) == 't' and isinstance(s.value, ast.IfExp)] + \
         [s for s in fn.body if isinstance(s, ast.If) and any(isinstance(a, ast.Assign) and U(a.targets[0]) == 't' and N(a.value) == 'dt(t)' for a in s.body)]
    ctx.count(1)
    if st:
        test = st[0].value.test if isinstance(st[0], ast.Assign) else st[0].test
        keep = isinstance(st[0], ast.Assign) and N(st[0].value.body) == 't'
        ok1, _ = prop_equiv(test, 'isinstance(t, datetime.datetime)')
        ok2, _ = prop_equiv(test, 'not isinstance(t, datetime.datetime)')
        if not ((keep and ok1) or (not keep and ok2) or (isinstance(st[0], ast.Assign) and N(st[0].value.orelse) == 't' and ok2)):
            ctx.fail(fn, st[0], 'the start is passed through dt() unless `%s`: only a datetime.datetime may be used as it is (a datetime.date has no time of day, so hour/minute/second parts are lost)' % U(test),
                     witness="dt_bump(datetime.date(2020, 1, 1), '3h')")
    else:
        ctx.fail(fn, fn.node, 'dt_bump no longer promotes its start to a datetime')
    take = [s for s in loop.body if isinstance(s, ast.Assign) and U(s.targets[0]) == 'bmp']
    ctx.count(1, fn.where(loop))
    if not take or N(take[0].value) != 'period.search(bump).group()':
        ctx.fail(fn, take[0] if take else loop, 'the token is not period.search(bump).group()')
    drop = [s for s in loop.body if isinstance(s, ast.Assign) and U(s.targets[0]) == 'bump']
    ctx.count(1)
    if not drop:
        ctx.fail(fn, loop, 'the consumed token is never removed from the tenor: the loop cannot terminate')
    elif N(drop[0].value) != 'bump[len(bmp):]':
        ctx.fail(fn, drop[0], 'the consumed token is removed with `%s` instead of slicing off its own length bump[len(bmp):]: a part whose text recurs later in the tenor is removed too (or leaves residue)' % U(drop[0].value),
                 witness="dt_bump(t, '1b1b'), dt_bump(t, '1d11d')")
    elif loop.body.index(drop[0]) > loop.body.index(chain):
        pass
    # every token must reach the dispatch: no continue/break/return before it
    ctx.count(1)
    for s in loop.body:
        if s is chain:
            break
        for n in ast.walk(s):
            if isinstance(n, (ast.Continue, ast.Break, ast.Return)):
                pm = parent_map(loop)
                g = pm.get(n)
                ctx.fail(fn, g if isinstance(g, ast.If) else s, "a token can leave the loop body before the unit dispatch (`%s`): that part of the tenor is not applied (a '0b' part must still roll a weekend date to Monday)" % U(g.test if isinstance(g, ast.If) else s)[:60],
                         witness="dt_bump(saturday, '0b') must be the following Monday")
    # residue
    ctx.count(1)
    # bump is a str here (is_str branch; lower / dict lookup of str / slices): `if bump`, `if len(bump)` and `len(bump) > 0` say the same
    res = [s for s in ast.walk(fn.node) if isinstance(s, ast.If) and N(s.test) in ('len(bump)', 'bump', NS('len(bump) > 0'), NS('len(bump) != 0'), NS("bump != ''"))]
    if not res or not any(isinstance(r, ast.Raise) and 'ValueError' in U(r) for r in ast.walk(res[0])):
        ctx.fail(fn, fn.node, 'a tenor with unparsable residue no longer raises ValueError')
    # named tenors
    ctx.count(1)
    m, v = ctx.repo.module_value('_dates', '_bumps')
    d = dict_literal(v)
    want = {'spot': '0b', 'on': '1b', 'o/n': '1b', 'tn': '2b', 't/n': '2b', 'sn': '3b', 's/n': '3b'}
    got = {k: const(x) for k, x in d.items()}
    if got != want:
        ctx.fail(fn, fn.node, 'named tenors table is %s' % got)


@obligation('C09.5', 'MATCH+NUM (shared with C04.2)', '_dates:ym, _dates:_ymd',
            'month/quarter/year bumps rely on the month-overflow constructor: excess months carry into the year, excess days roll into the following month',
            axioms=('A2',))
def c09_5(ctx):
    _c04.c04_2(ctx)
