"""C06 inc and exc partition a table; both keep the columns and the row order (structural necessary conditions)."""
import ast, copy as _cp
from ..core import obligation, AnalysisError
from .. import flow
from .common import *
from .C01 import fresh_result


def _rename(e, mapping):
    e = _cp.deepcopy(e)
    for n in ast.walk(e):
        if isinstance(n, ast.Name) and n.id in mapping:
            n.id = mapping[n.id]
    return e


def _case_key(test, subject):
    """classify a guard on the filter value: 'none' | 'nan' | 'regex' | None"""
    t = N(test)
    if t == NS('%s is None' % subject):
        return 'none'
    if t == 'is_nan(%s)' % subject:
        return 'nan'
    if t in ('isinstance(%s, Pattern)' % subject, 'is_regex(%s)' % subject):
        return 'regex'
    return None


def _inc_cases(ctx, fn):
    """{case: predicate text on cell `v`} from the keyword loop of dictable.inc"""
    loops = [s for s in fn.body if isinstance(s, ast.For) and N(s.iter) == 'filters.items()']
    ctx.need(len(loops) == 1, 'keyword-filter loop of inc not found')
    loop = loops[0]
    key, value = [U(x) for x in loop.target.elts]
    chains = [s for s in loop.body if isinstance(s, ast.If) and _case_key(s.test, value) is not None]
    ctx.need(len(chains) == 1, 'case chain on the filter value not found in inc')
    out = {}
    order = []
    for test, body in if_chain(chains[0]):
        case = 'else' if test is None else _case_key(test, value)
        if case is None:
            ctx.fail(fn, body[0], 'inc tests `%s`, which is none of the cases None / NaN / regex of the filter value' % U(test))
            continue
        order.append(case)
        inl = {}
        pred = None
        for s in body:
            if isinstance(s, ast.Assign) and U(s.targets[0]) == value:
                inl[value] = s.value
            elif isinstance(s, ast.Assign) and isinstance(s.value, ast.Subscript) and isinstance(s.value.slice, ast.ListComp):
                comp = s.value.slice
                cell = U(comp.generators[0].target)
                src = N(comp.generators[0].iter)
                if src != '%s[%s]' % (U(s.value.value), key):
                    ctx.fail(fn, s, 'mask iterates %s, not the filtered column %s[%s]' % (src, U(s.value.value), key))
                if U(s.targets[0]) != U(s.value.value):
                    ctx.fail(fn, s, 'filtered table is not threaded through (assigned to %s)' % U(s.targets[0]))
                pred = N(subst_names(_rename(comp.elt, {cell: 'v'}), {k: _rename(v, {}) for k, v in inl.items()}))
                out[case] = (pred, s)
        if pred is None:
            ctx.fail(fn, body[0], 'case `%s` of inc does not filter rows with a mask over the column' % case)
    return out, order, loop


def _rowcheck_cases(ctx, fn):
    row, key, value = fn.params[:3]
    cell = None
    for s in fn.body:
        if isinstance(s, ast.Assign) and N(s.value) == '%s[%s]' % (row, key):
            cell = U(s.targets[0])
    ctx.need(cell is not None, '_row_check no longer reads the cell row[key]')
    out, order = {}, []
    for s in fn.body:
        if isinstance(s, ast.If):
            for test, body in if_chain(s, extend=False):
                rets = [x for x in body if isinstance(x, ast.Return)]
                if test is None:
                    case = 'else'
                else:
                    case = _case_key(test, value)
                    if case is None:
                        ctx.fail(fn, s, '_row_check tests `%s`: the case split must be on the filter value (None / NaN / regex), as in inc' % U(test))
                        continue
                order.append(case)
                if rets:
                    out[case] = (N(_rename(rets[0].value, {cell: 'v'})), rets[0])
        elif isinstance(s, ast.Return):
            order.append('else')
            out['else'] = (N(_rename(s.value, {cell: 'v'})), s)
    return out, order


@obligation('C06.1', 'SIBLING case agreement', 'keyword-filter loop of dictable.inc vs _dictable:_row_check (used by exc)',
            'inc and exc partition the table only if they test the same condition on a cell, case by case (None, NaN, regex, list of values)',
            axioms=('A5',))
def c06_1(ctx):
    finc = ctx.repo.fn('_dictable:dictable.inc')
    frow = ctx.repo.fn('_dictable:_row_check')
    a, oa, loop = _inc_cases(ctx, finc)
    b, ob = _rowcheck_cases(ctx, frow)
    value = U(loop.target.elts[1])
    bvalue = frow.params[2]
    expect = {'none': NS('v is None'), 'nan': 'is_nan(v)'}
    for case in ('none', 'nan', 'regex', 'else'):
        ctx.count(1, case)
        if case not in a:
            ctx.fail(finc, loop, 'inc has no `%s` case' % case)
            continue
        if case not in b:
            ctx.fail(frow, frow.node, '_row_check has no `%s` case' % case)
            continue
        pa = a[case][0]
        pb = N(_rename(ast.parse(b[case][0], mode='eval').body, {bvalue: value}))
        if pa != pb:
            ctx.fail(frow, b[case][1], 'case `%s`: inc keeps a row when `%s` but exc drops it when `%s`' % (case, pa, pb), witness=dict(inc=pa, exc=pb))
        if case in expect and pa != expect[case]:
            ctx.fail(finc, a[case][1], 'case `%s` of inc tests `%s`, expected `%s`' % (case, pa, expect[case]))
    if [c for c in oa if c != 'else'] != [c for c in ob if c != 'else']:
        ctx.fail(frow, frow.node, 'inc decides cases in the order %s, _row_check in the order %s (a NaN/None value is classified differently)' % (oa, ob))
    ctx.count(1)
    if 'else' in a and a['else'][0] != NS('v in as_list(%s)' % value):
        ctx.fail(finc, a['else'][1], 'general case of inc tests `%s`, expected membership in as_list(value)' % a['else'][0])
    if 'regex' in a and a['regex'][0] != NS('is_str(v) and %s.search(v) is not None' % value):
        ctx.fail(finc, a['regex'][1], 'regex case of inc tests `%s`, expected is_str(v) and value.search(v) is not None' % a['regex'][0])


def _callable_filter(ctx, fn, want_not):
    """the statement filtering rows by a callable in inc/exc; checks polarity and that truthiness (not a raw mask) decides."""
    loops = [s for s in fn.body if isinstance(s, ast.For) and U(s.iter) == 'functions']
    ctx.need(len(loops) == 1, 'loop over callables not found in %s' % fn.qual)
    found = False
    for s in ast.walk(loops[0]):
        if not isinstance(s, ast.Assign):
            continue
        v = s.value
        # form (a): type(self)([row for row in res if [not] f(**row)])
        if isinstance(v, ast.Call) and len(v.args) == 1 and isinstance(v.args[0], ast.ListComp) and v.args[0].generators[0].ifs:
            comp = v.args[0]
            row = U(comp.generators[0].target)
            if U(comp.elt) != row:
                continue
            found = True
            ctx.count(1, fn.where(s))
            cond = comp.generators[0].ifs[0]
            neg = isinstance(cond, ast.UnaryOp) and isinstance(cond.op, ast.Not)
            core_ = cond.operand if neg else cond
            if not (isinstance(core_, ast.Call) and U(core_.func) == 'f' and any(k.arg is None and U(k.value) == row for k in core_.keywords)):
                ctx.fail(fn, s, 'callable filter condition is `%s`, expected %sf(**%s)' % (U(cond), 'not ' if want_not else '', row))
            elif neg != want_not:
                ctx.fail(fn, s, '%s keeps rows when `%s`: polarity is inverted' % (fn.name, U(cond)))
            if N(comp.generators[0].iter) != U(s.targets[0]):
                ctx.fail(fn, s, 'callable filter iterates %s instead of the running result %s' % (U(comp.generators[0].iter), U(s.targets[0])))
        # form (b): res[[... for row in res]] - a mask handed to __getitem__ must be made of real bools
        elif isinstance(v, ast.Subscript) and isinstance(v.slice, ast.ListComp) and any(isinstance(c, ast.Call) and U(c.func) == 'f' for c in ast.walk(v.slice)):
            found = True
            ctx.count(1, fn.where(s))
            elt = v.slice.elt
            neg = isinstance(elt, ast.UnaryOp) and isinstance(elt.op, ast.Not)
            is_bool = neg or (isinstance(elt, ast.Call) and U(elt.func) == 'bool')
            if not is_bool:
                ctx.fail(fn, s, 'rows are selected with the raw answers of the callable as a mask: __getitem__ treats a list of ints as row numbers and a list of strings as column names, so a predicate returning truthy non-bool values selects the wrong rows',
                         witness='d.inc(lambda x: x % 3)')
            if neg != want_not and is_bool:
                ctx.fail(fn, s, '%s keeps rows when `%s`: polarity is inverted' % (fn.name, U(elt)))
    if not found:
        ctx.fail(fn, loops[0], '%s no longer filters rows by the callable' % fn.qual)


@obligation('C06.2', 'MATCH polarity', 'dictable.inc, dictable.exc, _dictable:and_',
            'exc must be the complement of the conjunction tested by inc: callables keep rows on truthiness (inc) / falsiness (exc), and_ is a conjunction over all filters, exc keeps rows where it is false',
            axioms=('A1',))
def c06_2(ctx):
    finc = ctx.repo.fn('_dictable:dictable.inc')
    fexc = ctx.repo.fn('_dictable:dictable.exc')
    _callable_filter(ctx, finc, False)
    _callable_filter(ctx, fexc, True)
    # and_ hands every filter value to _row_check AS GIVEN (the case split None / NaN / regex / list of values is _row_check's)
    fa = ctx.repo.fn('_dictable:and_')
    ctx.count(1, fa.where())
    for s_ in body_nodes(fa.node):
        if isinstance(s_, (ast.Assign, ast.AugAssign)) and 'filters' in [U(t) for t in (s_.targets if isinstance(s_, ast.Assign) else [s_.target])]:
            ctx.fail(fa, s_, 'and_ converts the filter values (`%s`) before _row_check sees them: a NaN filter is then no longer recognised as NaN (v in [nan] compares by identity/==), so exc and inc disagree on NaN cells' % U(s_)[:90],
                     witness="t.exc(x=float('nan')) and t.inc(x=float('nan')) both keep a row whose cell is another NaN object")
    # dict arguments are merged into the keyword filters in both: EXACTLY a dict (pyg's own decorators are dict subclasses and are callables)
    for fn in (finc, fexc):
        ctx.count(1)
        for t_ in [x for x in ast.walk(fn.node) if isinstance(x, ast.If) and any(isinstance(c, ast.Call) and call_name(c) == 'update' and U(c.func.value) == 'filters' for b in x.body for c in ast.walk(b))]:
            ok, w = prop_equiv(t_.test, 'type(function) == dict')
            if not ok:
                ctx.fail(fn, t_, '%s merges its argument into the filters when `%s`, expected only for an exact dict (type(function) == dict): a decorated predicate (wrapper objects are dict subclasses) is a callable, not a set of conditions' % (fn.qual, U(t_.test)),
                         witness='t.inc(try_false(lambda a: a > 1))')
        if not [c for c in calls_in(fn.node, 'update') if U(c.func.value) == 'filters']:
            ctx.fail(fn, fn.node, '%s no longer merges dict arguments into the keyword filters' % fn.qual)
        ks = [c for c in calls_in(fn.node, 'kwargs_support')]
        if not ks:
            ctx.fail(fn, fn.node, '%s no longer wraps callables with kwargs_support (rows carry every column)' % fn.qual)
    fand = ctx.repo.fn('_dictable:and_')
    inner = fand.inner('func')
    rets = returns_of(inner.node)
    ctx.count(1, fand.where())
    ok = False
    if rets and isinstance(rets[0].value, ast.Call) and call_name(rets[0].value) in ('min', 'all') and rets[0].value.args:
        comp = rets[0].value.args[0]
        if isinstance(comp, (ast.ListComp, ast.GeneratorExp)) and isinstance(comp.elt, ast.Call) and call_name(comp.elt) == '_row_check' and N(comp.generators[0].iter) == 'filters.items()' and not comp.generators[0].ifs:
            k, v = [U(x) for x in comp.generators[0].target.elts]
            if [U(a) for a in comp.elt.args] == [inner.params[0], k, v]:
                ok = True
    if not ok:
        ctx.fail(fand, rets[0] if rets else fand.node, 'and_ is not the conjunction (min/all) of _row_check(row, key, value) over all filters')
    # exc masks with `not include(row)`
    ctx.count(1)
    m = [s for s in ast.walk(fexc.node) if isinstance(s, ast.Assign) and isinstance(s.value, ast.Subscript) and isinstance(s.value.slice, ast.ListComp) and 'include' in U(s.value.slice)]
    if not m:
        ctx.fail(fexc, fexc.node, 'exc no longer masks rows with the negated conjunction')
    else:
        comp = m[0].value.slice
        row = U(comp.generators[0].target)
        if N(comp.elt) != NS('not include(%s)' % row):
            ctx.fail(fexc, m[0], 'exc keeps rows when `%s`, expected `not include(%s)`' % (U(comp.elt), row))
        if N(comp.generators[0].iter) != U(m[0].value.value):
            ctx.fail(fexc, m[0], 'mask is computed over %s but applied to %s' % (U(comp.generators[0].iter), U(m[0].value.value)))
        inc_def = single_assign(fexc, 'include')
        if inc_def is None or N(inc_def) != 'and_(filters)':
            ctx.fail(fexc, m[0], 'include is not and_(filters)')


@obligation('C06.3', 'MATCH order (zero-count rule)', 'dictable.inc, dictable.exc, bool-mask branch of dictable.__getitem__',
            'both results keep the original relative order of rows: rows are produced by comprehensions iterating the table in order, never sorted/reversed/deduplicated',
            axioms=())
def c06_3(ctx):
    for name in ('inc', 'exc', '__getitem__'):
        fn = ctx.repo.fn('_dictable:dictable.%s' % name)
        ctx.count(1, fn.where())
        for c in calls_in(fn.node):
            if call_name(c) in ('sorted', 'reversed', 'set', 'sort', 'reverse', 'shuffle', 'frozenset') and c.args and not (name == '__getitem__' and False):
                a = U(c.args[0]) if c.args else ''
                if name == 'inc' and call_name(c) == 'set':
                    continue
                ctx.fail(fn, c, 'rows/columns pass through %s(...) in %s: original row order is not preserved' % (call_name(c), fn.qual))
        for n in ast.walk(fn.node):
            if isinstance(n, ast.Subscript) and isinstance(n.slice, ast.Slice) and n.slice.step is not None and const(n.slice.step) not in (None, 1):
                ctx.fail(fn, n, 'rows are re-ordered by the slice %s' % U(n))
    # the bool-mask branch of __getitem__ pairs rows with the mask in order
    fn = ctx.repo.fn('_dictable:dictable.__getitem__')
    ctx.count(1)
    comp = [n for n in ast.walk(fn.node) if isinstance(n, ast.ListComp) and isinstance(n.generators[0].iter, ast.Call) and call_name(n.generators[0].iter) in ('zipper', 'zip') and n.generators[0].ifs]
    if not comp:
        ctx.fail(fn, fn.node, 'bool-mask branch no longer pairs rows with the mask')
    else:
        g = comp[0].generators[0]
        row, tf = [U(x) for x in g.target.elts]
        if U(comp[0].elt) != row or N(g.ifs[0]) != tf or [N(a) for a in g.iter.args] != ['list(self)', fn.params[1]]:
            ctx.fail(fn, comp[0], 'bool-mask branch is `%s`, expected [row for row, tf in zip(list(self), mask) if tf]' % U(comp[0]))


@obligation('C06.4', 'TAINT(empty-records)', 'dictable.inc, dictable.exc',
            'both results carry all of the table\'s columns even when no row survives: a table rebuilt from zero surviving records has no columns and must not reach a column lookup or the return unsanitised',
            axioms=('A1',))
def c06_4(ctx):
    for name in ('inc', 'exc'):
        fn = ctx.repo.fn('_dictable:dictable.%s' % name)
        t = flow.EmptyRecordsTaint(fn).run()
        ctx.count(max(1, t.sources), fn.where())
        pm = parent_map(fn.node)
        for n, m in t.reports:
            ctx.fail(fn, enclosing_stmt(pm, n), m, witness='d.%s(lambda x: False, y = 1)' % name)
        # the final emptiness guard rebuilds the table with self.keys()
        ctx.count(1)
        g = [s for s in fn.body if isinstance(s, ast.If) and N(s.test) in (NS('len(res) == 0'), 'not len(res)', 'not res')]
        ok = g and any(isinstance(r, ast.Return) and isinstance(r.value, ast.Call) and len(r.value.args) == 2 and N(r.value.args[0]) == '[]' and N(r.value.args[1]) in ('self.keys()', 'self.columns') for r in g[-1].body)
        if not ok:
            ctx.fail(fn, g[-1] if g else fn.node, '%s no longer returns type(self)([], self.keys()) when nothing survives' % fn.qual)


@obligation('C06.5', 'PATH + ALIAS fresh result', 'dictable.inc, dictable.exc',
            'inc with no condition is the identity on values but returns a copy: on the path with no functions and no filters the result is self.copy()',
            axioms=())
def c06_5(ctx):
    for name in ('inc', 'exc'):
        fn = ctx.repo.fn('_dictable:dictable.%s' % name)
        hit = 0
        for p in paths(fn.body, bound=4096):
            if p.term != 'return':
                continue
            # "no condition at all": the sum of the two lengths is 0, or each of *functions (a tuple) and **filters (a dict) is empty, however spelled
            def _empty(name, p=p):
                for text, pol, e in p.atoms():
                    from ..au import _atom_key
                    k, positive = _atom_key(e, N)
                    if k == 'nonempty(%s)' % name and (pol == positive) is False:
                        return True
                    if isinstance(e, ast.Name) and e.id == name and name in (fn.node.args.vararg.arg if fn.node.args.vararg else None, fn.node.args.kwarg.arg if fn.node.args.kwarg else None) and not pol:
                        return True
                return False
            if any(isinstance(c, ast.AST) and pol and N(c) == NS('len(functions) + len(filters) == 0') for c, pol in p.conds) or (_empty('functions') and _empty('filters')):
                hit += 1
                ctx.count(1, fn.where(p.node))
                v = p.value
                good = False
                if v is not None and N(v) == 'self.copy()':
                    good = True
                if isinstance(v, ast.Name):
                    last = [s for s in p.stmts if isinstance(s, ast.Assign) and U(s.targets[0]) == v.id]
                    good = bool(last) and N(last[-1].value) == 'self.copy()'
                if not good:
                    ctx.fail(fn, p.node, '%s() without any condition returns `%s`, expected a copy of the table' % (name, U(v) if v is not None else 'None'))
        if hit == 0:
            ctx.fail(fn, fn.node, '%s has no early return for the no-condition case' % fn.qual)
    fresh_result(ctx, ['_dictable:dictable.inc', '_dictable:dictable.exc'])


@obligation('C06.6', 'PATH + call graph', 'find_<col> accessor in dictable.__getattr__',
            'find_<col> returns the unique value of that column among the rows inc would select and raises if there is none or more than one',
            axioms=())
def c06_6(ctx):
    fn = ctx.repo.fn('_dictable:dictable.__getattr__')
    f = fn.inner('f')
    ctx.count(1, f.where())
    a = f.node.args
    fw = [c for c in calls_in(f.node, 'inc') if U(c.func.value) == 'self']
    if not fw or not (a.vararg and a.kwarg and any(isinstance(x, ast.Starred) and U(x.value) == a.vararg.arg for x in fw[0].args) and any(k.arg is None and U(k.value) == a.kwarg.arg for k in fw[0].keywords)):
        ctx.fail(f, f.node, 'find_ does not forward *args, **kwargs to self.inc')
    raises = [n for n in body_nodes(f.node) if isinstance(n, ast.Raise)]
    ctx.count(1)
    pm = parent_map(f.node)
    guards = [N(pm[r].test) for r in raises if isinstance(pm.get(r), ast.If)]
    if not any(g in (NS('len(items) == 0'), 'not len(items)') for g in guards):
        ctx.fail(f, f.node, 'find_ does not raise when no row is selected')
    if not any(g in (NS('len(item) > 1'), NS('len(item) >= 2'), NS('len(item) != 1')) for g in guards):
        ctx.fail(f, f.node, 'find_ does not raise when more than one distinct value is found')
    for r in raises:
        if 'ValueError' not in U(r.exc):
            ctx.fail(f, r, 'find_ raises %s, expected ValueError' % U(r.exc)[:40])
    rets = returns_of(f.node)
    ctx.count(1)
    if not rets or N(rets[-1].value) != 'item[0]':
        ctx.fail(f, rets[-1] if rets else f.node, 'find_ does not return the single value item[0]')
    col = single_assign(f, 'item')
    defs = [n.value for n in body_nodes(f.node) if isinstance(n, ast.Assign) and U(n.targets[0]) == 'item']
    if not defs or N(defs[0]) != 'items[key]':
        ctx.fail(f, f.node, 'find_ does not read the requested column of the selected rows')


@obligation('C06.7', 'MATCH (prefix removal)', 'find_<col> dispatch in dictable.__getattr__',
            'find_<col> addresses the column <col>: the column name is what follows the literal prefix `find_` (str.lstrip/strip take a CHARACTER SET, not a prefix, and eat leading f/i/n/d/_ of the column name itself)',
            axioms=('A1',))
def c06_7(ctx):
    fn = ctx.repo.fn('_dictable:dictable.__getattr__')
    br = [s for s in ast.walk(fn.node) if isinstance(s, ast.If) and N(s.test) == NS("attr.startswith('find_')")]
    ctx.need(br, 'find_ branch of __getattr__ not found')
    k = [s for s in br[0].body if isinstance(s, ast.Assign) and U(s.targets[0]) == 'key']
    ctx.count(1, fn.where(br[0]))
    if not k:
        ctx.fail(fn, br[0], 'the column name is no longer derived from the attribute name')
        return
    v = N(k[0].value)
    if v in ('attr[5:]', NS("attr[len('find_'):]"), NS("attr.removeprefix('find_')")):
        return
    if isinstance(k[0].value, ast.Call) and call_name(k[0].value) in ('lstrip', 'strip', 'rstrip'):
        ctx.fail(fn, k[0], '`%s` strips a set of characters, not the prefix: find_name looks for column "ame", find_id for ""' % U(k[0].value), witness="dictable(name=['a']).find_name()")
    elif isinstance(k[0].value, ast.Subscript) and isinstance(k[0].value.slice, ast.Slice) and const(k[0].value.slice.lower) not in (None, 5):
        ctx.fail(fn, k[0], 'the prefix `find_` has 5 characters, the column name is taken as `%s`' % U(k[0].value))
    elif isinstance(k[0].value, ast.Call) and call_name(k[0].value) == 'replace':
        ctx.fail(fn, k[0], '`%s` removes every occurrence of the prefix text, also inside the column name' % U(k[0].value))
    else:
        raise AnalysisError('unrecognised derivation of the column name: %s' % U(k[0].value))


@obligation('C06.8', 'TABLES (shared with C01.11)', '_dictable:dict_concat',
            'inc/exc with a callable rebuild the table from the surviving ROWS: records are transposed by dict_concat, whose one-record shortcut must wrap each cell as [value] (as_list(None) is [], which would turn a surviving row holding a None cell into an empty table and break the partition)',
            axioms=())
def c06_8(ctx):
    from . import C01 as _c01
    _c01.check_dict_concat(ctx)


@obligation('C06.9', 'TABLES (guards by truth table)', '_dictable:_row_check (the case split of exc)',
            'a filter value selects its case by WHAT IT IS - None, NaN, a regex, anything else a list of admissible values - never by truthiness: 0, 0.0, "" and [] are ordinary values (exc(a = 0) excludes the rows whose a is 0, not the rows whose a is None)',
            axioms=())
def c06_9(ctx):
    f = ctx.repo.fn('_dictable:_row_check')
    value = f.params[2]
    none_not_falsy(ctx, f, [value], 'a falsy filter value (0, 0.0, the empty string) is an ordinary value to match, not "no value"')
    expect_guards(ctx, f, [('%s is None' % value, 'return v is None', 'None selects the None cells'), ('is_nan(%s)' % value, 'return is_nan(v)', 'NaN selects the NaN cells')], where=f.body)
