"""C11 listby/unlist, groupby/ungroup and pivot/unpivot are lossless regroupings (structural necessary conditions)."""
import ast
from ..core import obligation, AnalysisError
from .common import *


@obligation('C11.1', 'PATH partition', '_dictable:dictable._listby run-length loop',
            'one row per run of equal keys and group sizes adding up to len(d): every row index enters exactly one group on every path, a closed group is recorded on key change and the last group is flushed after the loop',
            axioms=('A1',))
def c11_1(ctx):
    fn = ctx.repo.fn('_dictable:dictable._listby')
    loops = [s for s in fn.body if isinstance(s, ast.For)]
    ctx.need(len(loops) == 1, 'run-length loop of _listby not found')
    loop = loops[0]
    key, idx = [U(x) for x in loop.target.elts]
    for p in paths(loop.body, bound=256):
        if p.term in ('raise', 'return'):
            continue
        ctx.count(1, fn.where(loop))
        puts = 0
        closes = 0
        resets = 0
        for s in p.stmts:
            if isinstance(s, ast.Expr) and N(s.value) == 'row.append(%s)' % idx:
                puts += 1
            if isinstance(s, ast.Assign) and U(s.targets[0]) == 'row':
                if N(s.value) == '[%s]' % idx:
                    puts += 1
                    resets += 1
                else:
                    resets += 1
                    if N(s.value) == '[]':
                        puts += 0
            if isinstance(s, ast.Expr) and N(s.value) == 'res.append((prev, row))':
                closes += 1
        if puts != 1:
            ctx.fail(fn, loop, 'on the path [%s] the row index is put into a group %d times (must be exactly once): rows are %s' % (' & '.join(p.cond_texts()), puts, 'lost' if puts == 0 else 'duplicated'),
                     witness=p.cond_texts())
        if resets and not closes:
            ctx.fail(fn, loop, 'a new group is started without recording the finished one on the path [%s]' % ' & '.join(p.cond_texts()))
        if closes and not resets:
            ctx.fail(fn, loop, 'the finished group is recorded but the running group is not restarted on the path [%s]' % ' & '.join(p.cond_texts()))
        if not any(isinstance(s, ast.Assign) and U(s.targets[0]) == 'prev' and U(s.value) == key for s in p.stmts):
            ctx.fail(fn, loop, 'prev is not updated to the current key on the path [%s]' % ' & '.join(p.cond_texts()))
    # the "same run" test: the first row opens a run, later rows continue it iff their key equals the previous key
    runs = [s for s in loop.body if isinstance(s, ast.If)]
    ctx.count(1)
    if runs:
        same = None
        for form in ('len(row) == 0 or %s == prev' % key, 'len(row) == 0 or cmp(%s, prev) == 0' % key, 'len(row) == 0 or eq(%s, prev)' % key):
            ok, w = prop_equiv(runs[0].test, form)
            if ok:
                same = form
        if same is None:
            ctx.fail(fn, runs[0], 'a row continues the current run when `%s`, expected `len(row) == 0 or key == prev` (the first row opens a run; otherwise a bogus empty group is recorded or runs are merged)' % U(runs[0].test))
        elif not any(isinstance(x, ast.Expr) and N(x.value) == 'row.append(%s)' % idx for x in runs[0].body):
            ctx.fail(fn, runs[0], 'a row of the same run is not appended to it')
    init = {U(s.targets[0]): N(s.value) for s in fn.body if isinstance(s, ast.Assign) and s.lineno < loop.lineno}
    if init.get('res') != '[]' or init.get('row') != '[]':
        ctx.fail(fn, loop, 'the group list / running group do not start empty')
    after = fn.body[fn.body.index(loop) + 1:]
    ctx.count(1)
    if not any(isinstance(s, ast.Expr) and N(s.value) == 'res.append((prev, row))' for s in after):
        ctx.fail(fn, loop, 'the last group is not flushed after the loop: the rows of the largest key are lost')
    rets = returns_of(fn.node)
    if not rets or N(rets[-1].value) != 'zip(*res)':
        ctx.fail(fn, rets[-1] if rets else fn.node, '_listby does not return (keys, id lists) as zip(*res)')
    # the close must precede the restart
    for s in ast.walk(loop):
        if isinstance(s, ast.If):
            for test, body in if_chain(s):
                tx = [U(b) for b in body]
                if 'res.append((prev, row))' in tx and 'row = [%s]' % idx in tx and tx.index('res.append((prev, row))') > tx.index('row = [%s]' % idx):
                    ctx.fail(fn, s, 'the running group is restarted before the finished one is recorded')


@obligation('C11.2', 'MATCH', '_dictable:dictable._listby decoration',
            'within a key the original row order is kept: rows are sorted as (key, original position) pairs', axioms=('A1',))
def c11_2(ctx):
    fn = ctx.repo.fn('_dictable:dictable._listby')
    d = [s for s in fn.body if isinstance(s, ast.Assign) and isinstance(s.value, ast.Call) and call_name(s.value) == 'sort']
    ctx.count(1, fn.where())
    if not d or N(d[0].value) != 'sort(list(zip(keys, range(len(self)))))':
        ctx.fail(fn, d[0] if d else fn.node, 'rows are not ordered by sort(list(zip(keys, range(len(self))))): %s' % (U(d[0].value) if d else '?'))
    k = [s for s in fn.body if isinstance(s, ast.Assign) and U(s.targets[0]) == 'keys']
    ctx.count(1)
    if not k or N(k[0].value) != 'self[%s]' % fn.params[1]:
        ctx.fail(fn, k[0] if k else fn.node, 'grouping keys are not self[by]')
    loops = [s for s in fn.body if isinstance(s, ast.For)]
    if loops and d and U(loops[0].iter) != U(d[0].targets[0]):
        ctx.fail(fn, loops[0], 'the run-length loop does not iterate the sorted pairs')


def _gather(ctx, fn, ids_name):
    """columns gathered as [[self[k][i] for i in y] for y in ids] / {k: [self[k][i] for i in y] ...} for k not in by"""
    comps = [n for n in ast.walk(fn.node) if isinstance(n, ast.DictComp)]
    return comps


@obligation('C11.3', 'MATCH', '_dictable:dictable.listby, dictable.groupby',
            'every non-key column is gathered with the SAME id lists, the key table is built from the distinct keys, and groupby rejects zero/all keys',
            axioms=())
def c11_3(ctx):
    fn = ctx.repo.fn('_dictable:dictable.listby')
    lb = [s for s in fn.body if isinstance(s, ast.Assign) and isinstance(s.value, ast.Call) and call_name(s.value) == '_listby']
    ctx.count(1, fn.where())
    ctx.need(lb and isinstance(lb[0].targets[0], ast.Tuple), 'listby no longer groups through self._listby(by)')
    xs, ids = [U(x) for x in lb[0].targets[0].elts]
    rt = [s for s in fn.body if isinstance(s, ast.Assign) and U(s.targets[0]) == 'rtn']
    if not rt or N(rt[0].value) != 'type(self)(%s, by)' % xs:
        ctx.fail(fn, rt[0] if rt else fn.node, 'key table is not type(self)(%s, by)' % xs)
    up = [c for c in calls_in(fn.node, 'update') if U(c.func.value) == 'rtn']
    ctx.count(1)
    if not up or not isinstance(up[0].args[0], ast.DictComp):
        ctx.fail(fn, fn.node, 'non-key columns are no longer gathered into the result')
    else:
        dc = up[0].args[0]
        k = U(dc.generators[0].target)
        if N(dc.generators[0].iter) != 'self.keys()' or [N(i) for i in dc.generators[0].ifs] != [NS('%s not in by' % k)]:
            ctx.fail(fn, up[0], 'gathered columns are not exactly the non-key columns: for %s in %s if %s' % (k, U(dc.generators[0].iter), [U(i) for i in dc.generators[0].ifs]))
        if N(dc.value) != '[[self[%s][i] for i in y] for y in %s]' % (k, ids):
            ctx.fail(fn, up[0], 'cells are `%s`, expected the values of that column at the ids of each group, in id order' % U(dc.value))
    # trivial cases
    ctx.count(1)
    if not any(N(r.value) == 'self.copy()' for r in returns_of(fn.node)):
        ctx.fail(fn, fn.node, 'listby of an empty table no longer returns a copy')
    fn = ctx.repo.fn('_dictable:dictable.groupby')
    lb = [s for s in fn.body if isinstance(s, ast.Assign) and isinstance(s.value, ast.Call) and call_name(s.value) == '_listby']
    ctx.count(1, fn.where())
    ctx.need(lb and isinstance(lb[0].targets[0], ast.Tuple), 'groupby no longer groups through self._listby(by)')
    xs, ys = [U(x) for x in lb[0].targets[0].elts]
    g = [s for s in fn.body if isinstance(s, ast.Assign) and isinstance(s.targets[0], ast.Subscript) and U(s.targets[0].value) == 'rtn']
    if not g or not isinstance(g[0].value, ast.ListComp):
        ctx.fail(fn, fn.node, 'sub-tables are no longer stored in the grp column')
    else:
        lc = g[0].value
        if N(lc.generators[0].iter) != ys or N(lc.elt) != NS('type(self)({k: [self[k][i] for i in y] for k in self.keys() if k not in by})'):
            ctx.fail(fn, g[0], 'sub-table per group is `%s`' % U(lc.elt)[:120])
        if N(g[0].targets[0].slice) != 'grp':
            ctx.fail(fn, g[0], 'sub-tables are stored under %s, not the grp column' % U(g[0].targets[0].slice))
    raises = [n for n in body_nodes(fn.node) if isinstance(n, ast.Raise)]
    pm = parent_map(fn.node)
    tests = {N(pm[r].test) for r in raises if isinstance(pm.get(r), ast.If)}
    ctx.count(1)
    if NS('len(by) == 0') not in tests:
        ctx.fail(fn, fn.node, 'groupby on no keys is no longer rejected')
    if NS('len(by) == len(self.keys())') not in tests:
        ctx.fail(fn, fn.node, 'groupby on all keys is no longer rejected')


@obligation('C11.4', 'MATCH', '_dictable:dictable.xyz (pivot)',
            'every row puts its z value in the cell addressed by its x key and y value; cells without a row are None; aggregators are applied in order',
            axioms=())
def c11_4(ctx):
    fn = ctx.repo.fn('_dictable:dictable.xyz')
    grid = [s for s in fn.body if isinstance(s, ast.Assign) and U(s.targets[0]) == 'res']
    ctx.count(1, fn.where())
    if not grid or N(grid[0].value) not in ('[[None for _ in range(len(ys))] for _ in range(len(xs))]', '[[None] * len(ys) for _ in range(len(xs))]', '[[None] * len(ys) for _ in xs]', '[[None for _ in range(len(ys))] for _ in xs]'):   # a fresh row of Nones per x, either way
        ctx.fail(fn, grid[0] if grid else fn.node, 'pivot grid is not initialised with None for every (x, y) cell: %s' % (U(grid[0].value) if grid else '?'))
    st = [s for s in ast.walk(fn.node) if isinstance(s, ast.Assign) and N(s.targets[0]) == 'res[i][k]']
    ctx.count(1)
    if not st or U(st[0].value) != 'value':
        ctx.fail(fn, fn.node, 'cell (i, k) no longer receives the (aggregated) z values')
    defs = {U(s.targets[0]): N(s.value) for s in ast.walk(fn.node) if isinstance(s, ast.Assign) and isinstance(s.targets[0], ast.Name)}
    want = {'xy': 'xys[j]', 'k': 'y2id[xy[-1]]', 'value': None, 'zs': 'self[z]', 'xykeys': NS('x + as_tuple(y)'), 'y2id': 'dict(zip(ys[y_], range(len(ys))))'}
    alt = {'y2id': ('dict(zip(ys[y_], range(len(ys[y_]))))',)}        # ys[y_] is a column of the table ys: the same length
    for k, v in want.items():
        ctx.count(1)
        if v is not None and defs.get(k) != v and defs.get(k) not in alt.get(k, ()):
            ctx.fail(fn, fn.node, 'pivot: `%s` is `%s`, expected `%s`' % (k, defs.get(k), v))
    vals = [s for s in ast.walk(fn.node) if isinstance(s, ast.Assign) and U(s.targets[0]) == 'value']
    if not vals or N(vals[0].value) != '[zs[id_] for id_ in ids[j]]':
        ctx.fail(fn, vals[0] if vals else fn.node, 'z values of a cell are not those of the ids of its (x, y) group')
    agg = [s for s in ast.walk(fn.node) if isinstance(s, ast.For) and U(s.iter) == 'agg']
    if not agg or N(agg[0].body[0].value) != 'a(value)':
        ctx.fail(fn, fn.node, 'aggregators are no longer applied in order to the cell values')
    loops = [s for s in fn.body if isinstance(s, ast.For)]
    ctx.count(1)
    by_index = bool(loops) and N(loops[0].iter) == 'range(len(xs))' and any(isinstance(x, ast.For) and N(x.iter) == 'yids[i]' for x in loops[0].body)
    # xs, yids = rs._listby(x) are parallel lists: enumerating yids visits the same (i, yids[i]) pairs
    by_enum = bool(loops) and N(loops[0].iter) == 'enumerate(yids)' and isinstance(loops[0].target, ast.Tuple) and len(loops[0].target.elts) == 2 and U(loops[0].target.elts[0]) == 'i' \
        and any(isinstance(x, ast.For) and U(x.iter) == U(loops[0].target.elts[1]) for x in loops[0].body)
    if not (by_index or by_enum):
        ctx.fail(fn, loops[0] if loops else fn.node, 'pivot does not visit every (x, y) group of every x row')
    rr = returns_of(fn.node)
    upd = [c for c in calls_in(fn.node, 'update') if U(c.func.value) == 'dx']
    if not upd or U(upd[0].args[0]) != 'dy' or U(rr[-1].value) != 'dx':
        ctx.fail(fn, fn.node, 'pivot result is not the x table extended by the y columns')


@obligation('C11.5', 'MATCH', '_dictable:dictable.unlist, dictable.ungroup, dictable.unpivot',
            'the inverse operations rebuild one row per listed value / group member / (x, y) cell',
            axioms=())
def c11_5(ctx):
    # unlist / ungroup rebuild the table with dictable.concat: no table -> empty table, one table -> itself, otherwise the merge
    cc = ctx.repo.fn('_dictable:dictable.concat')
    expect_guards(ctx, cc, [('len(others) == 0', 'return cls()', 'nothing to concatenate'), ('len(others) == 1', 'return others[0]', 'a single group / a single listed row')], where=cc.body)
    fn = ctx.repo.fn('_dictable:dictable.unlist')
    ctx.count(1, fn.where())
    # every non-empty table goes through concat of its rows; only the EMPTY table may be returned as is
    for p in paths(fn.body):
        if p.term != 'return':
            continue
        v = p.value
        if isinstance(v, ast.IfExp):
            branches = [(v.test, True, v.body), (v.test, False, v.orelse)]
        else:
            branches = [(None, None, v)]
        for test, pol, e in branches:
            conds = [(c, po) for c, po in p.conds if isinstance(c, ast.AST)] + ([(test, pol)] if test is not None else [])
            if N(e) in ('self', 'self.copy()'):
                # allowed only under len(self) == 0
                ok = any((N(c) in ('len(self)',) and po is False) or (N(c) in (NS('len(self) == 0'), 'not len(self)') and po is True) for c, po in conds)
                if not ok:
                    ctx.fail(fn, p.node, 'unlist returns the table unchanged under the condition [%s]: a non-empty table with list cells (e.g. a single-key listby) is not expanded' % ' & '.join(('' if po else 'not ') + U(c) for c, po in conds),
                             witness="dictable(k=[1,1,1], v=[1,2,3]).listby('k').unlist() must have 3 rows")
            elif not (isinstance(e, ast.Call) and call_name(e) == 'concat' and N(e.args[0]) == '[row for row in self]'):
                ctx.fail(fn, p.node, 'unlist does not rebuild the table as concat of its rows: %s' % U(e))
    fn = ctx.repo.fn('_dictable:dictable.ungroup')
    ctx.count(1, fn.where())
    rr = returns_of(fn.node)
    if not rr or N(rr[-1].value) != 'self.concat([row.pop(grp)(**row.do(lambda v: [v])) for row in self])':
        ctx.fail(fn, rr[-1] if rr else fn.node, 'ungroup does not concatenate each sub-table extended by its key cells')
    fn = ctx.repo.fn('_dictable:dictable.unpivot')
    x = fn.params[1]
    ctx.count(1, fn.where())
    yc = [s for s in ast.walk(fn.node) if isinstance(s, ast.Assign) and U(s.targets[0]) == 'ycols']
    good = [s for s in yc if N(s.value) in (NS('self.keys() - %s' % x), NS('self.keys() - xcols'), 'as_tuple(ycols)')]
    bad = [s for s in yc if s not in good and U(s.targets[0]) == 'ycols' and not (isinstance(s.targets[0], ast.Tuple))]
    for s in bad:
        if isinstance(s.value, (ast.ListComp, ast.GeneratorExp)) or (isinstance(s.value, ast.Call) and s.value.args and isinstance(s.value.args[0], (ast.ListComp, ast.GeneratorExp))):
            comp = s.value if isinstance(s.value, (ast.ListComp, ast.GeneratorExp)) else s.value.args[0]
            cond = [N(i) for i in comp.generators[0].ifs]
            v = U(comp.generators[0].target)
            if cond == [NS('%s not in %s' % (v, x))]:
                ctx.fail(fn, s, '`%s not in %s` is a SUBSTRING test when %s is a single column name: y columns whose label is contained in that name are dropped' % (v, x, x),
                         witness="d.unpivot('name', 'y', 'z') with a column labelled 'a' or 'me'")
            elif cond != [NS('%s not in xcols' % v)]:
                ctx.fail(fn, s, 'y columns are selected with %s' % cond)
        else:
            ctx.fail(fn, s, 'y columns are `%s`, expected all columns other than the x columns' % U(s.value))
    ctx.count(1)
    defs = {U(s.targets[0]): N(s.value) for s in ast.walk(fn.node) if isinstance(s, ast.Assign)}
    if defs.get('n') != 'len(ycols)':
        ctx.fail(fn, fn.node, 'repeat count is not the number of y columns')
    if defs.get('res') != NS('type(self)({k: sum([[row[k]] * n for row in self], []) for k in xcols})'):
        ctx.fail(fn, fn.node, 'x cells are not repeated once per y column: %s' % defs.get('res'))
    if defs.get('res[y]') != NS('ycols * len(self)'):
        ctx.fail(fn, fn.node, 'y labels do not cycle through the y columns once per row: %s' % defs.get('res[y]'))
    if defs.get('res[z]') != NS('sum([[row[ycol] for ycol in ycols] for row in self], [])'):
        ctx.fail(fn, fn.node, 'z cells are not read row by row in y-column order: %s' % defs.get('res[z]'))


@obligation('C11.6', 'PROP guards + MATCH argument roles', 'dictable.listby, dictable.groupby, dictable.xyz, dictable.unpivot',
            'trivial cases and argument roles of the regroupings: an empty table is returned as a copy, no key means all columns, tables are built as (values, column names) in that order',
            axioms=())
def c11_6(ctx):
    r = ctx.repo
    f = r.fn('_dictable:dictable.listby')
    expect_guards(ctx, f, [('len(self) == 0', 'return self.copy()', 'an empty table has nothing to regroup'),
                           ('len(by) == 0', 'by = self.keys()', 'no key given means all columns'),
                           ('len(by) == 0', 'return type(self)({key: [value] for key, value in dict(self).items()})', 'a table without columns')], where=f.body)
    ctx.count(1)
    if not any(isinstance(s, ast.Assign) and U(s.targets[0]) == 'by' and N(s.value) == 'as_tuple(by)' for s in f.body):
        ctx.fail(f, f.node, 'the key columns are not normalised with as_tuple (self[by] must be a list of key TUPLES)')
    for h in (f, r.fn('_dictable:dictable.groupby')):
        ctx.count(1, h.where())
        norm = [s for s in body_nodes(h.node) if isinstance(s, ast.Assign) and U(s.targets[0]) == 'by' and N(s.value) == 'as_tuple(by)']
        if norm:
            for s in body_nodes(h.node):        # TYPESTATE: once a tuple of column names, always a tuple (`k not in by`, type(self)(xs, by), self[by] rely on it)
                if isinstance(s, (ast.Assign, ast.AugAssign)) and 'by' in [U(t) for t in (s.targets if isinstance(s, ast.Assign) else [s.target])] and s.lineno > norm[-1].lineno \
                        and not (isinstance(s, ast.Assign) and isinstance(s.value, ast.Call) and call_name(s.value) == 'as_tuple'):
                    ctx.fail(h, s, 'the key columns are rebound after as_tuple (`%s`): with a bare string `k not in by` becomes a SUBSTRING test and columns whose name is part of the key name are dropped' % U(s)[:60],
                             witness="dictable(key=[1], k=[2]).listby('key') loses column k")
    g = r.fn('_dictable:dictable.groupby')
    expect_guards(ctx, g, [('len(self) == 0', 'return self.copy()', 'an empty table has nothing to group'),
                           ('len(by) == 0', 'by = self.keys()', 'no key given means all columns')], where=g.body)
    ctx.count(1)
    if not any(isinstance(s, ast.Assign) and U(s.targets[0]) == 'by' and N(s.value) == 'as_tuple(by)' for s in g.body):
        ctx.fail(g, g.node, 'the key columns are not normalised with as_tuple')
    rt = [s for s in g.body if isinstance(s, ast.Assign) and U(s.targets[0]) == 'rtn']
    if not rt or N(rt[0].value) != 'type(self)(xs, by)':
        ctx.fail(g, rt[0] if rt else g.node, 'the key table of groupby is `%s`, expected type(self)(xs, by): rows first, column names second' % (U(rt[0].value) if rt else '?'))
    x = r.fn('_dictable:dictable.xyz')
    ctx.count(1, x.where())
    defs = {U(s.targets[0]): N(s.value) for s in x.body if isinstance(s, ast.Assign) and isinstance(s.targets[0], ast.Name)}
    want = {'agg': 'as_list(agg)', 'x': 'as_tuple(x)', 'rs': NS('type(self)(xys, x + (y_,))'), 'dx': 'type(self)(xs, x)', 'dy': 'type(self)(res, list(y2id.keys()))',
            'ys': 'rs[as_list(y_)].listby(y_)', 'y_': NS("y if is_str(y) else '_columns'")}
    for k, w in want.items():
        if defs.get(k) != w:
            ctx.fail(x, x.node, 'pivot: `%s = %s`, expected `%s`' % (k, defs.get(k), w), stmt='xyz %s' % k)
    expect_guards(ctx, x, [('not is_strs(x)', "raise ValueError('x must be columns %s' % x)", 'x must name columns')], where=x.body)
    lb = [s for s in x.body if isinstance(s, ast.Assign) and isinstance(s.targets[0], ast.Tuple) and isinstance(s.value, ast.Call) and call_name(s.value) == '_listby']
    if [ (N(s.targets[0]), N(s.value)) for s in lb] != [('(xys, ids)', 'self._listby(xykeys)'), ('(xs, yids)', 'rs._listby(x)')]:
        ctx.fail(x, x.node, 'pivot does not group first by (x, y) on the table and then by x on the (x, y) table')
    u = r.fn('_dictable:dictable.unpivot')
    ctx.count(1, u.where())
    yd = [s for s in u.body if isinstance(s, ast.If) and 'isinstance(y, dict)' in U(s.test)]
    if yd:
        ok, w = prop_equiv(yd[0].test, 'isinstance(y, dict) and len(y) == 1')
        if not ok or N(yd[0].body[0].value) != 'list(y.items())[0]' or N(yd[0].body[0].targets[0]) != '(y, ycols)':
            ctx.fail(u, yd[0], 'the {label: columns} spelling of y is handled as `if %s: %s`' % (U(yd[0].test), U(yd[0].body[0])), witness=w)
    if not any(isinstance(s, ast.Assign) and U(s.targets[0]) == 'ycols' and N(s.value) == 'as_tuple(ycols)' for s in u.body):
        ctx.fail(u, u.node, 'the y columns are not normalised with as_tuple (ycols * len(self) must repeat a tuple)')
    if not any(isinstance(s, ast.Assign) and U(s.targets[0]) == 'xcols' and N(s.value) == 'as_list(x)' for s in u.body):
        ctx.fail(u, u.node, 'the x columns are not as_list(x)')


@obligation('C11.7', 'MATCH argument roles', '_dict:Dict.do (used by dictable.ungroup to wrap the key cells)',
            'ungroup extends every sub-table by its key cells with row.do(lambda v: [v]): do calls f(value, **other entries named by f\'s FURTHER parameters) - the first parameter is the value itself and must not also be looked up by name among the keys (a key column called like it would be passed twice)',
            axioms=())
def c11_7(ctx):
    f = ctx.repo.fn('_dict:Dict.do')
    ctx.count(1, f.where())
    comp = [d for d in ast.walk(f.node) if isinstance(d, ast.DictComp) and N(d.generators[0].iter) == 'res.items()']
    if not comp:
        ctx.fail(f, f.node, 'Dict.do no longer passes the other entries by name')
        return
    g = comp[0].generators[0]
    k = U(g.target.elts[0]) if isinstance(g.target, ast.Tuple) else '?'
    if len(g.ifs) != 1 or N(g.ifs[0]) != NS('%s in args[1:]' % k):
        ctx.fail(f, comp[0], 'entries are passed by name when `%s`, expected `%s in args[1:]` (every parameter of f but the first, which receives the value)' % (U(g.ifs[0]) if g.ifs else 'always', k),
                 witness="dictable(v=[1, 1], x=[2, 3]).groupby('v').ungroup()")
    calls = [c_ for c_ in ast.walk(f.node) if isinstance(c_, ast.Call) and any(kw_.arg is None and kw_.value is comp[0] for kw_ in c_.keywords)]
    if not calls or [U(a) for a in calls[0].args] != ['res[key]']:
        ctx.fail(f, comp[0], 'the function is not applied to the current value res[key] first')
