"""Def-use webs of the local variables of one function (reaching definitions over the structured AST + union-find).

A local name that is assigned twice for two unrelated purposes (`keys = a[0]` in one branch, `keys = reduce(...)` in another) is two
variables that happen to share a spelling; a refactoring may give them two names, or give two variables one name. split(fn) renames every
web but the first of each name to `name\\x01k`, so that the alpha-comparison of sa/normal.py is insensitive to such splitting/merging;
merge(fn) removes the marks again. Both are renamings of whole webs, hence behaviour-preserving."""
import ast

MARK = '\x01'
_SCOPE = (ast.Lambda, ast.FunctionDef, ast.AsyncFunctionDef)
_COMP = (ast.ListComp, ast.SetComp, ast.DictComp, ast.GeneratorExp)


class _UF:
    def __init__(self):
        self.p = {}

    def find(self, x):
        self.p.setdefault(x, x)
        while self.p[x] != x:
            self.p[x] = self.p[self.p[x]]
            x = self.p[x]
        return x

    def union(self, a, b):
        ra, rb = self.find(a), self.find(b)
        if ra != rb:
            self.p[max(ra, rb)] = min(ra, rb)


def _merge(a, b):
    if a is None:
        return b
    if b is None:
        return a
    out = dict(a)
    for k, v in b.items():
        out[k] = out.get(k, frozenset()) | v
    return out


class Webs:
    def __init__(self, fn, local):
        self.fn, self.local = fn, set(local)
        self.uf = _UF()
        self.defs = []          # def id -> (name, [Name/arg nodes])
        self.site = {}          # id(node) -> def id, for definition sites (stable across fixpoint passes)
        self.uses = []          # (node, frozenset of def ids)
        self.deferred = set()   # names read inside lambdas / nested defs: never split

    # -- definitions and uses
    def new_def(self, name, node):
        k = self.site.get(id(node))
        if k is None:
            k = len(self.defs)
            self.defs.append((name, node))
            self.site[id(node)] = k
            self.uf.find(k)
        return k

    def define(self, st, t):
        if isinstance(t, ast.Name):
            if t.id in self.local:
                st[t.id] = frozenset([self.new_def(t.id, t)])
        elif isinstance(t, (ast.Tuple, ast.List)):
            for e in t.elts:
                self.define(st, e.value if isinstance(e, ast.Starred) else e)
        elif isinstance(t, (ast.Attribute, ast.Subscript, ast.Starred)):
            self.expr(st, t.value)
            if isinstance(t, ast.Subscript):
                self.expr(st, t.slice)

    def use(self, st, n):
        if n.id in self.local:
            r = st.get(n.id, frozenset())
            self.uses.append((n, r))
            r = sorted(r)
            for a in r[1:]:
                self.uf.union(r[0], a)

    def expr(self, st, e):
        if e is None:
            return
        if isinstance(e, ast.Name):
            if isinstance(e.ctx, ast.Load):
                self.use(st, e)
            return
        if isinstance(e, _SCOPE):
            self._defer(e)
            return
        if isinstance(e, _COMP):
            inner = dict(st)
            own = set()
            for g in e.generators:
                self.expr(inner, g.iter)
                for n in ast.walk(g.target):
                    if isinstance(n, ast.Name):
                        own.add(n.id)
                        inner.pop(n.id, None)
                for c in g.ifs:
                    self._expr_excluding(inner, c, own)
            for f in ('elt', 'key', 'value'):
                if hasattr(e, f):
                    self._expr_excluding(inner, getattr(e, f), own)
            return
        if isinstance(e, ast.NamedExpr):
            self.expr(st, e.value)
            self.define(st, e.target)
            return
        for c in ast.iter_child_nodes(e):
            if isinstance(c, ast.expr):
                self.expr(st, c)
            elif isinstance(c, ast.keyword):
                self.expr(st, c.value)

    def _defer(self, scope):
        """names of the enclosing function read (later) inside a lambda / nested def: their webs are never split"""
        from .normal import _bound
        own = set(_bound(scope))
        for n in ast.walk(scope):
            if isinstance(n, ast.Name) and n.id in self.local and n.id not in own:
                self.deferred.add(n.id)

    def _expr_excluding(self, st, e, own):
        saved = self.local
        self.local = self.local - own          # comprehension variables are a scope of their own
        try:
            self.expr(st, e)
        finally:
            self.local = saved

    # -- statements; returns the state after the block (None when it cannot fall through)
    def block(self, stmts, st, loop=None):
        for s in stmts:
            if st is None:
                st = {}                      # unreachable code still gets (empty) reaching sets
            st = self.stmt(s, st, loop)
        return st

    def stmt(self, s, st, loop):
        if isinstance(s, ast.Assign):
            self.expr(st, s.value)
            st = dict(st)
            for t in s.targets:
                self.define(st, t)
            return st
        if isinstance(s, ast.AugAssign):
            self.expr(st, s.value)
            st = dict(st)
            if isinstance(s.target, ast.Name) and s.target.id in self.local:
                r = sorted(st.get(s.target.id, frozenset()))
                k = self.new_def(s.target.id, s.target)
                for a in r:
                    self.uf.union(k, a)
                st[s.target.id] = frozenset([k])
            else:
                self.define(st, s.target)
            return st
        if isinstance(s, ast.AnnAssign):
            self.expr(st, s.value)
            st = dict(st)
            if s.value is not None:
                self.define(st, s.target)
            return st
        if isinstance(s, (ast.Expr, ast.Return)):
            self.expr(st, s.value)
            return None if isinstance(s, ast.Return) else st
        if isinstance(s, ast.Raise):
            self.expr(st, s.exc)
            self.expr(st, s.cause)
            return None
        if isinstance(s, ast.If):
            self.expr(st, s.test)
            a = self.block(s.body, dict(st), loop)
            b = self.block(s.orelse, dict(st), loop) if s.orelse else st
            return _merge(a, b)
        if isinstance(s, (ast.For, ast.AsyncFor, ast.While)):
            if isinstance(s, ast.While):
                head = dict(st)
            else:
                self.expr(st, s.iter)
                head = dict(st)
            exits = None
            for _ in range(6):
                ctl = dict(brk=None, cont=None)
                cur = dict(head)
                if isinstance(s, ast.While):
                    self.expr(cur, s.test)
                else:
                    self.define(cur, s.target)
                after_test = dict(head) if not isinstance(s, ast.While) else dict(cur)
                end = self.block(s.body, cur, ctl)
                back = _merge(end, ctl['cont'])
                new_head = _merge(head, back)
                exits = _merge(after_test if not (isinstance(s, ast.While) and isinstance(s.test, ast.Constant) and s.test.value) else None, ctl['brk'])
                if not isinstance(s, ast.While):
                    exits = _merge(exits, back)      # the loop variable and body definitions survive the loop
                if new_head == head:
                    break
                head = new_head
            if s.orelse:
                exits = _merge(self.block(s.orelse, dict(exits or {}), loop), ctl['brk'])
            return exits
        if isinstance(s, ast.Break):
            if loop is not None:
                loop['brk'] = _merge(loop['brk'], st)
            return None
        if isinstance(s, ast.Continue):
            if loop is not None:
                loop['cont'] = _merge(loop['cont'], st)
            return None
        if isinstance(s, (ast.With, ast.AsyncWith)):
            st = dict(st)
            for i in s.items:
                self.expr(st, i.context_expr)
                if i.optional_vars is not None:
                    self.define(st, i.optional_vars)
            return self.block(s.body, st, loop)
        if isinstance(s, ast.Try):
            acc = dict(st)
            cur = dict(st)
            for b in s.body:
                nxt = self.stmt(b, cur, loop)
                acc = _merge(acc, nxt)
                cur = nxt if nxt is not None else {}
                if nxt is None:
                    break
            body_end = nxt if s.body else cur
            outs = []
            if body_end is not None:
                outs.append(self.block(s.orelse, dict(body_end), loop) if s.orelse else body_end)
            for h in s.handlers:
                hs = dict(acc)
                self.expr(hs, h.type)
                if h.name and h.name in self.local:
                    hs[h.name] = frozenset([self.new_def(h.name, h)])
                outs.append(self.block(h.body, hs, loop))
            out = None
            for o in outs:
                out = _merge(out, o)
            if s.finalbody:
                out = self.block(s.finalbody, dict(_merge(out, acc) or {}), loop) if out is not None else (self.block(s.finalbody, dict(acc), loop) and None)
            return out
        if isinstance(s, (ast.FunctionDef, ast.AsyncFunctionDef)):
            self._defer(s)
            st = dict(st)
            if s.name in self.local:
                st[s.name] = frozenset([self.new_def(s.name, s)])
            return st
        if isinstance(s, (ast.Import, ast.ImportFrom)):
            st = dict(st)
            for a in s.names:
                nm = (a.asname or a.name).split('.')[0]
                if nm in self.local:
                    st[nm] = frozenset([self.new_def(nm, a)])
            return st
        if isinstance(s, ast.Delete):
            for t in s.targets:
                if isinstance(t, ast.Name):
                    self.deferred.add(t.id)
                else:
                    self.expr(st, t)
            return st
        if isinstance(s, ast.Assert):
            self.expr(st, s.test)
            self.expr(st, s.msg)
            return st
        for c in ast.iter_child_nodes(s):       # pass, global, nonlocal, match ...: treat conservatively
            if isinstance(c, ast.expr):
                self.expr(st, c)
        return st

    def run(self):
        st = {}
        a = self.fn.args
        for x in a.posonlyargs + a.args + a.kwonlyargs + [y for y in (a.vararg, a.kwarg) if y]:
            if x.arg in self.local:
                st[x.arg] = frozenset([self.new_def(x.arg, x)])
        body = self.fn.body
        self.block(body, st)
        return self


def split(fn, local):
    """rename the 2nd, 3rd ... web of every local name to name\\x01k; returns the number of names split"""
    try:
        w = Webs(fn, local).run()
    except RecursionError:
        return 0
    groups = {}
    for k, (name, node) in enumerate(w.defs):
        groups.setdefault(name, {}).setdefault(w.uf.find(k), []).append(k)
    rename_def, n_split = {}, 0
    for name, webs in groups.items():
        if len(webs) < 2 or name in w.deferred:
            continue
        n_split += 1
        for idx, root in enumerate(sorted(webs)):
            if idx:
                for k in webs[root]:
                    rename_def[k] = '%s%s%d' % (name, MARK, idx)
    if not rename_def:
        return 0
    for n, reach in w.uses:
        for k in reach:
            if k in rename_def:
                n.id = rename_def[k]
                break
    for k, new in rename_def.items():
        node = w.defs[k][1]
        if isinstance(node, ast.Name):
            node.id = new
        elif isinstance(node, ast.arg):
            node.arg = new
        elif isinstance(node, (ast.ExceptHandler, ast.FunctionDef, ast.AsyncFunctionDef)):
            node.name = new
        elif isinstance(node, ast.alias):
            node.asname = new
    return n_split


def merge(fn):
    for n in ast.walk(fn):
        if isinstance(n, ast.Name) and MARK in n.id:
            n.id = n.id.split(MARK)[0]
        elif isinstance(n, ast.arg) and MARK in n.arg:
            n.arg = n.arg.split(MARK)[0]
        elif isinstance(n, (ast.ExceptHandler, ast.FunctionDef, ast.AsyncFunctionDef)) and n.name and MARK in n.name:
            n.name = n.name.split(MARK)[0]
        elif isinstance(n, ast.alias) and n.asname and MARK in n.asname:
            n.asname = n.asname.split(MARK)[0]
