"""CLI:  run.py Cxx [--tier quick|thorough]   |   run.py --replay <file>   |   run.py --all
Exit 0: every obligation discharged (or only KNOWN-FINDINGs); exit 1 + `VIOLATION property=<id> replay=<path>`;
exit 2 + `ANALYSIS-ERROR ...` when the checker cannot see its subject (never a VIOLATION line in that case)."""
import sys, os, json, time, importlib, argparse

if os.environ.get('PYTHONHASHSEED') != '0' and __name__ == '__main__':
    # the same source must get the same verdict on every run: no dependence on the iteration order of sets of strings
    os.environ['PYTHONHASHSEED'] = '0'
    os.execv(sys.executable, [sys.executable] + [a for a in sys.orig_argv[1:]])

sys.path.insert(0, os.path.dirname(os.path.dirname(os.path.abspath(__file__))))
from sa import core
from sa.core import Repo, Ob, run_obligation, DISCHARGED, VIOLATION, KNOWN, ERROR, AnalysisError, VERIF

LEVEL_EXPLANATION = ('Static analysis of /repo/src/pyg_base (ast, no execution). Each obligation is a rule instance on a resolved '
                     'construct and a necessary condition of the property: DISCHARGED means the construct satisfies the rule on every '
                     'path the analysis covers. The behavioural remainder (values computed by pandas/numpy/dateutil, equality with a '
                     'reference model) is not decided; see DESIGN.md section 5 for the per-property list.')


def load_rules(prop):
    try:
        importlib.import_module('sa.rules.%s' % prop)
    except ModuleNotFoundError as e:
        if 'sa.rules' in str(e):
            raise AnalysisError('no rule module for %s' % prop)
        raise
    obs = Ob.registry.get(prop, [])
    if not obs:
        raise AnalysisError('rule module for %s defines no obligations' % prop)
    return obs


import ast


def defuse_obligation(prop, touched):
    """generic obligation added to every property: the functions its rules anchor on contain no read of a possibly-unassigned local"""
    from sa import flow

    def body(ctx):
        n = 0
        for key in touched:
            node = ctx.repo.funcs.get(key)
            if node is None:
                continue
            f = core.Fn(ctx.repo, key[0], key[1], key[2], node)
            n += 1
            ctx.count(1, f.construct)
            pm = None
            mnames = set(ctx.repo.mod_assign[key[0]]) | set(ctx.repo.imports[key[0]]) | set(ctx.repo.ext_imports[key[0]]) | \
                {k[2] for k in ctx.repo.funcs if k[0] == key[0] and k[1] is None} | {c for c, (m, _) in ctx.repo.classes.items() if m == key[0]}
            tree = ctx.repo.trees[key[0]]
            star = any(isinstance(x, ast.ImportFrom) and any(a.name == '*' for a in x.names) for x in tree.body)
            for x in ast.walk(tree):
                if isinstance(x, (ast.For, ast.With)) and x in tree.body:
                    pass
            for nd, nm in flow.possibly_undefined(node, None if star else mnames):
                if pm is None:
                    from sa.au import parent_map, enclosing_stmt
                    pm = parent_map(node)
                ctx.fail(f, enclosing_stmt(pm, nd), 'local `%s` may be read before it is assigned (NameError / UnboundLocalError on that path): a definition it relied on was removed or moved into a branch' % nm, stmt='%s reads %s' % (f.qual, nm))
        ctx.fact('functions', n)
    return Ob(prop + '.U', 'DEF-USE integrity', 'every function the obligations of %s anchor on' % prop,
              'the anchored operations must not raise NameError/UnboundLocalError on any path: every local is assigned on all paths before it is read (must-assigned forward analysis; loop bodies may run zero times)', body)


def call_closure(repo, keys, depth=None):
    """functions reachable from the given (mod, cls, name) keys through calls resolved by imports / self / super / class names
    (at most `depth` calls away when given)"""
    seen, todo = set(), []
    dist = {}
    for k in keys:
        node = repo.funcs.get(k)
        if node is not None and k not in seen:
            seen.add(k)
            dist[k] = 0
            todo.append(core.Fn(repo, k[0], k[1], k[2], node))
    while todo:
        f = todo.pop(0)
        if depth is not None and dist[(f.mod, f.cls, f.name)] >= depth:
            continue
        gs = [g for _, g in repo.callees(f, by_name=False)]
        # functions / classes handed on as values (sorted(key=Cmp), reduce(f, ...)) are referenced too
        for n in ast.walk(f.node):
            if isinstance(n, ast.Name) and isinstance(n.ctx, ast.Load):
                r = repo.resolve_name(f.mod, n.id)
                if isinstance(r, core.Fn):
                    gs.append(r)
                elif isinstance(r, tuple) and r[0] == 'class':
                    for (m2, c2, n2), node2 in repo.funcs.items():
                        if c2 == r[1] and n2 in ('__init__', '__call__', '__lt__', '__gt__', '__eq__', 'cmp', 'wrapped') and not (
                                isinstance(n, ast.Name) and f.cls == r[1]):      # (super(C, self) inside C is not a use of C's protocol)
                            gs.append(core.Fn(repo, m2, c2, n2, node2))
        for g in gs:
            k = (g.mod, g.cls, g.name)
            if g.outer is None and k not in seen and k in repo.funcs:
                seen.add(k)
                dist[k] = dist[(f.mod, f.cls, f.name)] + 1
                todo.append(g)
    return seen


# Obligations of another property that are ALSO necessary conditions of this one, because this property's statement rests on the
# behaviour they pin down (confirmed by reading the call paths; one line of reason each). Deliberately a hand-confirmed table and not
# the call-graph closure: "P's code reaches helper H" does not make every clause about H a clause of P.
SHARE = {
    'C01': [('C06.2', 'inc/exc are table operations of the statement (masking / filtering returns a new rectangular table)'),
            ('C06.9', 'keyword criteria of inc/exc select rows by the value given, whatever its truth value'),
            ('C06.4', 'a filter that leaves no row still returns a table with all its columns'),
            ('C18.3', 'derived columns, do() and callable filters are evaluated row by row with the cells their parameters name: positional AND keyword-only (getargs)'),
            ('C06.1', 'successive filters of inc() each look at the rows that are left: the mask is built from the filtered table')],
    'C15': [('C16.9', 'tree_get / tree_getitem / _tree_setitem walk a key path with a cursor: the next key is looked for in the branch reached so far')],
    'C02': [('C07.2', 'the merge walks the keys with cmp: it must be antisymmetric'), ('C07.3', 'int/float and NaN keys are equal under cmp'),
            ('C07.10', 'keys are compared after as_primitive'), ('C07.11', 'identical unorderable keys (None) are equal')],
    'C03': [('C19.3', 'nested list/dict arguments are aligned member by member by the loop lifting'), ('C12.4', 'the as-of reindex first drops, with _nona, exactly the rows that are missing in every column')],
    'C06': [('C18.3', 'a callable filter receives exactly the columns it names (kwargs_support)')],
    'C07': [('C18.3', 'dictable.sort with a key FUNCTION calls it with the columns it names (kwargs_support / getargs)')],
    'C08': [('C03.1', 'operators act on ALIGNED operands: the join policies'), ('C03.2', 'as-of fill'), ('C03.3', 'array alignment'), ('C03.7', 'every operand enters the common index'),
            ('C03.8', 'missing columns are NaN, not a number'), ('C03.9', 'nested operands are found'), ('C03.10', 'the call-time policies override the decorator defaults axis by axis')],
    # (C10 is NOT given the dt_bump obligations of C09: its statement defines the expected list BY iterating dt_bump, so a defect of dt_bump is not a defect of drange)
    'C11': [('C07.2', 'groups are runs of cmp-equal keys in cmp order'), ('C07.8', 'multi-column keys compare lexicographically: equal keys end up adjacent'), ('C07.3', 'numeric / NaN keys'), ('C07.9', 'string keys rank like native order'), ('C07.10', 'numpy scalars as keys'),
            ('C07.11', 'None keys'), ('C01.8', 'unlist / ungroup rebuild the table with dictable.concat: fresh column lists, operands untouched'),
            ('C16.4', 'unpivot removes the x columns with ulist difference: a column NAME is removed as an element')],
    'C09': [('C04.2', 'month / quarter / year tenors are _ymd(t.year, t.month + n, t.day): month overflow by ym, day overflow by calendar arithmetic')],
    'C13': [('C04.7', 'numpy datetime64 bounds are converted by np2dt without losing resolution')],
    # (C12 is not given the df_slice obligations: its statement speaks of the 'nona' METHOD, which does not go through the edge slicing of _nona)
    'C16': [('C15.1', 'd + other is tree_update: neither operand modified'), ('C15.2', 'the merge walks tree_items: only exact dict / Dict / dictattr values are branches, anything else is a leaf kept as it is'), ('C15.3', 'override semantics of the merge'), ('C15.4', 'the merged mapping keeps the class of the left operand, also when that is empty'), ('C18.8', 'Dict.__call__ binds arguments by name'), ('C18.3', 'the names a callable takes from the mapping are getargs(f): positional AND keyword-only parameters')],
    'C20': [('C02.1', 'perdictable joins its inputs with dictable.join'), ('C02.4', 'cross product of equal keys'), ('C02.5', 'anti-join for the defaulted side'), ('C02.6', 'mode / key columns'),
            ('C02.9', 'key columns of the joined table'), ('C02.8', 'two key columns are compared lexicographically by cmparr')],
}


def shared_obligations(prop, repo, touched, own_ids):
    out = []
    for oid, reason in SHARE.get(prop, []):
        q = oid.split('.')[0]
        for ob in load_rules(q):
            if ob.oid == oid:
                sh = Ob(ob.oid, ob.rule + ' [shared]', ob.anchor, 'shared from %s: %s. ' % (q, reason) + ob.why, ob.func, ob.axioms)
                sh.oid = '%s~%s' % (prop, ob.oid)
                sh.base_oid = ob.oid
                sh.prop = q
                out.append(sh)
    return out


def exits_obligation(prop, closure=()):
    from sa.rules import exits
    return Ob(prop + '.X', 'EXITS (closed set of exits vs reference snapshot)', ', '.join(exits.DISPATCHERS[prop])[:160],
              'the functions that decide this property by case analysis return only expressions of the kinds confirmed on the reference tree (name-blind, after normalisation); a new exit - typically a fast path in front of the real computation - is covered by none of the other obligations',
              lambda ctx: exits.check_exits(ctx, prop, closure))


def check(prop, tier='quick', repo=None, only=None, quiet=False, write=True):
    t0 = time.time()
    seed = int(os.environ.get('VERIF_SEED', '0') or 0)
    out = []
    say = (lambda *a: None) if quiet else (lambda *a: out.append(' '.join(str(x) for x in a)))
    try:
        repo = repo or Repo()
        obs = load_rules(prop)
    except AnalysisError as e:
        print('ANALYSIS-ERROR property=%s %s' % (prop, e))
        if write:
            write_evidence(prop, tier, seed, [], None, time.time() - t0, errors=1, note=str(e))
        return 2, []
    known = core.load_known()
    results = []
    repo.touched = []
    for ob in obs:
        if only and ob.oid not in only:
            continue
        results.append(run_obligation(ob, repo, tier, known))
    own_touched = list(repo.touched)
    if not only:
        for ob in shared_obligations(prop, repo, own_touched, {o.oid for o in obs}):
            results.append(run_obligation(ob, repo, tier, known))
    repo.touched = own_touched
    if not only or (prop + '.X') in only:
        results.append(run_obligation(exits_obligation(prop, sorted(call_closure(repo, own_touched, depth=1), key=str)), repo, tier, known))
    if os.environ.get('VERIF_HELPERS') == '1' and (not only or (prop + '.H') in only):      # tried: +1 of 30 unseen changes, +14 of 240 false alarms - not adopted
        from sa.rules import exits as _ex
        cl = sorted(call_closure(repo, own_touched, depth=1), key=str)
        results.append(run_obligation(Ob(prop + '.H', 'HELPERS (uncovered callees unchanged modulo normalisation)', 'functions one call away from the anchored code of %s that no obligation covers' % prop,
                                         'the property is only as right as the helpers its functions call; a helper no rule looks at must still be its confirmed version up to behaviour-preserving rewrites',
                                         lambda ctx: _ex.check_helpers(ctx, prop, cl)), repo, tier, known))
    if not only or (prop + '.U') in only:
        results.append(run_obligation(defuse_obligation(prop, list(repo.touched)), repo, tier, known))
    st = repo.stats()
    say('== %s tier=%s  analysed: %d modules, %d functions, %d classes; %d obligations' % (prop, tier, st['modules'], st['functions'], st['classes'], len(results)))
    nviol = nerr = nknown = 0
    lines = []
    for r in results:
        ob = r['ob']
        say('  %-7s %-14s %-10s %s  [%d evaluations]' % (ob.oid, r['status'], ob.rule[:10], ob.anchor[:70], r['evals']))
        if r['status'] == ERROR:
            nerr += 1
            lines.append('ANALYSIS-ERROR property=%s obligation=%s %s' % (prop, ob.oid, r['error']))
        for f in r['findings']:
            loc = f.fn.where(f.node) if f.fn else '?'
            if f.status == KNOWN:
                nknown += 1
                lines.append('KNOWN-FINDING: property=%s %s %s `%s`: %s' % (prop, ob.oid, f.fn.construct, f.statement[:100], f.known.get('what', f.msg)))
            else:
                nviol += 1
                p = core.write_replay(prop, r, f) if write else '-'
                say('     rule %s (%s) at %s in %s: %s' % (ob.oid, ob.rule, loc, f.fn.construct if f.fn else '?', f.msg))
                say('       statement: %s' % f.statement[:160])
                if f.witness:
                    say('       witness:   %s' % (str(f.witness)[:300]))
                say('       why it matters: %s' % ob.why)
                lines.append('VIOLATION property=%s replay=%s' % (prop, os.path.relpath(p, VERIF) if write else '-'))
    selfcheck = None
    if tier == 'thorough':
        from sa import selfcheck as sc
        selfcheck = sc.run(prop, say)
        try:
            from sa import mutate
            gm = mutate.run(prop, say, limit=int(os.environ.get('VERIF_GENERIC_MUTANTS', '400')))
            selfcheck['generic'] = dict(generated=gm['generic_mutants'], reported=gm['generic_detected'], analysis_errors=gm['generic_errors'],
                                        survived=len(gm['survivors']), by_kind=gm['by_kind'], survivors_sample=gm['survivors'][:40])
        except Exception as e:   # exploration only: never affects the verdict
            say('  generic mutant exploration skipped: %s' % e)
        if selfcheck.get('failed'):
            nerr += 1
            lines.append('ANALYSIS-ERROR property=%s self-validation failed: %s' % (prop, selfcheck['failed'][:3]))
    wall = time.time() - t0
    if write:
        write_evidence(prop, tier, seed, results, repo, wall, errors=nerr, selfcheck=selfcheck)
    if not quiet:
        print('\n'.join(out))
    if not quiet:
        for l in lines:
            print(l)
    code = 1 if nviol else (2 if nerr else 0)
    if not quiet:
        print('%s: %s  (%d discharged, %d known findings, %d violations, %d analysis errors, %.2fs)' % (
            prop, {0: 'PASS', 1: 'FAIL', 2: 'ANALYSIS-ERROR'}[code], sum(r['status'] == DISCHARGED for r in results), nknown, nviol, nerr, wall))
    return code, results


def write_evidence(prop, tier, seed, results, repo, wall, errors=0, selfcheck=None, note=None):
    samples = []
    axioms = set()
    for r in results:
        ob = r['ob']
        axioms.update(ob.axioms)
        samples.append(dict(id=ob.oid, rule=ob.rule, anchor=ob.anchor, necessary_because=ob.why, verdict=r['status'],
                            evaluations=r['evals'], sites=r['sites'][:12], facts=r['facts'], error=r['error'],
                            findings=[f.as_dict() for f in r['findings']]))
    nontrivial = sum(1 for r in results if r['evals'] > 0 and r['status'] != ERROR)
    cov = dict(explanation=LEVEL_EXPLANATION if not note else LEVEL_EXPLANATION + ' NOTE: ' + note,
               obligations=len(results),
               discharged=sum(r['status'] == DISCHARGED for r in results),
               known_findings=sum(1 for r in results for f in r['findings'] if f.status == KNOWN),
               violations=sum(1 for r in results for f in r['findings'] if f.status == VIOLATION),
               analysis_errors=errors,
               evaluations=sum(r['evals'] for r in results),
               distinct_nontrivial=nontrivial,
               rule='one case = one rule instance evaluated on one resolved construct (site x rule); an obligation is non-trivial '
                    'when its locator matched at least the hand-confirmed minimum of constructs and its constraint evaluated '
                    'at least one instance',
               samples=samples,
               analysed=repo.stats() if repo else {},
               checker_cmd='/venv/bin/python sa/run.py %s --tier %s' % (prop, tier),
               trusted_base=sorted(axioms))
    if selfcheck is not None:
        cov.update(seeded_faults=selfcheck.get('faults', 0), faults_detected=selfcheck.get('detected', 0),
                   benign_twins=selfcheck.get('twins', 0), twins_silent=selfcheck.get('silent', 0),
                   selfcheck_skipped=selfcheck.get('skipped', 0), selfcheck_failed=selfcheck.get('failed', []),
                   generic_single_edit_mutants=selfcheck.get('generic', {}))
    ev = dict(property_id=prop, tier=tier, seed=seed, level='other', coverage=cov,
              assumptions=sorted(axioms) + ['python ast of /repo/src/pyg_base is the program that runs (no import hooks, no monkeypatching)'],
              wall_s=round(wall, 3), violations=cov['violations'])
    os.makedirs(os.path.join(VERIF, 'evidence'), exist_ok=True)
    with open(os.path.join(VERIF, 'evidence', '%s.json' % prop), 'w') as fh:
        json.dump(ev, fh, indent=1, default=str)


def replay(path):
    p = path if os.path.isabs(path) else os.path.join(VERIF, path)
    d = json.load(open(p))
    prop, oid = d['property'], d['obligation']
    code, results = check(prop, 'quick', only={oid}, write=False)
    if code == 2:
        return 2
    still = [f for r in results for f in r['findings'] if core._nstmt(f.statement) == core._nstmt(d['statement']) and (f.fn.construct if f.fn else None) == d['function']]
    if still:
        print('REPLAY: %s still fails at %s: %s' % (oid, d['function'], d['msg']))
        return 1
    print('REPLAY: %s no longer reports `%s` in %s' % (oid, d['statement'][:80], d['function']))
    return 0 if code == 0 else code


def main():
    ap = argparse.ArgumentParser()
    ap.add_argument('prop', nargs='?')
    ap.add_argument('--tier', default=os.environ.get('VERIF_TIER', 'quick'))
    ap.add_argument('--replay')
    ap.add_argument('--all', action='store_true')
    ap.add_argument('--only')
    ap.add_argument('--no-evidence', action='store_true', help='do not write evidence/ or replays/ (used when evaluating scratch variants)')
    a = ap.parse_args()
    try:
        if a.replay:
            sys.exit(replay(a.replay))
        if a.all:
            worst = 0
            repo = Repo()
            for i in range(1, 21):
                c, _ = check('C%02d' % i, a.tier, repo=repo)
                worst = max(worst, c) if worst != 1 else 1
                if c == 1:
                    worst = 1
            sys.exit(worst)
        if not a.prop:
            ap.error('property id required')
        code, _ = check(a.prop, a.tier if a.tier in ('quick', 'thorough') else 'quick', only=set(a.only.split(',')) if a.only else None, write=not a.no_evidence)
        sys.exit(code)
    except SystemExit:
        raise
    except Exception as e:
        import traceback
        traceback.print_exc()
        print('ANALYSIS-ERROR checker crashed: %s: %s' % (type(e).__name__, e))
        sys.exit(2)


if __name__ == '__main__':
    main()
