"""Generic single-edit AST mutants of the functions a property's obligations anchor on (thorough tier, exploration only).

For every function that the property's rules resolved through Repo.fn during the quick run, generate single edits (relational /
logical / arithmetic operator replacement, constant +-1 and boolean flips, `not` removal, statement deletion, swap of two name
arguments), apply each to an in-memory copy of the module, and re-run the property's obligations. The fraction reported is NOT a
pass/fail criterion (many single edits are behaviour-preserving or outside the property); survivors are listed so that rules can be
strengthened where a survivor is a real behaviour change."""
import ast, copy, os, sys
from concurrent.futures import ProcessPoolExecutor
from .core import Repo, VIOLATION, ERROR

ROR = {ast.Lt: ast.LtE, ast.LtE: ast.Lt, ast.Gt: ast.GtE, ast.GtE: ast.Gt, ast.Eq: ast.NotEq, ast.NotEq: ast.Eq,
       ast.In: ast.NotIn, ast.NotIn: ast.In, ast.Is: ast.IsNot, ast.IsNot: ast.Is}
AOR = {ast.Add: ast.Sub, ast.Sub: ast.Add, ast.Mult: ast.FloorDiv}


def _docstring_nodes(fn):
    out = set()
    for n in ast.walk(fn):
        if isinstance(n, (ast.FunctionDef, ast.AsyncFunctionDef, ast.ClassDef)) and n.body and isinstance(n.body[0], ast.Expr) and isinstance(n.body[0].value, ast.Constant) and isinstance(n.body[0].value.value, str):
            out.add(id(n.body[0]))
            out.add(id(n.body[0].value))
    return out


def sites(fn_node):
    """[(kind, index)] enumerating mutation sites of a function in a deterministic walk order."""
    out = []
    doc = _docstring_nodes(fn_node)
    for i, n in enumerate(ast.walk(fn_node)):
        if id(n) in doc:
            continue
        if isinstance(n, ast.Compare) and len(n.ops) == 1 and type(n.ops[0]) in ROR:
            out.append(('ROR', i))
        elif isinstance(n, ast.BoolOp):
            out.append(('LCR', i))
        elif isinstance(n, ast.BinOp) and type(n.op) in AOR and not (isinstance(n.left, ast.Constant) and isinstance(n.left.value, str)):
            out.append(('AOR', i))
        elif isinstance(n, ast.UnaryOp) and isinstance(n.op, ast.Not):
            out.append(('NOT', i))
        elif isinstance(n, ast.Constant) and isinstance(n.value, bool):
            out.append(('BOOL', i))
        elif isinstance(n, ast.Constant) and isinstance(n.value, int) and not isinstance(n.value, bool) and abs(n.value) <= 12:
            out.append(('INC', i))
            out.append(('DEC', i))
        elif isinstance(n, (ast.Assign, ast.AugAssign, ast.Raise)) or (isinstance(n, ast.Expr) and isinstance(n.value, ast.Call)):
            out.append(('SDL', i))
        elif isinstance(n, ast.Call) and len(n.args) == 2 and all(isinstance(a, ast.Name) for a in n.args) and n.args[0].id != n.args[1].id:
            out.append(('SWAP', i))
        elif isinstance(n, ast.Subscript) and isinstance(n.slice, ast.Constant) and n.slice.value in (0, -1):
            out.append(('IDX', i))
    return out


def apply(fn_node, kind, index):
    """return a mutated deep copy of fn_node, or None when the edit is not applicable."""
    new = copy.deepcopy(fn_node)
    pm = {}
    target = None
    for i, n in enumerate(ast.walk(new)):
        if i == index:
            target = n
        for c in ast.iter_child_nodes(n):
            pm[id(c)] = n
    if target is None:
        return None
    n = target
    if kind == 'ROR':
        n.ops = [ROR[type(n.ops[0])]()]
    elif kind == 'LCR':
        n.op = ast.Or() if isinstance(n.op, ast.And) else ast.And()
    elif kind == 'AOR':
        n.op = AOR[type(n.op)]()
    elif kind == 'NOT':
        par = pm.get(id(n))
        for f, v in ast.iter_fields(par):
            if v is n:
                setattr(par, f, n.operand)
            elif isinstance(v, list) and n in v:
                v[v.index(n)] = n.operand
    elif kind == 'BOOL':
        n.value = not n.value
    elif kind == 'INC':
        n.value = n.value + 1
    elif kind == 'DEC':
        n.value = n.value - 1
    elif kind == 'IDX':
        n.slice = ast.Constant(-1 if n.slice.value == 0 else 0)
    elif kind == 'SWAP':
        n.args = [n.args[1], n.args[0]]
    elif kind == 'SDL':
        par = pm.get(id(n))
        done = False
        for f, v in ast.iter_fields(par):
            if isinstance(v, list) and n in v:
                v[v.index(n)] = ast.Pass()
                done = True
        if not done:
            return None
    return ast.fix_missing_locations(new)


def _replace_function(src, fn_node, new_node):
    """splice the unparsed mutated function over the original lines of the function in the module source."""
    lines = src.split('\n')
    start = min([fn_node.lineno] + [d.lineno for d in fn_node.decorator_list]) - 1
    end = fn_node.end_lineno
    indent = ' ' * fn_node.col_offset
    text = ast.unparse(new_node)
    text = '\n'.join(indent + l if l else l for l in text.split('\n'))
    return '\n'.join(lines[:start] + [text] + lines[end:])


def _one(args):
    prop, mod, cls, name, kind, index = args
    from . import run as R
    base = Repo(normalise=False)
    node = base.funcs[(mod, cls, name)]
    new = apply(node, kind, index)
    if new is None:
        return (args, 'n/a', '')
    try:
        src = _replace_function(base.src[mod], node, new)
        ast.parse(src)
    except Exception:
        return (args, 'n/a', '')
    before = ast.unparse(node)
    after = ast.unparse(new)
    # the changed line, for the report
    diff = [(b if kind != 'SDL' else 'deleted: ' + a.strip()) for a, b in zip(before.split('\n'), after.split('\n')) if a != b][:1]
    repo = Repo(overrides={mod: src})
    code, results = R.check(prop, 'quick', repo=repo, quiet=True, write=False)
    hit = [r['ob'].oid for r in results if r['status'] == VIOLATION]
    err = [r['ob'].oid for r in results if r['status'] == ERROR]
    return (args, 'detected' if hit else ('error' if err else 'survived'), (diff[0].strip() if diff else '') + ' :: ' + ','.join(hit or err))


def anchors_of(prop):
    """functions resolved through Repo.fn while the property's obligations ran on the current tree."""
    from . import run as R
    seen = []
    orig = Repo.fn

    def spy(self, spec):
        f = orig(self, spec)
        k = (f.mod, f.cls, f.name)
        if f.outer is None and k not in seen:
            seen.append(k)
        return f
    Repo.fn = spy
    try:
        R.check(prop, 'quick', quiet=True, write=False)
    finally:
        Repo.fn = orig
    return seen


def run(prop, say=print, limit=600, jobs=16):
    base = Repo(normalise=False)      # sites are enumerated on the source as written (the mutant is spliced into the source text)
    tasks = []
    for (mod, cls, name) in anchors_of(prop):
        node = base.funcs.get((mod, cls, name))
        if node is None:
            continue
        for kind, idx in sites(node):
            tasks.append((prop, mod, cls, name, kind, idx))
    seed = int(os.environ.get('VERIF_SEED', '0') or 0)
    if len(tasks) > limit:
        import random
        random.Random(seed).shuffle(tasks)
        tasks = sorted(tasks[:limit], key=lambda t: tuple(str(x) for x in t))
    out = dict(generic_mutants=0, generic_detected=0, generic_errors=0, survivors=[], by_kind={})
    if not tasks:
        return out
    with ProcessPoolExecutor(max_workers=jobs) as ex:
        res = list(ex.map(_one, tasks, chunksize=4))
    for args, verdict, info in res:
        if verdict == 'n/a':
            continue
        out['generic_mutants'] += 1
        k = out['by_kind'].setdefault(args[4], [0, 0])
        k[0] += 1
        if verdict == 'detected':
            out['generic_detected'] += 1
            k[1] += 1
        elif verdict == 'error':
            out['generic_errors'] += 1
        else:
            out['survivors'].append('%s:%s%s %s %s' % (args[1], (args[2] + '.') if args[2] else '', args[3], args[4], info.split(' :: ')[0][:110]))
    say('  generic single-edit mutants of %d anchored functions: %d generated, %d reported as VIOLATION, %d as ANALYSIS-ERROR, %d survived (not a pass/fail criterion)' % (
        len({t[1:4] for t in tasks}), out['generic_mutants'], out['generic_detected'], out['generic_errors'], len(out['survivors'])))
    return out


if __name__ == '__main__':
    sys.path.insert(0, os.path.dirname(os.path.dirname(os.path.abspath(__file__))))
