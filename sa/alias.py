"""E4 ALIAS - operand purity: may this operation write to an object reachable from one of its operands?

Flow-sensitive abstract interpretation over the structured AST of each function, interprocedural by summaries
(fixpoint over the call graph). See DESIGN.md section 3 (E4) for the abstract domain and stated unsoundness."""
import ast
from collections import defaultdict
from .core import Repo, Fn, AnalysisError

F = ('F',)
KN = '\0known'
PANDAS_MODS = {'_pandas', '_bitemporal', '_dates', '_loop', '_drange', '_roll', '_interp'}
MUTATORS = {'append', 'extend', 'insert', 'remove', 'clear', 'sort', 'reverse', 'update', 'setdefault', 'popitem', 'add', 'discard',
            '__setitem__', '__delitem__', 'pop', 'difference_update', 'intersection_update', 'symmetric_difference_update'}
ACCESSORS = {'get', 'values', 'items', 'keys', 'pop', 'popitem', 'setdefault', '__getitem__'}
SHALLOW = {'list', 'dict', 'tuple', 'set', 'sorted', 'frozenset', 'copy', 'reversed', 'OrderedDict'}
FRESH_BUILTINS = {'len', 'str', 'int', 'float', 'bool', 'isinstance', 'range', 'min', 'max', 'sum', 'abs', 'any', 'all', 'callable',
                  'hasattr', 'type', 'id', 'repr', 'hash', 'zip', 'enumerate', 'map', 'filter', 'getattr', 'print', 'round', 'iter', 'next'}
CONST_FLAGS = ('copy', 'copy_on_write')     # private boolean flags on which summaries are specialised


def cap(d):
    return min(d, 2)


def cp(st):
    o = dict(st)
    o[KN] = dict(st.get(KN, {}))
    return o


class Val:
    __slots__ = ('tops', 'contents', 'tags', 'const')

    def __init__(self, tops=(), contents=(), tags=(), const=None):
        self.tops = frozenset(tops); self.contents = frozenset(contents); self.tags = frozenset(tags); self.const = const

    def join(self, o):
        return Val(self.tops | o.tops, self.contents | o.contents, self.tags | o.tags, self.const if self.const == o.const else None)

    def __eq__(self, o):
        return isinstance(o, Val) and (self.tops, self.contents, self.tags) == (o.tops, o.contents, o.tags)

    def __hash__(self):
        return hash((self.tops, self.contents, self.tags))

    def __repr__(self):
        return 'Val(%s|%s|%s)' % (sorted(map(str, self.tops)), sorted(map(str, self.contents)), sorted(self.tags))


EMPTY = Val()


def fresh(contents=(), tags=()):
    return Val([F], contents, tags)


def load(v):
    tops = set()
    for a in v.tops:
        if a == F:
            continue
        tops.add((a[0], cap(a[1] + 1)))
    tops |= v.contents
    return Val(tops, {(p, cap(d + 1)) for (p, d) in v.contents} | set(v.contents) if v.contents else (), ())


def shallow(v, tags=None):
    l = load(v)
    return fresh(l.tops | l.contents | v.contents, v.tags if tags is None else tags)


def elem_of(*vals):
    c = set()
    for v in vals:
        c |= {a for a in v.tops if a != F}
        c |= v.contents
    return c


class RepoView:
    """adapter giving the analysis the lookups it needs on top of core.Repo"""

    def __init__(self, repo):
        self.r = repo
        self.funcs = repo.funcs
        self.classes = repo.classes
        self.imports = repo.imports
        self._props = None

    def mro(self, c):
        return self.r.mro(c)

    def method(self, cname, name, after=None):
        f = self.r.method(cname, name, after=after)
        return (f.mod, f.cls, f.name) if f else None

    def function(self, mod, name):
        f = self.r.resolve_name(mod, name)
        return (f.mod, f.cls, f.name) if isinstance(f, Fn) else None

    def klass(self, mod, name):
        r = self.r.resolve_name(mod, name)
        if isinstance(r, tuple) and r[0] == 'class':
            return r[1]
        return None

    def is_property(self, key):
        return any(isinstance(d, ast.Name) and d.id == 'property' for d in self.funcs[key].decorator_list)

    def property_by_name(self, attr):
        """attr resolves to a repo @property when every repo class defining `attr` as a method defines it as a property."""
        if self._props is None:
            self._props = defaultdict(list)
            for (m, c, n) in self.funcs:
                if c is not None:
                    self._props[n].append((m, c, n))
        ks = self._props.get(attr, [])
        if ks and all(self.is_property(k) for k in ks):
            return ks
        return []


class Summary:
    def __init__(self): self.writes = {}; self.ret = EMPTY; self.yields = EMPTY
    def key(self): return (frozenset(self.writes), self.ret, self.yields)
    def write_list(self):
        """[(param, depth, (fkey, lineno, what, stmt_text), via)] sorted"""
        return sorted(((p, d, o, v) for (p, d, o), v in self.writes.items()), key=lambda x: (x[0], x[1], str(x[2])))

class Analyzer:
    def __init__(self, repo):
        self.repo = repo if isinstance(repo, RepoView) else RepoView(repo); self.summ = {}; self.inprog = set(); self.changed = False
    def summary(self, fkey, consts=()):
        k = (fkey, tuple(sorted(consts)))
        if k not in self.summ:
            self.summ[k] = Summary()
            self.analyze(k)
        return self.summ[k]
    def analyze(self, k):
        if k in self.inprog: return
        self.inprog.add(k)
        old = self.summ[k].key()
        FuncAI(self, k).run()
        if self.summ[k].key() != old: self.changed = True
        self.inprog.discard(k)
    def fixpoint(self, entries):
        for it in range(8):
            self.changed = False
            for k in list(self.summ): self.analyze(k)
            for e in entries: self.summary(e)
            if not self.changed: break
        return it

class FuncAI:
    def __init__(self, A, k):
        self.A = A; self.repo = A.repo; self.k = k; (self.mod, self.cls, self.name), consts = k
        self.consts = dict(consts); self.node = self.repo.funcs[(self.mod, self.cls, self.name)]
        self.S = A.summ[k]; self.events = self.S.writes; self.stmt_text = ''
        self.modconst = {}
        r = self.repo.r
        for nm, v in r.mod_assign[self.mod].items():
            if isinstance(v, ast.Constant) and isinstance(v.value, str): self.modconst[nm] = v.value
    def run(self):
        st = {}; a = self.node.args
        params = [x.arg for x in a.posonlyargs + a.args + a.kwonlyargs]
        self.params = params
        defaults = dict(zip([x.arg for x in (a.posonlyargs+a.args)][-len(a.defaults):] if a.defaults else [], a.defaults))
        for i, p in enumerate(params):
            tags = ()
            if i == 0 and self.cls and p in ('self',): tags = (self.cls,)
            if i == 0 and self.cls and p == 'cls': tags = ('class:'+self.cls,)
            const = self.consts.get(p, '?')
            if const == '?' and p in defaults and isinstance(defaults[p], ast.Constant) and isinstance(defaults[p].value, (bool, type(None))) and p in CONST_FLAGS:
                const = defaults[p].value    # documented private flag: specialise on its default
            st[p] = Val([(p,0)], (), tags, const if const != '?' else None)
            if const != '?': st[p].const = ('C', const)
        if a.vararg: st[a.vararg.arg] = fresh([(a.vararg.arg,1)])
        if a.kwarg: st[a.kwarg.arg] = fresh([(a.kwarg.arg,1)])
        st[KN] = {}
        self.block(self.node.body, st)
    # ---------- events
    def write(self, v, node, what, extra_depth=0, origin=None, via=()):
        if origin is None:
            origin = ((self.mod, self.cls, self.name), node.lineno, what, self.stmt_text)
        for a in v.tops:
            if a == F: continue
            self.events.setdefault((a[0], cap(a[1]+extra_depth), origin), via)
        if extra_depth >= 1:
            for (p,d) in v.contents:
                self.events.setdefault((p, cap(d+extra_depth-1), origin), via)
    # ---------- statements
    def block(self, stmts, st):
        for s in stmts:
            if st is None: return None
            st = self.stmt(s, st)
        return st
    def joinst(self, a, b):
        if a is None: return b
        if b is None: return a
        out = {}
        for k in set(a)|set(b):
            if k == KN: continue
            out[k] = a.get(k, EMPTY).join(b.get(k, EMPTY))
        ka, kb = a.get(KN, {}), b.get(KN, {})
        out[KN] = {k: v.join(kb[k]) for k, v in ka.items() if k in kb}
        return out
    def kill_known(self, name, st):
        kn = st[KN] = dict(st.get(KN, {}))
        for kk in [kk for kk in kn if kk[0] == name or name in kk[2]]: del kn[kk]
    def bind(self, tgt, v, st, node):
        if isinstance(tgt, ast.Name):
            st[tgt.id] = v; self.kill_known(tgt.id, st)
        elif isinstance(tgt, (ast.Tuple, ast.List)):
            for e in tgt.elts: self.bind(e.value if isinstance(e, ast.Starred) else e, Val(load(v).tops, load(v).contents), st, node)
        elif isinstance(tgt, ast.Subscript):
            base = self.expr(tgt.value, st); self.expr(tgt.slice, st)
            self.write(base, node, 'store %s'%ast.unparse(tgt))
            if isinstance(tgt.value, ast.Name):
                nm = tgt.value.id
                if F in base.tops:
                    st[nm] = Val(base.tops, base.contents | elem_of(v), base.tags, None)
                names = frozenset(n.id for n in ast.walk(tgt.slice) if isinstance(n, ast.Name))
                self.kill_known(nm, st)
                st[KN][(nm, self.pathkey(tgt.slice, base), names)] = v
        elif isinstance(tgt, ast.Attribute):
            base = self.expr(tgt.value, st)
            if not (isinstance(tgt.value, ast.Name) and tgt.value.id == 'self' and tgt.attr.startswith('_')):
                self.write(base, node, 'attr store %s'%ast.unparse(tgt))
            if isinstance(tgt.value, ast.Name):
                nm = tgt.value.id
                if F in base.tops: st[nm] = Val(base.tops, base.contents | elem_of(v), base.tags, None)
                self.kill_known(nm, st)
                st[KN][(nm, self.attrkey(tgt.attr, base), frozenset())] = v
    def stmt(self, s, st):
        if not isinstance(s, (ast.If, ast.For, ast.While, ast.Try, ast.With, ast.FunctionDef, ast.AsyncFor, ast.AsyncWith, ast.AsyncFunctionDef)):
            try: self.stmt_text = ast.unparse(s)
            except Exception: self.stmt_text = ''
        if isinstance(s, ast.Assign):
            v = self.expr(s.value, st)
            for t in s.targets: self.bind(t, v, st, s)
            return st
        if isinstance(s, ast.AugAssign):
            v = self.expr(s.value, st)
            if isinstance(s.target, ast.Name):
                old = st.get(s.target.id, EMPTY)
                if 'list' in old.tags: self.write(old, s, 'augassign on list %s'%s.target.id)
                st[s.target.id] = Val(old.tops|{F}, old.contents|elem_of(load(v)), old.tags)
            else:
                self.bind(s.target, v, st, s)
            return st
        if isinstance(s, ast.Expr):
            self.expr(s.value, st); return st
        if isinstance(s, ast.Return):
            if s.value is not None:
                self.S.ret = self.S.ret.join(self.expr(s.value, st))
            return None
        if isinstance(s, ast.Raise):
            if s.exc: self.expr(s.exc, st)
            return None
        if isinstance(s, ast.If):
            c = self.truth(s.test, st); self.expr(s.test, st)
            a = self.block(s.body, cp(self.refine(s.test, st))) if c is not False else None
            b = self.block(s.orelse, cp(st)) if c is not True else None
            return self.joinst(a, b)
        if isinstance(s, (ast.For, ast.AsyncFor)):
            it = self.expr(s.iter, st); cur = cp(st)
            for _ in range(6):
                body = cp(cur); self.bind(s.target, self.iterload(it), body, s)
                out = self.block(s.body, body)
                nxt = self.joinst(cur, out)
                if nxt == cur: break
                cur = nxt
            r = self.block(s.orelse, cp(cur)) if s.orelse else cur
            return r
        if isinstance(s, ast.While):
            cur = cp(st)
            for _ in range(6):
                self.expr(s.test, cur)
                out = self.block(s.body, cp(self.refine(s.test, cur))); nxt = self.joinst(cur, out)
                if nxt == cur: break
                cur = nxt
            return cur
        if isinstance(s, ast.Try):
            pre = cp(st); post = self.block(s.body, cp(st))
            outs = [self.block(s.orelse, cp(post)) if (post is not None and s.orelse) else post]
            hin = self.joinst(pre, post)
            for h in s.handlers:
                hs = cp(hin)
                if h.name: hs[h.name] = EMPTY
                outs.append(self.block(h.body, hs))
            r = None
            for o in outs: r = self.joinst(r, o)
            if s.finalbody and r is not None: r = self.block(s.finalbody, r)
            return r
        if isinstance(s, (ast.With, ast.AsyncWith)):
            for i in s.items:
                v = self.expr(i.context_expr, st)
                if i.optional_vars is not None: self.bind(i.optional_vars, v, st, s)
            return self.block(s.body, st)
        if isinstance(s, (ast.FunctionDef, ast.AsyncFunctionDef)):
            inner = cp(st)
            for x in s.args.posonlyargs + s.args.args + s.args.kwonlyargs: inner[x.arg] = EMPTY
            if s.args.vararg: inner[s.args.vararg.arg] = fresh()
            if s.args.kwarg: inner[s.args.kwarg.arg] = fresh()
            saved = self.S.ret; self.block(s.body, inner); self.S.ret = saved
            st[s.name] = EMPTY; return st
        if isinstance(s, ast.Delete):
            for t in s.targets:
                if isinstance(t, ast.Subscript):
                    self.write(self.expr(t.value, st), s, 'del %s'%ast.unparse(t))
                elif isinstance(t, ast.Attribute):
                    self.write(self.expr(t.value, st), s, 'del attr %s'%ast.unparse(t))
            return st
        if isinstance(s, (ast.Pass, ast.Break, ast.Continue, ast.Import, ast.ImportFrom, ast.Global, ast.Nonlocal, ast.Assert, ast.ClassDef)):
            return st
        raise NotImplementedError(ast.dump(s)[:80])
    def is_mapping_attr(self, v):
        return any(t in self.repo.classes and 'dictattr' in self.repo.mro(t) for t in v.tags)
    def pathkey(self, sl, base):
        if self.is_mapping_attr(base):
            if isinstance(sl, ast.Constant) and isinstance(sl.value, str): return ('k', sl.value)
            if isinstance(sl, ast.Name) and sl.id in self.modconst: return ('k', self.modconst[sl.id])
        return ('d', ast.dump(sl))
    def attrkey(self, attr, base):
        return ('k', attr) if self.is_mapping_attr(base) else ('a', attr)
    def refine(self, test, st, polarity=True):
        """isinstance(NAME, RepoClass) on the true branch tags NAME (light receiver typing)."""
        out = st
        tests = test.values if (isinstance(test, ast.BoolOp) and isinstance(test.op, ast.And)) else [test]
        if not polarity: return st
        for t in tests:
            if isinstance(t, ast.Call) and isinstance(t.func, ast.Name) and t.func.id == 'isinstance' and len(t.args) == 2 and isinstance(t.args[0], ast.Name):
                cands = t.args[1].elts if isinstance(t.args[1], ast.Tuple) else [t.args[1]]
                cs = [self.repo.klass(self.mod, c.id) for c in cands if isinstance(c, ast.Name)]
                cs = [c for c in cs if c]
                nm = t.args[0].id
                if len(cs) == 1 and nm in out:
                    if out is st: out = cp(st)
                    v = out[nm]
                    out[nm] = Val(v.tops, v.contents, v.tags | {cs[0]}, v.const)
        return out
    def truth(self, test, st):
        if isinstance(test, ast.Name) and test.id in st and isinstance(st[test.id].const, tuple): return bool(st[test.id].const[1])
        if isinstance(test, ast.UnaryOp) and isinstance(test.op, ast.Not):
            t = self.truth(test.operand, st); return None if t is None else (not t)
        return None
    def iterload(self, it):
        if 'dictable' in it.tags:
            y = self.A.summary(('_dictable','dictable','__iter__')).yields
            return self.subst(y, {'self': it}, None)
        return load(it)
    # ---------- expressions
    def expr(self, e, st):
        m = getattr(self, 'e_'+type(e).__name__, None)
        if m is None:
            for c in ast.iter_child_nodes(e):
                if isinstance(c, ast.expr): self.expr(c, st)
            return EMPTY
        return m(e, st)
    def e_Name(self, e, st): return st.get(e.id, EMPTY)
    def e_Constant(self, e, st): return EMPTY
    def e_Attribute(self, e, st):
        v = self.expr(e.value, st)
        if isinstance(e.value, ast.Name):
            ak = self.attrkey(e.attr, v)
            for kk, kv in st.get(KN, {}).items():
                if kk[0] == e.value.id and kk[1] == ak: return kv
        if self.mod in PANDAS_MODS and e.attr in ('loc','iloc','at','iat'): return v
        for t in v.tags:
            if t in self.repo.classes:
                mk = self.repo.method(t, e.attr)
                if mk and any(isinstance(d, ast.Name) and d.id == 'property' for d in self.repo.funcs[mk].decorator_list):
                    return self.apply(mk, [v], {}, e)
        if e.attr.startswith('_') and not e.attr.startswith('__'):
            ks = self.repo.property_by_name(e.attr)
            if ks:
                r = EMPTY
                for k in ks: r = r.join(self.apply(k, [v], {}, e))
                return r
        return load(v)
    def e_Subscript(self, e, st):
        v = self.expr(e.value, st); self.expr(e.slice, st)
        if isinstance(e.value, ast.Name):
            pk = self.pathkey(e.slice, v)
            for kk, kv in st.get(KN, {}).items():
                if kk[0] == e.value.id and kk[1] == pk: return kv
        if isinstance(e.slice, ast.Slice): return shallow(v)
        # tagged receivers: use __getitem__ summary
        for t in v.tags:
            mk = self.repo.method(t, '__getitem__') if t in self.repo.classes else None
            if mk: return self.apply(mk, [v, self.expr(e.slice, st)], {}, e)
        r = load(v)
        if 'dictable' in v.tags: r = Val(r.tops, r.contents, ('list',))
        return r
    def e_Starred(self, e, st): return self.expr(e.value, st)
    def e_IfExp(self, e, st):
        c = self.truth(e.test, st); self.expr(e.test, st)
        if c is True: return self.expr(e.body, st)
        if c is False: return self.expr(e.orelse, st)
        return self.expr(e.body, st).join(self.expr(e.orelse, st))
    def e_BoolOp(self, e, st):
        r = EMPTY
        for v in e.values: r = r.join(self.expr(v, st))
        return r
    def e_BinOp(self, e, st):
        a = self.expr(e.left, st); b = self.expr(e.right, st)
        la, lb = load(a), load(b)
        c = la.tops|la.contents|lb.tops|lb.contents
        return fresh(c, ('list',) if ('list' in a.tags or 'list' in b.tags) else ()) if c else EMPTY
    def e_List(self, e, st): return fresh(elem_of(*[self.expr(x, st) for x in e.elts]), ('list',))
    e_Tuple = e_Set = e_List
    def e_Dict(self, e, st):
        vs = [self.expr(x, st) for x in e.values if x is not None] + [load(self.expr(v, st)) for k, v in zip(e.keys, e.values) if k is None]
        for k in e.keys:
            if k is not None: self.expr(k, st)
        return fresh(elem_of(*vs), ('dict',))
    def comp(self, e, st, elts):
        inner = cp(st)
        for g in e.generators:
            it = self.expr(g.iter, inner); self.bind(g.target, self.iterload(it), inner, e)
            for c in g.ifs: self.expr(c, inner)
        return [self.expr(x, inner) for x in elts]
    def e_ListComp(self, e, st): return fresh(elem_of(*self.comp(e, st, [e.elt])), ('list',))
    e_SetComp = e_GeneratorExp = e_ListComp
    def e_DictComp(self, e, st):
        k, v = self.comp(e, st, [e.key, e.value]); return fresh(elem_of(v), ('dict',))
    def e_Lambda(self, e, st):
        inner = cp(st)
        for x in e.args.args: inner[x.arg] = EMPTY
        self.expr(e.body, inner); return EMPTY
    def e_Yield(self, e, st):
        if e.value is not None: self.S.yields = self.S.yields.join(self.expr(e.value, st))
        return EMPTY
    def e_Await(self, e, st): return self.expr(e.value, st)
    def e_NamedExpr(self, e, st):
        v = self.expr(e.value, st); st[e.target.id] = v; return v
    def e_Compare(self, e, st):
        self.expr(e.left, st)
        for c in e.comparators: self.expr(c, st)
        return EMPTY
    # ---------- calls
    def subst(self, v, amap, node):
        tops = set(); contents = set(); tags = set(v.tags)
        for a in v.tops:
            if a == F: tops.add(F); continue
            act = amap.get(a[0])
            if act is None: continue
            x = act
            for _ in range(a[1]): x = load(x)
            tops |= x.tops; contents |= x.contents
            if a[1] == 0: tags |= act.tags
        for a in v.contents:
            act = amap.get(a[0])
            if act is None: continue
            x = act
            for _ in range(a[1]): x = load(x)
            contents |= {t for t in x.tops if t != F} | x.contents
        return Val(tops, contents, tags)
    def apply(self, fkey, args, kwargs, node, consts=()):
        fn = self.repo.funcs[fkey]
        S = self.A.summary(fkey, consts)
        a = fn.args; names = [x.arg for x in a.posonlyargs + a.args]
        amap = {}
        for n, v in zip(names, args): amap[n] = v
        extra = args[len(names):]
        if a.vararg: amap[a.vararg.arg] = fresh(elem_of(*extra)) if extra else fresh()
        kwextra = []
        for k, v in kwargs.items():
            if k in names or k in [x.arg for x in a.kwonlyargs]: amap[k] = v
            else: kwextra.append(v)
        if a.kwarg: amap[a.kwarg.arg] = fresh(elem_of(*kwextra)) if kwextra else fresh()
        for (p, d, origin), via in list(S.writes.items()):
            act = amap.get(p)
            if act is None: continue
            self.write(act, node, origin[2], extra_depth=d, origin=origin, via=((('%s.%s' % (fkey[1] or fkey[0], fkey[2])), node.lineno),) + tuple(via)[:5])
        return self.subst(S.ret, amap, node)
    def e_Call(self, e, st):
        f = e.func
        args = [self.expr(a, st) for a in e.args]
        star = [isinstance(a, ast.Starred) for a in e.args]
        args = [load(v) if s else v for v, s in zip(args, star)]   # *x passes elements
        kwargs = {}; kwstar = []
        for k in e.keywords:
            v = self.expr(k.value, st)
            if k.arg is None: kwstar.append(load(v))
            else: kwargs[k.arg] = v
        allargs = args + list(kwargs.values()) + kwstar
        consts = tuple((k.arg, k.value.value) for k in e.keywords if k.arg and isinstance(k.value, ast.Constant) and isinstance(k.value.value, (bool, type(None))) and k.arg in CONST_FLAGS)
        # ---- plain names
        if isinstance(f, ast.Name):
            n = f.id
            if n in st and n not in ('copy',) and st[n] is not EMPTY and (st[n].tops or st[n].contents):   # calling a param / local callable: assume pure callback
                if any(t.startswith('class:') for t in st[n].tags):
                    c = [t for t in st[n].tags if t.startswith('class:')][0][6:]
                    return fresh(elem_of(*[load(a) for a in allargs] + allargs), (c,))
                return EMPTY
            if n == 'copy' and 'copy' not in self.params or (n == 'copy' and n not in st): return shallow(args[0]) if args else EMPTY
            if n not in st and self.repo.r.ext_imports[self.mod].get(n) == 'copy.copy': return shallow(args[0]) if args else EMPTY
            if n in SHALLOW: return shallow(args[0], ('list',) if n in ('list','sorted') else (('dict',) if n == 'dict' else ())) if args else fresh()
            if n in ('zip','map','filter','enumerate'): return fresh(elem_of(*[load(a) for a in args]))
            if n in ('getattr',): return load(args[0]) if args else EMPTY
            if n in ('setattr','delattr'):
                self.write(args[0], e, n); return EMPTY
            if n in FRESH_BUILTINS: return EMPTY
            c = self.repo.klass(self.mod, n)
            if c and (n in self.repo.imports[self.mod] or self.repo.classes[c][0] == self.mod):
                return fresh(elem_of(*[load(a) for a in allargs] + allargs), (c,))
            fk = self.repo.function(self.mod, n)
            if fk: return self.apply(fk, args, kwargs, e, consts)
            return fresh() if allargs else EMPTY
        # ---- type(self)(...) / cls(...)
        if isinstance(f, ast.Call) and isinstance(f.func, ast.Name) and f.func.id == 'type' and f.args:
            tv = self.expr(f.args[0], st)
            return fresh(elem_of(*[load(a) for a in allargs] + allargs), [t for t in tv.tags if t in self.repo.classes])
        # ---- methods
        if isinstance(f, ast.Attribute):
            m = f.attr
            # super(C, self).m(...)
            if isinstance(f.value, ast.Call) and isinstance(f.value.func, ast.Name) and f.value.func.id == 'super':
                recv = st.get('self', EMPTY)
                after = f.value.args[0].id if f.value.args and isinstance(f.value.args[0], ast.Name) else self.cls
                mk = self.repo.method(self.cls, m, after=after) if self.cls else None
                if mk: return self.apply(mk, [recv] + args, kwargs, e)
                return self.builtin_method(recv, m, args, kwargs, e)
            recv = self.expr(f.value, st)
            if m == 'copy' and not args: return (fresh(tags=recv.tags) if self.mod in PANDAS_MODS else shallow(recv))
            for t in recv.tags:
                if t in self.repo.classes:
                    mk = self.repo.method(t, m)
                    if mk: return self.apply(mk, [recv] + args, kwargs, e, consts)
                if t.startswith('class:'):
                    mk = self.repo.method(t[6:], m)
                    if mk: return self.apply(mk, [recv] + args, kwargs, e, consts)
            if any(k.arg == 'inplace' and isinstance(k.value, ast.Constant) and k.value.value is True for k in e.keywords):
                self.write(recv, e, '%s(inplace=True)'%m)
            return self.builtin_method(recv, m, args, kwargs, e)
        self.expr(f, st)
        return fresh() if allargs else EMPTY
    def builtin_method(self, recv, m, args, kwargs, e):
        if m in MUTATORS:
            self.write(recv, e, '.%s()'%m)
        if m in ACCESSORS or m in ('values','items','keys'):
            return load(recv)
        if m in MUTATORS: return EMPTY
        return fresh(tags=()) if True else EMPTY



def analyse(repo, entries):
    """entries: list of core.Fn (or (mod, cls, name)). Returns (Analyzer, {construct: Summary})."""
    A = Analyzer(repo)
    keys = [(e.mod, e.cls, e.name) if isinstance(e, Fn) else e for e in entries]
    for k in keys:
        if k not in repo.funcs:
            raise AnalysisError('ALIAS entry %s not found' % (k,))
    A.fixpoint(keys)
    return A, {k: A.summary(k) for k in keys}
