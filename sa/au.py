"""AST utilities: normalisation (E3 atoms), template matcher with metavariables (E7), structured path
enumerator (E2), propositional truth tables (E3), finite tables from dispatch chains / dict literals / regexes (E6)."""
import ast, copy, itertools, re
from .core import AnalysisError

# --------------------------------------------------------------------------------------------- basics

def U(n):
    return ast.unparse(n) if isinstance(n, ast.AST) else str(n)


def walk_no_nested(node, include_self=True):
    """walk a function body without descending into nested function/class definitions (lambdas are entered)."""
    todo = [node] if include_self else list(ast.iter_child_nodes(node))
    first = True
    while todo:
        n = todo.pop()
        yield n
        for c in ast.iter_child_nodes(n):
            if isinstance(c, (ast.FunctionDef, ast.AsyncFunctionDef, ast.ClassDef)) and not (first and n is node):
                continue
            todo.append(c)
        first = False


def body_nodes(fn_node):
    """all nodes of a function's own body (nested defs excluded)."""
    out = []
    todo = list(fn_node.body)
    while todo:
        n = todo.pop()
        out.append(n)
        for c in ast.iter_child_nodes(n):
            if isinstance(c, (ast.FunctionDef, ast.AsyncFunctionDef, ast.ClassDef)):
                continue
            todo.append(c)
    out.sort(key=lambda n: (getattr(n, 'lineno', 0), getattr(n, 'col_offset', 0)))
    return out


def calls_in(node, name=None):
    out = []
    for n in ast.walk(node):
        if isinstance(n, ast.Call):
            if name is None or call_name(n) == name:
                out.append(n)
    out.sort(key=lambda n: (getattr(n, 'lineno', 0), getattr(n, 'col_offset', 0)))
    return out


def call_name(c):
    f = c.func
    if isinstance(f, ast.Name):
        return f.id
    if isinstance(f, ast.Attribute):
        return f.attr
    return None


def kw(call, name):
    for k in call.keywords:
        if k.arg == name:
            return k.value
    return None


def const(n, default=None):
    if isinstance(n, ast.Constant):
        return n.value
    if isinstance(n, ast.UnaryOp) and isinstance(n.op, ast.USub) and isinstance(n.operand, ast.Constant) and isinstance(n.operand.value, (int, float)):
        return -n.operand.value
    return default


def is_const(n, v):
    return (isinstance(n, ast.Constant) or isinstance(n, ast.UnaryOp)) and const(n, object()) == v and type(const(n)) == type(v)


def names_in(n):
    return {x.id for x in ast.walk(n) if isinstance(x, ast.Name)}


def parent_map(root):
    pm = {}
    for n in ast.walk(root):
        for c in ast.iter_child_nodes(n):
            pm[c] = n
    return pm


def enclosing_stmt(pm, n):
    while n in pm and not isinstance(n, ast.stmt):
        n = pm[n]
    return n


# --------------------------------------------------------------------------------------------- normalisation

_FLIP = {ast.Gt: ast.Lt, ast.GtE: ast.LtE}
_NEG = {ast.Eq: ast.NotEq, ast.NotEq: ast.Eq, ast.Lt: ast.GtE, ast.GtE: ast.Lt, ast.Gt: ast.LtE, ast.LtE: ast.Gt,
        ast.Is: ast.IsNot, ast.IsNot: ast.Is, ast.In: ast.NotIn, ast.NotIn: ast.In}
_COMM = (ast.Eq, ast.NotEq, ast.Is, ast.IsNot)


def negate(e):
    """syntactic negation with `not` pushed inwards."""
    if isinstance(e, ast.UnaryOp) and isinstance(e.op, ast.Not):
        return e.operand
    if isinstance(e, ast.Compare) and len(e.ops) == 1 and type(e.ops[0]) in _NEG:
        return ast.Compare(e.left, [_NEG[type(e.ops[0])]()], e.comparators)
    if isinstance(e, ast.BoolOp):
        op = ast.Or() if isinstance(e.op, ast.And) else ast.And()
        return ast.BoolOp(op, [negate(v) for v in e.values])
    if isinstance(e, ast.Constant) and isinstance(e.value, bool):
        return ast.Constant(not e.value)
    return ast.UnaryOp(ast.Not(), e)


def _plain_operand(e):
    """a name, an attribute chain on a name, or one of those subscripted by a name / constant: evaluating it twice changes nothing"""
    if isinstance(e, ast.Subscript):
        return _plain_operand(e.value) and isinstance(e.slice, (ast.Name, ast.Constant))
    while isinstance(e, ast.Attribute):
        e = e.value
    return isinstance(e, ast.Name)


def flatten_filter_generator(n):
    """for k in [j for j in X if c(j)]  ==  for k in X if c(k)   (the inner comprehension only filters; its test has no call, so when it runs cannot matter)"""
    it = n.iter
    if isinstance(it, (ast.ListComp, ast.GeneratorExp)) and len(it.generators) == 1 and isinstance(it.elt, ast.Name) and isinstance(it.generators[0].target, ast.Name) \
            and it.elt.id == it.generators[0].target.id and isinstance(n.target, ast.Name) and not it.generators[0].is_async \
            and not any(isinstance(m, (ast.Call, ast.Lambda, ast.ListComp, ast.SetComp, ast.DictComp, ast.GeneratorExp, ast.NamedExpr, ast.Await)) for c in it.generators[0].ifs for m in ast.walk(c)):
        inner_var, outer_var = it.generators[0].target.id, n.target.id
        ifs = copy.deepcopy(it.generators[0].ifs)
        clash = any(isinstance(m, ast.Name) and m.id == outer_var for c in ifs for m in ast.walk(c)) and inner_var != outer_var
        if not clash:
            for c in ifs:
                for m in ast.walk(c):
                    if isinstance(m, ast.Name) and m.id == inner_var:
                        m.id = outer_var
            n.iter = it.generators[0].iter
            n.ifs = ifs + list(n.ifs)
    return n


def canon(e, sort_comm=True):
    """canonical copy of an expression: a>b -> b<a, a>=b -> b<=a, `not` pushed in, commutative comparisons sorted,
    `len(x) == 0`/`not len(x)`/`not x` left distinct (rules name the forms they accept)."""
    e = copy.deepcopy(e)

    class T(ast.NodeTransformer):
        def visit_UnaryOp(self, n):
            self.generic_visit(n)
            if isinstance(n.op, ast.Not):
                m = negate(n.operand)
                if not (isinstance(m, ast.UnaryOp) and isinstance(m.op, ast.Not)):
                    return self.visit(m) if isinstance(m, ast.Compare) else m
            if isinstance(n.op, ast.USub) and isinstance(n.operand, ast.Constant) and isinstance(n.operand.value, (int, float)):
                return ast.Constant(-n.operand.value)
            return n

        def visit_comprehension(self, n):
            self.generic_visit(n)
            return flatten_filter_generator(n)

        def visit_DictComp(self, n):
            self.generic_visit(n)
            # {v: i for i, v in enumerate(X)} == dict(zip(X, range(len(X)))) and {i: v for i, v in enumerate(X)} == dict(zip(range(len(X)), X)), X a plain name
            if len(n.generators) == 1 and not n.generators[0].ifs and isinstance(n.generators[0].iter, ast.Call) and isinstance(n.generators[0].iter.func, ast.Name) \
                    and n.generators[0].iter.func.id == 'enumerate' and len(n.generators[0].iter.args) == 1 and not n.generators[0].iter.keywords \
                    and _plain_operand(n.generators[0].iter.args[0]) and isinstance(n.generators[0].target, ast.Tuple) and len(n.generators[0].target.elts) == 2 \
                    and all(isinstance(t, ast.Name) for t in n.generators[0].target.elts) and isinstance(n.key, ast.Name) and isinstance(n.value, ast.Name):
                i_, v_ = [t.id for t in n.generators[0].target.elts]
                X = n.generators[0].iter.args[0]
                rng = ast.Call(func=ast.Name(id='range', ctx=ast.Load()), args=[ast.Call(func=ast.Name(id='len', ctx=ast.Load()), args=[X], keywords=[])], keywords=[])
                if (n.key.id, n.value.id) == (v_, i_) and i_ != v_:
                    return ast.Call(func=ast.Name(id='dict', ctx=ast.Load()), args=[ast.Call(func=ast.Name(id='zip', ctx=ast.Load()), args=[X, rng], keywords=[])], keywords=[])
                if (n.key.id, n.value.id) == (i_, v_) and i_ != v_:
                    return ast.Call(func=ast.Name(id='dict', ctx=ast.Load()), args=[ast.Call(func=ast.Name(id='zip', ctx=ast.Load()), args=[rng, X], keywords=[])], keywords=[])
            return n

        def visit_IfExp(self, n):
            self.generic_visit(n)
            # True if c else False  ==  bool(c)
            if isinstance(n.body, ast.Constant) and n.body.value is True and isinstance(n.orelse, ast.Constant) and n.orelse.value is False:
                return ast.Call(func=ast.Name(id='bool', ctx=ast.Load()), args=[n.test], keywords=[])
            # B if A else False  ==  A and B   and   True if A else B  ==  A or B   when A itself is a bool (a predicate call, a comparison, a `not`)
            def _boolean(t):
                return isinstance(t, ast.Compare) or (isinstance(t, ast.UnaryOp) and isinstance(t.op, ast.Not)) or \
                    (isinstance(t, ast.Call) and isinstance(t.func, ast.Name) and (t.func.id.startswith('is_') or t.func.id in ('isinstance', 'issubclass', 'callable', 'hasattr', 'bool'))) or \
                    (isinstance(t, ast.BoolOp) and all(_boolean(v) for v in t.values))
            if isinstance(n.orelse, ast.Constant) and n.orelse.value is False and _boolean(n.test):
                return self.visit_BoolOp(ast.BoolOp(op=ast.And(), values=[n.test, n.body]))
            if isinstance(n.body, ast.Constant) and n.body.value is True and _boolean(n.test):
                return self.visit_BoolOp(ast.BoolOp(op=ast.Or(), values=[n.test, n.orelse]))
            # x if x else y  ==  x or y   (x a plain name: reading it twice changes nothing)
            if isinstance(n.test, ast.Name) and isinstance(n.body, ast.Name) and n.body.id == n.test.id:
                return self.visit_BoolOp(ast.BoolOp(op=ast.Or(), values=[n.test, n.orelse]))
            if isinstance(n.test, ast.Name) and isinstance(n.orelse, ast.Name) and n.orelse.id == n.test.id:
                return self.visit_BoolOp(ast.BoolOp(op=ast.And(), values=[n.test, n.body]))
            return n

        def visit_BoolOp(self, n):
            self.generic_visit(n)
            # (a and b) and c == a and b and c: same operands evaluated in the same order with the same short-circuit
            vals = []
            for v in n.values:
                if isinstance(v, ast.BoolOp) and type(v.op) is type(n.op):
                    vals.extend(v.values)
                else:
                    vals.append(v)
            n.values = vals
            return n

        def visit_Raise(self, n):
            self.generic_visit(n)
            # the text of an exception message is not behaviour any property here speaks about: raise E('..' % x) == raise E(f'..{x}')
            if isinstance(n.exc, ast.Call) and isinstance(n.exc.func, (ast.Name, ast.Attribute)) and n.exc.args and not n.exc.keywords:
                return ast.Raise(exc=ast.Call(func=n.exc.func, args=[ast.Constant('...')], keywords=[]), cause=n.cause)
            return n

        def visit_Call(self, n):
            self.generic_visit(n)
            # dict(a=1, b=2) and {'a': 1, 'b': 2} are the same value
            if isinstance(n.func, ast.Name) and n.func.id == 'dict' and not n.args and n.keywords and all(k.arg is not None for k in n.keywords):
                return ast.Dict(keys=[ast.Constant(k.arg) for k in n.keywords], values=[k.value for k in n.keywords])
            # tuple(e for ..) and tuple([e for ..]) build the same value (the consumer exhausts its argument at once)
            if isinstance(n.func, ast.Name) and n.func.id in ('tuple', 'list', 'set', 'frozenset', 'sorted', 'sum', 'min', 'max', 'dict') and len(n.args) >= 1 \
                    and isinstance(n.args[0], ast.GeneratorExp):
                n.args[0] = ast.ListComp(elt=n.args[0].elt, generators=n.args[0].generators)
            if isinstance(n.func, ast.Name) and n.func.id == 'sum' and len(n.args) == 2 and not n.keywords and isinstance(n.args[1], ast.List) and not n.args[1].elts \
                    and isinstance(n.args[0], ast.ListComp) and isinstance(n.args[0].elt, ast.ListComp):
                # sum([[e for a in A] for b in B], [])  ==  [e for b in B for a in A]   (concatenation of the inner lists in order)
                outer, inner = n.args[0], n.args[0].elt
                return ast.ListComp(elt=inner.elt, generators=list(outer.generators) + list(inner.generators))
            if isinstance(n.func, ast.Name) and n.func.id in ('isinstance', 'issubclass') and len(n.args) == 2 and not n.keywords and isinstance(n.args[1], ast.Tuple) \
                    and all(isinstance(x, (ast.Name, ast.Attribute)) for x in n.args[1].elts):
                # isinstance(x, (A, B)) == isinstance(x, (B, A))
                if sort_comm:
                    n.args[1] = ast.Tuple(elts=sorted(n.args[1].elts, key=U), ctx=ast.Load())
            if isinstance(n.func, ast.Name) and n.func.id == 'dict' and len(n.args) == 1 and not n.keywords and isinstance(n.args[0], ast.Call) and isinstance(n.args[0].func, ast.Name) \
                    and n.args[0].func.id == 'enumerate' and len(n.args[0].args) == 1 and not n.args[0].keywords and _plain_operand(n.args[0].args[0]):
                X = n.args[0].args[0]          # dict(enumerate(X)) == dict(zip(range(len(X)), X))
                rng = ast.Call(func=ast.Name(id='range', ctx=ast.Load()), args=[ast.Call(func=ast.Name(id='len', ctx=ast.Load()), args=[X], keywords=[])], keywords=[])
                return ast.Call(func=ast.Name(id='dict', ctx=ast.Load()), args=[ast.Call(func=ast.Name(id='zip', ctx=ast.Load()), args=[rng, X], keywords=[])], keywords=[])
            if isinstance(n.func, ast.Name) and n.func.id == 'set' and len(n.args) == 1 and not n.keywords and isinstance(n.args[0], ast.ListComp):
                return ast.SetComp(elt=n.args[0].elt, generators=n.args[0].generators)       # set([e for ..]) == {e for ..}
            return n

        def visit_Compare(self, n):
            self.generic_visit(n)
            if len(n.ops) > 1 and all(isinstance(c, (ast.Name, ast.Constant, ast.Attribute)) for c in n.comparators[:-1]):
                # a < i < b  ==  a < i and i < b   (the middle operands are plain names / constants: evaluating them twice changes nothing)
                parts, left = [], n.left
                for op, right in zip(n.ops, n.comparators):
                    parts.append(self.visit_Compare(ast.Compare(left, [op], [right])))
                    left = right
                return ast.BoolOp(ast.And(), parts)
            if len(n.ops) == 1:
                op, a, b = n.ops[0], n.left, n.comparators[0]
                if type(op) in _FLIP:
                    return ast.Compare(b, [_FLIP[type(op)]()], [a])
                if sort_comm and isinstance(op, _COMM) and U(a) > U(b):
                    return ast.Compare(b, [op], [a])
            return n
    return ast.fix_missing_locations(T().visit(e))


def N(e):
    """canonical text of an expression."""
    return U(canon(e))


def NS(text):
    """canonical text of an expression given as source"""
    return N(ast.parse(text, mode='eval').body)


def conjuncts(t):
    if isinstance(t, ast.BoolOp) and isinstance(t.op, ast.And):
        out = []
        for v in t.values:
            out.extend(conjuncts(v))
        return out
    return [t]


def disjuncts(t):
    if isinstance(t, ast.BoolOp) and isinstance(t.op, ast.Or):
        out = []
        for v in t.values:
            out.extend(disjuncts(v))
        return out
    return [t]


def if_chain(s, extend=True, nodes=False):
    """[(test or None, body)] of an if/elif/else statement. After else-elimination (sa/normal.py) a chain of returning branches is a
    run of sibling `if`s: when every branch so far always terminates, the following sibling `if`s continue the chain and whatever
    follows them is the else-branch (so `if a: return x` / `if b: return y` / `return z` reads as if/elif/else)."""
    from .normal import terminates
    chain = []
    cur = s
    all_term = True
    while True:
        chain.append((cur.test, cur.body, cur) if nodes else (cur.test, cur.body))
        all_term = all_term and terminates(cur.body)
        if len(cur.orelse) == 1 and isinstance(cur.orelse[0], ast.If):
            cur = cur.orelse[0]
            continue
        if cur.orelse:
            chain.append((None, cur.orelse, None) if nodes else (None, cur.orelse))
            break
        nxt = getattr(cur, '_next', None)
        if extend and all_term and nxt:
            if isinstance(nxt[0], ast.If):
                cur = nxt[0]
                continue
            chain.append((None, nxt, None) if nodes else (None, nxt))
        break
    return chain


def else_of(s):
    """the statements executed when the test of `if` statement s is false: its else-branch, or (after else-elimination, when the body
    always terminates) the statements that follow it in its block"""
    from .normal import terminates
    if s.orelse:
        return s.orelse
    if terminates(s.body):
        return list(getattr(s, '_next', None) or [])
    return []


def ifexp_chain(e):
    """[(test or None, value)] of nested conditional expressions a if t else b if u else c."""
    out = []
    while isinstance(e, ast.IfExp):
        out.append((e.test, e.body))
        e = e.orelse
    out.append((None, e))
    return out


# --------------------------------------------------------------------------------------------- matcher (E7)

_MV = re.compile(r'\$([A-Za-z_][A-Za-z0-9_]*)')


def pat(src, mode='expr'):
    """compile a pattern: Python syntax with $X metavariables ($_ = wildcard, $X binds an expression, same name unifies)."""
    text = _MV.sub(lambda m: '__mv_' + m.group(1), src)
    t = ast.parse(text)
    if mode == 'expr':
        assert len(t.body) == 1 and isinstance(t.body[0], ast.Expr), src
        return t.body[0].value
    return t.body[0] if len(t.body) == 1 else t.body


def _mv(n):
    if isinstance(n, ast.Name) and n.id.startswith('__mv_'):
        return n.id[5:]
    return None


def match(node, p, b=None, comm=True):
    """structural match of `node` against pattern `p`; returns bindings dict or None."""
    b = {} if b is None else b
    v = _mv(p)
    if v is not None:
        if v == '_':
            return b
        if v in b:
            return b if ast.dump(b[v]) == ast.dump(node) else None
        b[v] = node
        return b
    if isinstance(p, ast.arg) and p.arg.startswith('__mv_'):
        v = p.arg[5:]
        if not isinstance(node, ast.arg):
            return None
        if v != '_':
            if v in b and U(b[v]) != node.arg:
                return None
            b[v] = ast.Name(node.arg, ast.Load())
        return b
    if type(node) != type(p):
        return None
    if isinstance(p, ast.Compare) and comm and len(p.ops) == 1 and len(getattr(node, 'ops', [])) == 1:
        # orientation-insensitive: try canonical orientation of both
        a, c = canon(node), canon(p)
        if type(a) == type(c) == ast.Compare and type(a.ops[0]) == type(c.ops[0]):
            for la, ra in (((a.left, a.comparators[0]),) + (((a.comparators[0], a.left),) if isinstance(a.ops[0], _COMM) else ())):
                bb = dict(b)
                if match(la, c.left, bb, comm) is not None and match(ra, c.comparators[0], bb, comm) is not None:
                    b.update(bb)
                    return b
            return None
    for f in p._fields:
        if f in ('ctx', 'lineno', 'col_offset', 'end_lineno', 'end_col_offset', 'type_comment', 'kind'):
            continue
        pv, nv = getattr(p, f, None), getattr(node, f, None)
        if isinstance(pv, list):
            if not isinstance(nv, list) or len(pv) != len(nv):
                return None
            for x, y in zip(nv, pv):
                if isinstance(y, ast.AST):
                    if match(x, y, b, comm) is None:
                        return None
                elif x != y:
                    return None
        elif isinstance(pv, ast.AST):
            if not isinstance(nv, ast.AST) or match(nv, pv, b, comm) is None:
                return None
        else:
            if isinstance(pv, str) and pv.startswith('__mv_'):
                continue
            if pv != nv:
                return None
    return b


def find(root, p, within=None):
    """all (node, bindings) under root matching compiled pattern p (expression or single statement)."""
    if isinstance(p, str):
        p = pat(p, 'stmt' if ('=' in p.split('(')[0] and '==' not in p.split('(')[0]) else 'expr')
    out = []
    nodes = within if within is not None else ast.walk(root)
    for n in nodes:
        if type(n) == type(p) or _mv(p):
            b = match(n, p, {})
            if b is not None:
                out.append((n, b))
    out.sort(key=lambda x: (getattr(x[0], 'lineno', 0), getattr(x[0], 'col_offset', 0)))
    return out


def has(root, p):
    return bool(find(root, p))


# --------------------------------------------------------------------------------------------- paths (E2)

class Path:
    __slots__ = ('conds', 'stmts', 'term', 'value', 'node', 'seq')

    def __init__(self, conds=(), stmts=(), term=None, value=None, node=None, seq=()):
        self.conds, self.stmts, self.term, self.value, self.node, self.seq = list(conds), list(stmts), term, value, node, list(seq)

    def ext(self, cond=None, stmt=None):
        """seq keeps conditions and statements in execution order: ('c', test, polarity) / ('s', stmt)"""
        p = Path(self.conds, self.stmts, self.term, self.value, self.node, self.seq)
        if cond is not None:
            p.conds.append(cond)
            p.seq.append(('c', cond[0], cond[1]))
        if stmt is not None:
            p.stmts.append(stmt)
            p.seq.append(('s', stmt))
        return p

    def assumes(self, text, polarity=True):
        for c, pol in self.conds:
            if isinstance(c, ast.AST) and N(c) == text and pol == polarity:
                return True
        return False

    def atoms(self):
        """[(canonical text, polarity, node)] of the atomic facts the path's conditions imply: conjuncts of a test assumed true,
        disjuncts of a test assumed false (with `not` pushed through)"""
        out = []

        def add(e, pol):
            if isinstance(e, ast.UnaryOp) and isinstance(e.op, ast.Not):
                add(e.operand, not pol)
            elif isinstance(e, ast.BoolOp) and isinstance(e.op, ast.And) and pol:
                for v in e.values:
                    add(v, True)
            elif isinstance(e, ast.BoolOp) and isinstance(e.op, ast.Or) and not pol:
                for v in e.values:
                    add(v, False)
            else:
                out.append((N(e), pol, e))
        for c, pol in self.conds:
            if isinstance(c, ast.AST):
                add(c, pol)
        return out

    def cond_texts(self):
        return [('' if pol else 'not ') + (N(c) if isinstance(c, ast.AST) else str(c)) for c, pol in self.conds]

    def __repr__(self):
        return '<Path %s -> %s %s>' % (' & '.join(self.cond_texts()), self.term, U(self.value) if self.value is not None else '')


def paths(stmts, bound=4096, unroll=1):
    """enumerate paths through a statement list. Conditions are (test, polarity); loops run 0..unroll times with the
    pseudo-conditions ('enter', loop) / ('skip', loop). Each finished path has term in {'return','raise','fall','break','continue'}."""
    done = []

    def run(block, ps):
        """advance the live paths `ps` through block; returns live paths (finished ones go to `done`)."""
        for s in block:
            if not ps:
                break
            if len(ps) + len(done) > bound:
                raise AnalysisError('path bound %d exceeded' % bound)
            ps = step(s, ps)
        return ps

    def finish(p, term, value, node):
        q = p.ext()
        q.term, q.value, q.node = term, value, node
        done.append(q)

    def step(s, ps):
        if isinstance(s, ast.Return):
            for p in ps:
                finish(p.ext(stmt=s), 'return', s.value, s)
            return []
        if isinstance(s, ast.Raise):
            for p in ps:
                finish(p.ext(stmt=s), 'raise', s.exc, s)
            return []
        if isinstance(s, (ast.Break, ast.Continue)):
            for p in ps:
                finish(p.ext(stmt=s), 'break' if isinstance(s, ast.Break) else 'continue', None, s)
            return []
        if isinstance(s, ast.If):
            a = run(s.body, [p.ext(cond=(s.test, True)) for p in ps])
            b = run(s.orelse, [p.ext(cond=(s.test, False)) for p in ps])
            return a + b
        if isinstance(s, (ast.For, ast.AsyncFor, ast.While)):
            test = s.test if isinstance(s, ast.While) else None
            out = []
            live = ps
            for k in range(unroll + 1):
                # exit now
                out.extend([p.ext(cond=((test, False) if (test is not None and k == 0) else (('exit', s), True))) for p in live])
                if k == unroll:
                    break
                n0 = len(done)
                ent = [p.ext(cond=((test, True) if (test is not None and k == 0) else (('enter', s), True)), stmt=s) for p in live]
                live = run(s.body, ent)
                # break/continue terminate the iteration: re-open them
                reopened = []
                for q in done[n0:]:
                    if q.term == 'break' and q.node is not None and _belongs(q.node, s):
                        q2 = q.ext(); q2.term = None
                        out.append(q2)
                    elif q.term == 'continue' and _belongs(q.node, s):
                        q2 = q.ext(); q2.term = None
                        live.append(q2)
                    else:
                        reopened.append(q)
                del done[n0:]
                done.extend(reopened)
            if s.orelse:
                out = run(s.orelse, out)
            return out
        if isinstance(s, ast.Try):
            n0 = len(done)
            body = run(s.body, [p.ext(cond=(('try', s), True)) for p in ps])
            if s.orelse:
                body = run(s.orelse, body)
            outs = list(body)
            for h in s.handlers:
                hs = run(h.body, [p.ext(cond=(('except', h), True)) for p in ps])
                outs.extend(hs)
            if s.finalbody:
                outs = run(s.finalbody, outs)
            return outs
        if isinstance(s, (ast.With, ast.AsyncWith)):
            return run(s.body, [p.ext(stmt=s) for p in ps])
        return [p.ext(stmt=s) for p in ps]

    def _belongs(node, loop):
        for n in ast.walk(loop):
            if n is node:
                # innermost loop containing node must be `loop`
                for m in ast.walk(loop):
                    if m is not loop and isinstance(m, (ast.For, ast.While, ast.AsyncFor)) and any(x is node for x in ast.walk(m)):
                        return False
                return True
        return False

    live = run(stmts, [Path()])
    for p in live:
        finish(p, 'fall', None, None)
    return done


# --------------------------------------------------------------------------------------------- prop (E3)

def truth_table(atoms, formula, axioms=(), limit=16):
    """all assignments of boolean atoms satisfying every axiom for which formula is False (falsifying assignments)."""
    atoms = list(atoms)
    if len(atoms) > limit:
        raise AnalysisError('propositional problem with %d atoms exceeds the bound %d' % (len(atoms), limit))
    bad = []
    for bits in itertools.product([False, True], repeat=len(atoms)):
        env = dict(zip(atoms, bits))
        if all(ax(env) for ax in axioms) and not formula(env):
            bad.append(env)
    return bad


def _len_atom(e):
    """(expression whose emptiness is tested, polarity) for the spellings of "is empty / is not empty":
    len(X) == 0, not len(X), len(X) < 1, 0 == len(X) -> (X, False);  len(X), len(X) > 0, len(X) != 0, len(X) >= 1 -> (X, True);
    (a bare name tested for truth is NOT included: it may be a boolean flag)."""
    def is_len(x):
        return isinstance(x, ast.Call) and isinstance(x.func, ast.Name) and x.func.id == 'len' and len(x.args) == 1 and not x.keywords
    if is_len(e):
        return e.args[0], True
    if isinstance(e, ast.Compare) and len(e.ops) == 1:
        l, op, r = e.left, e.ops[0], e.comparators[0]
        if is_len(r) and isinstance(l, ast.Constant):       # const OP len(X)  ->  len(X) OP' const
            flip = {ast.Lt: ast.Gt, ast.Gt: ast.Lt, ast.LtE: ast.GtE, ast.GtE: ast.LtE, ast.Eq: ast.Eq, ast.NotEq: ast.NotEq}
            if type(op) in flip:
                l, op, r = r, flip[type(op)](), l
        if is_len(l) and isinstance(r, ast.Constant) and isinstance(r.value, int) and not isinstance(r.value, bool):
            k = r.value
            if (isinstance(op, ast.Eq) and k == 0) or (isinstance(op, ast.Lt) and k == 1) or (isinstance(op, ast.LtE) and k == 0):
                return l.args[0], False
            if (isinstance(op, ast.NotEq) and k == 0) or (isinstance(op, ast.Gt) and k == 0) or (isinstance(op, ast.GtE) and k == 1):
                return l.args[0], True
    return None


LIST_NAMES = {}          # name -> first line from which it may hold something else than a builtin list/dict (set by rules around a truth-table call)


def _atom_key(e, atom):
    """(key, positive?) of an atomic test: emptiness tests are one atom per tested expression"""
    la = _len_atom(e)
    if la is not None:
        return 'nonempty(%s)' % atom(la[0]), la[1]
    if isinstance(e, ast.Name) and e.id in LIST_NAMES and getattr(e, 'lineno', 1e9) < LIST_NAMES[e.id]:
        return 'nonempty(%s)' % atom(e), True          # the truth value of a builtin list / dict is "not empty"
    if isinstance(e, ast.Name) and getattr(e, '_container', False):
        return 'nonempty(%s)' % atom(e), True          # marked by mark_containers: a builtin list / tuple / dict / set at this very position
    return atom(e), True


_BUILTIN_CONTAINERS = ('list', 'tuple', 'dict', 'set', 'frozenset')


def mark_containers(fn_node):
    """set `_container = True` on every read of a local name at a position where the name certainly holds a builtin list / tuple / dict / set,
    so that `not x` and `len(x) == 0` are one atom there. Certain means: the last UNCONDITIONAL (top-level) binding before the read builds
    such a value (display, comprehension, list()/sorted()/as_list()/dict()/set()/tuple()/as_tuple() call, concatenation, *args / **kwargs
    parameter), and no binding between it and the read - nor any binding inside a loop that encloses the read - builds anything else; or
    the read stands in the body of `if isinstance(x, <builtin containers>)` with x not rebound there."""
    def builds(v, ok):
        if isinstance(v, (ast.List, ast.ListComp, ast.Dict, ast.DictComp, ast.Set, ast.SetComp, ast.Tuple)):
            return True
        if isinstance(v, ast.Call) and isinstance(v.func, ast.Name) and v.func.id in ('list', 'sorted', 'as_list', 'as_tuple', 'dict', 'set', 'tuple', 'frozenset') and not any(isinstance(a, ast.Starred) for a in v.args):
            return True
        if isinstance(v, ast.BinOp) and isinstance(v.op, ast.Add):
            return builds(v.left, ok) and builds(v.right, ok)
        if isinstance(v, ast.Name):
            return ok(v)
        if isinstance(v, ast.IfExp):
            return builds(v.body, ok) and builds(v.orelse, ok)
        return False
    order = {}
    k = 0
    def number(n):
        nonlocal k
        order[id(n)] = k
        k += 1
        for c in ast.iter_child_nodes(n):
            if not isinstance(c, (ast.expr_context, ast.operator, ast.cmpop, ast.boolop, ast.unaryop)):      # shared singletons
                number(c)
    try:
        number(fn_node)
    except RecursionError:
        return 0
    end_of = {}
    def last(n):
        m = order[id(n)]
        for c in ast.iter_child_nodes(n):
            if not isinstance(c, (ast.expr_context, ast.operator, ast.cmpop, ast.boolop, ast.unaryop)):
                m = max(m, last(c))
        end_of[id(n)] = m
        return m
    last(fn_node)
    a = fn_node.args
    events = {}      # name -> [(position, builds?, unconditional?, (loop start, loop end) or None)]
    for x in a.posonlyargs + a.args + a.kwonlyargs:
        events.setdefault(x.arg, []).append((0, False, True, None))
    for x, b in ((a.vararg, True), (a.kwarg, True)):
        if x is not None:
            events.setdefault(x.arg, []).append((0, b, True, None))
    top = {id(s) for s in fn_node.body}
    marked = [0]

    def scan(stmts, loop):
        for s in stmts:
            if isinstance(s, (ast.FunctionDef, ast.AsyncFunctionDef, ast.ClassDef)):
                events.setdefault(s.name, []).append((order[id(s)], False, id(s) in top, loop))
                continue
            if isinstance(s, ast.Assign) and len(s.targets) == 1 and isinstance(s.targets[0], ast.Name):
                events.setdefault(s.targets[0].id, []).append((end_of[id(s)], ('v', s.value), id(s) in top, loop))
            else:
                hdr = [s] if not hasattr(s, 'body') else []
                if isinstance(s, (ast.For, ast.AsyncFor)):
                    hdr = [s.target]
                elif isinstance(s, (ast.With, ast.AsyncWith)):
                    hdr = [i.optional_vars for i in s.items if i.optional_vars is not None]
                for h in hdr:
                    for m in ast.walk(h):
                        if isinstance(m, ast.Name) and isinstance(m.ctx, (ast.Store, ast.Del)):
                            events.setdefault(m.id, []).append((order[id(m)], False, False, loop))
                        elif isinstance(m, ast.NamedExpr) and isinstance(m.target, ast.Name):
                            events.setdefault(m.target.id, []).append((order[id(m)], False, False, loop))
            for m in ast.walk(s) if not hasattr(s, 'body') else ([s.test] if hasattr(s, 'test') else [getattr(s, 'iter', None)] if hasattr(s, 'iter') else []):
                for mm in (ast.walk(m) if m is not None else []):
                    if isinstance(mm, ast.NamedExpr) and isinstance(mm.target, ast.Name):
                        events.setdefault(mm.target.id, []).append((order[id(mm)], False, False, loop))
            if isinstance(s, ast.Try):
                for h in s.handlers:
                    if h.name:
                        events.setdefault(h.name, []).append((order[id(h)], False, False, loop))
                    scan(h.body, loop)
            inner = (order[id(s)], end_of[id(s)]) if isinstance(s, (ast.For, ast.While, ast.AsyncFor)) else loop
            for f in ('body', 'orelse', 'finalbody'):
                v = getattr(s, f, None)
                if isinstance(v, list) and v and isinstance(v[0], ast.stmt):
                    scan(v, inner)
    scan(fn_node.body, None)

    def container_at(name, pos, depth=0):
        evs = sorted(events.get(name, []), key=lambda e: e[0])
        if not evs or depth > 4:
            return False
        state = False
        for p, b, uncond, loop in evs:
            if isinstance(b, tuple):
                b = builds(b[1], lambda nm, p=p: container_at(nm.id, order[id(nm)], depth + 1))
            if p < pos:
                if b and uncond:
                    state = True
                elif not b:
                    state = False
            elif not b and loop is not None and loop[0] <= pos <= loop[1]:
                return False          # rebound later in a loop that encloses the read: the next iteration sees it
        return state

    def guarded(n, pm):
        """inside the body of `if isinstance(x, (list, ...))` without a rebinding of x in that body"""
        cur = n
        while id(cur) in pm:
            par = pm[id(cur)]
            if isinstance(par, ast.If) and any(cur is b for b in par.body):
                for c in conjuncts(par.test):
                    if isinstance(c, ast.Call) and isinstance(c.func, ast.Name) and c.func.id == 'isinstance' and len(c.args) == 2 and isinstance(c.args[0], ast.Name) and c.args[0].id == n.id:
                        tps = c.args[1].elts if isinstance(c.args[1], ast.Tuple) else [c.args[1]]
                        if all(isinstance(t, ast.Name) and t.id in _BUILTIN_CONTAINERS for t in tps):
                            lo, hi = order[id(par)], end_of[id(par)]
                            if not any(lo <= p <= hi for p, b, u, l in events.get(n.id, []) if p > 0):
                                return True
            cur = par
        return False
    pm = {}
    for n in ast.walk(fn_node):
        for c in ast.iter_child_nodes(n):
            pm[id(c)] = n
    def shadowed(n):
        """inside a nested def / lambda (evaluated later) or a comprehension that binds the same name"""
        cur = n
        while id(cur) in pm:
            cur = pm[id(cur)]
            if cur is fn_node:
                return False
            if isinstance(cur, (ast.FunctionDef, ast.AsyncFunctionDef, ast.Lambda, ast.ClassDef)):
                return True
            if isinstance(cur, (ast.ListComp, ast.SetComp, ast.DictComp, ast.GeneratorExp)):
                if any(isinstance(m, ast.Name) and m.id == n.id for g in cur.generators for m in ast.walk(g.target)):
                    return True
        return False
    for n in ast.walk(fn_node):
        if isinstance(n, ast.Name) and isinstance(n.ctx, ast.Load) and n.id in events and not shadowed(n):
            if container_at(n.id, order[id(n)]) or guarded(n, pm):
                n._container = True
                marked[0] += 1
    return marked[0]


def container_names(fn_node):
    """local names every assignment of which builds a builtin list / dict / set (display, comprehension, list()/sorted()/as_list()/dict()
    call, concatenation of such): for these `not x` is `len(x) == 0`"""
    def builds(v, known):
        if isinstance(v, (ast.List, ast.ListComp, ast.Dict, ast.DictComp, ast.Set, ast.SetComp)):
            return True
        if isinstance(v, ast.Call) and isinstance(v.func, ast.Name) and v.func.id in ('list', 'sorted', 'as_list', 'dict', 'set'):
            return True
        if isinstance(v, ast.BinOp) and isinstance(v.op, ast.Add):
            return builds(v.left, known) and builds(v.right, known)
        if isinstance(v, ast.Name):
            return v.id in known
        if isinstance(v, ast.IfExp):
            return builds(v.body, known) and builds(v.orelse, known)
        return False
    assigns = {}
    for n in ast.walk(fn_node):
        if isinstance(n, ast.Assign) and len(n.targets) == 1 and isinstance(n.targets[0], ast.Name):
            assigns.setdefault(n.targets[0].id, []).append((n.value, n.lineno))
        elif isinstance(n, (ast.AugAssign, ast.For, ast.With)) or isinstance(n, ast.arg):
            t = getattr(n, 'target', None)
            for m in ast.walk(t) if t is not None else []:
                if isinstance(m, ast.Name):
                    assigns.setdefault(m.id, []).append((None, getattr(n, 'lineno', 0)))
            if isinstance(n, ast.arg):
                assigns.setdefault(n.arg, []).append((None, 0))
    known = {}
    for _ in range(3):
        for k, vs in assigns.items():
            vs = sorted(vs, key=lambda x: x[1])
            limit = 1e9
            for v, ln in vs:
                if v is None or not builds(v, {kk for kk, lim in known.items() if ln < lim}):
                    limit = ln
                    break
            if limit > vs[0][1]:
                known[k] = limit
    return known


def bool_eval(e, env, atom=N):
    """evaluate a boolean AST under an assignment of its atoms (atoms are maximal non and/or/not sub-expressions)."""
    if isinstance(e, ast.BoolOp):
        vals = [bool_eval(v, env, atom) for v in e.values]
        return all(vals) if isinstance(e.op, ast.And) else any(vals)
    if isinstance(e, ast.UnaryOp) and isinstance(e.op, ast.Not):
        return not bool_eval(e.operand, env, atom)
    if isinstance(e, ast.Constant) and isinstance(e.value, bool):
        return e.value
    k, pos = _atom_key(e, atom)
    if k in env:
        return env[k] if pos else not env[k]
    k = atom(e)
    if k in env:
        return env[k]
    nk = atom(negate(e))
    if nk in env:
        return not env[nk]
    raise AnalysisError('atom %s has no value' % k)


def bool_atoms(e, atom=N):
    if isinstance(e, ast.BoolOp):
        out = []
        for v in e.values:
            for a in bool_atoms(v, atom):
                if a not in out:
                    out.append(a)
        return out
    if isinstance(e, ast.UnaryOp) and isinstance(e.op, ast.Not):
        return bool_atoms(e.operand, atom)
    if isinstance(e, ast.Constant) and isinstance(e.value, bool):
        return []
    return [_atom_key(e, atom)[0]]


# --------------------------------------------------------------------------------------------- tables (E6)

def dispatch_table(chain, subject=None):
    """from an if/elif chain [(test, body)] extract [(kind, key(s), body)] for the recognised test forms:
    X == lit | X in (lits) | X.endswith(lit) | X.startswith(lit) | X[0].lower() == lit | isinstance(X, T)."""
    rows = []
    for test, body in chain:
        if test is None:
            rows.append(('else', None, body))
            continue
        rows.append(classify_test(test) + (body,))
    return rows


def classify_test(t):
    t0 = t
    if isinstance(t, ast.Compare) and len(t.ops) == 1:
        op, a, b = t.ops[0], t.left, t.comparators[0]
        if isinstance(op, ast.Eq):
            if isinstance(b, ast.Constant):
                return ('eq:' + U(a), (b.value,))
            if isinstance(a, ast.Constant):
                return ('eq:' + U(b), (a.value,))
        if isinstance(op, ast.In) and isinstance(b, (ast.Tuple, ast.List, ast.Set)) and all(isinstance(x, ast.Constant) for x in b.elts):
            return ('eq:' + U(a), tuple(x.value for x in b.elts))
        if isinstance(op, ast.In) and isinstance(b, ast.Constant) and isinstance(b.value, str):
            return ('eq:' + U(a), tuple(b.value))
    if isinstance(t, ast.Call) and isinstance(t.func, ast.Attribute) and t.func.attr in ('endswith', 'startswith') and len(t.args) == 1:
        a = t.args[0]
        if isinstance(a, ast.Constant):
            return (t.func.attr + ':' + U(t.func.value), (a.value,))
        if isinstance(a, ast.Tuple) and all(isinstance(x, ast.Constant) for x in a.elts):
            return (t.func.attr + ':' + U(t.func.value), tuple(x.value for x in a.elts))
    if isinstance(t, ast.Call) and isinstance(t.func, ast.Name) and t.func.id == 'isinstance' and len(t.args) == 2:
        tt = t.args[1]
        ts = tuple(U(x) for x in tt.elts) if isinstance(tt, ast.Tuple) else (U(tt),)
        return ('isinstance:' + U(t.args[0]), ts)
    return ('other', (U(t0),))


def dict_literal(e):
    """{key: value-ast} for a dict display or dict(k=v) call with constant keys."""
    if isinstance(e, ast.Dict):
        out = {}
        for k, v in zip(e.keys, e.values):
            if k is None or not isinstance(k, ast.Constant):
                raise AnalysisError('dict literal with non-constant key: %s' % U(e)[:80])
            out[k.value] = v
        return out
    if isinstance(e, ast.Call) and isinstance(e.func, ast.Name) and e.func.id == 'dict' and not e.args:
        return {k.arg: k.value for k in e.keywords if k.arg}
    raise AnalysisError('not a dict literal: %s' % U(e)[:80])


def regex_info(pattern_text, flags=0):
    """structural facts about a regex via the stdlib regex parser: anchored at start/end, sequence of items."""
    import re._parser as sp
    p = sp.parse(pattern_text, flags)
    items = list(p)
    info = dict(anchored_start=False, anchored_end=False, items=[])
    for op, av in items:
        name = str(op)
        if name == 'AT':
            if str(av) in ('AT_BEGINNING', 'AT_BEGINNING_STRING'):
                info['anchored_start'] = True
            if str(av) in ('AT_END', 'AT_END_STRING'):
                info['anchored_end'] = True
            continue
        info['items'].append(_re_item(op, av))
    return info


def _re_item(op, av):
    name = str(op)
    if name == 'LITERAL':
        return dict(kind='set', chars={chr(av)}, min=1, max=1)
    if name == 'IN':
        return dict(kind='set', chars=_re_set(av), min=1, max=1)
    if name in ('MAX_REPEAT', 'MIN_REPEAT'):
        lo, hi, sub = av
        sub = list(sub)
        if len(sub) == 1:
            it = _re_item(*sub[0])
            it = dict(it)
            it['min'], it['max'] = lo, (None if str(hi) == 'MAXREPEAT' else hi)
            return it
        return dict(kind='group', min=lo, max=hi, items=[_re_item(*x) for x in sub])
    if name == 'SUBPATTERN':
        return dict(kind='group', min=1, max=1, items=[_re_item(*x) for x in av[3]])
    if name == 'BRANCH':
        return dict(kind='branch', min=1, max=1, alts=[[_re_item(*x) for x in alt] for alt in av[1]])
    return dict(kind=name.lower(), min=1, max=1)


def _re_set(av):
    chars = set()
    for op, v in av:
        name = str(op)
        if name == 'LITERAL':
            chars.add(chr(v))
        elif name == 'RANGE':
            lo, hi = v
            chars |= {chr(c) for c in range(lo, hi + 1)}
        elif name == 'CATEGORY':
            chars.add('<%s>' % v)
        else:
            chars.add('<%s>' % name)
    return chars


def regex_literal(repo, mod, name):
    """(pattern text, flags int) of a module-level `name = re.compile('...')`."""
    m, v = repo.module_value(mod, name)
    if not (isinstance(v, ast.Call) and call_name(v) == 'compile' and v.args):
        raise AnalysisError('%s.%s is not a re.compile(...) literal' % (mod, name))
    a = v.args[0]
    flags = 0
    if len(v.args) > 1 or v.keywords:
        ftxt = U(v.args[1]) if len(v.args) > 1 else U(v.keywords[0].value)
        if 'IGNORECASE' in ftxt or ftxt.endswith('.I'):
            flags |= re.IGNORECASE
    if isinstance(a, ast.Constant) and isinstance(a.value, str):
        return a.value, flags
    raise AnalysisError('%s.%s pattern is not a plain string literal' % (mod, name))


def prop_equiv(test, expected_src, atom=N):
    """truth-table equivalence of a boolean AST with an expected formula (source text) over the union of their atoms.
    Returns (True, None) or (False, falsifying assignment). Robust to any propositionally equivalent rewrite."""
    exp = ast.parse(expected_src, mode='eval').body
    atoms = []
    for a in bool_atoms(test, atom) + bool_atoms(exp, atom):
        na = atom(negate(ast.parse(a, mode='eval').body))
        if a not in atoms and na not in atoms:
            atoms.append(a)
    if len(atoms) > 12:
        raise AnalysisError('too many atoms for a truth table: %d' % len(atoms))
    for bits in itertools.product([False, True], repeat=len(atoms)):
        env = dict(zip(atoms, bits))
        if bool_eval(test, env, atom) != bool_eval(exp, env, atom):
            return False, env
    return True, None
