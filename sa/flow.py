"""E5 FLOW - small gen/kill dataflow instances over the structured AST (taint, typestate, def-use)."""
import ast
from .au import U, N, conjuncts, call_name, kw, body_nodes
from .core import AnalysisError


# ------------------------------------------------------------------ TAINT(empty-records)
def _is_records_source(e):
    """type(self)([row for row in X if ...]) / cls([...if...]): a table built by the records constructor from a
    filtered comprehension loses every column when no row survives (dict_concat([]) == {})."""
    if not isinstance(e, ast.Call) or e.keywords or len(e.args) != 1:
        return False
    f = e.func
    ctor = (isinstance(f, ast.Call) and isinstance(f.func, ast.Name) and f.func.id == 'type') or (isinstance(f, ast.Name) and f.id in ('cls', 'dictable'))
    a = e.args[0]
    return bool(ctor and isinstance(a, ast.ListComp) and any(g.ifs for g in a.generators))


def _len_nonzero_true(t, name):
    """test true => len(name) != 0"""
    for c in conjuncts(t):
        s = N(c)
        if s in ('len(%s)' % name, 'len(%s) != 0' % name, '0 < len(%s)' % name, '1 <= len(%s)' % name, 'len(%s) > 0' % name):
            return True
    return False


def _len_zero_test(t, name):
    """test true <=> len(name) == 0 (so the fall-through has rows, hence columns)"""
    return N(t) in ('len(%s) == 0' % name, '0 == len(%s)' % name, 'not len(%s)' % name, 'len(%s) < 1' % name, '1 > len(%s)' % name)


class EmptyRecordsTaint:
    def __init__(self, fn):
        self.fn = fn
        self.reports = []   # (node, msg)
        self.sources = 0
        self.loop_exits = []

    def uses(self, e, tainted):
        for n in ast.walk(e):
            if isinstance(n, ast.Subscript) and isinstance(n.value, ast.Name) and n.value.id in tainted and not isinstance(n.slice, ast.Slice):
                if not isinstance(n.slice, (ast.List, ast.ListComp)):
                    self.reports.append((n, 'column lookup %s on a table that has no columns when no row survived the filter' % U(n)))
            if isinstance(n, ast.Call) and isinstance(n.func, ast.Attribute) and isinstance(n.func.value, ast.Name) and n.func.value.id in tainted \
                    and n.func.attr in ('keys', 'columns', 'values', 'items'):
                pass   # reading the (possibly empty) key set is not a failure by itself

    def block(self, stmts, tainted):
        tainted = set(tainted)
        for s in stmts:
            if tainted is None:
                return None
            if isinstance(s, ast.Assign) and len(s.targets) == 1 and isinstance(s.targets[0], ast.Name):
                self.uses(s.value, tainted)
                nm = s.targets[0].id
                if _is_records_source(s.value):
                    tainted.add(nm)
                    self.sources += 1
                elif isinstance(s.value, ast.Name) and s.value.id in tainted:
                    tainted.add(nm)
                elif isinstance(s.value, ast.IfExp) and isinstance(s.value.body, ast.Name) and s.value.body.id in tainted and _len_nonzero_true(s.value.test, s.value.body.id):
                    tainted.discard(nm)
                else:
                    tainted.discard(nm)
            elif isinstance(s, ast.Return):
                v = s.value
                if v is not None:
                    if _is_records_source(v):
                        self.sources += 1
                        self.reports.append((s, 'table built from a filtered records comprehension returned without an emptiness guard'))
                    self.uses(v, tainted)
                    if isinstance(v, ast.Name) and v.id in tainted:
                        self.reports.append((s, 'possibly column-less table %s returned' % v.id))
                    if isinstance(v, ast.IfExp):
                        for br, guard_ok in ((v.body, lambda nm: _len_nonzero_true(v.test, nm)), (v.orelse, lambda nm: _len_zero_test(v.test, nm))):
                            if isinstance(br, ast.Name) and br.id in tainted and not guard_ok(br.id):
                                self.reports.append((s, 'possibly column-less table %s returned' % br.id))
                return None
            elif isinstance(s, ast.Raise):
                return None
            elif isinstance(s, (ast.Break, ast.Continue)):
                self.loop_exits[-1].append(set(tainted)) if self.loop_exits else None
                return None
            elif isinstance(s, ast.If):
                self.uses(s.test, tainted)
                tb, fb = set(tainted), set(tainted)
                for nm in list(tainted):
                    if _len_zero_test(s.test, nm):
                        fb.discard(nm)
                    if _len_nonzero_true(s.test, nm):
                        tb.discard(nm)
                a = self.block(s.body, tb)
                b = self.block(s.orelse, fb)
                tainted = None if (a is None and b is None) else (a or set()) | (b or set())
            elif isinstance(s, (ast.For, ast.While)):
                if isinstance(s, ast.For):
                    self.uses(s.iter, tainted)
                else:
                    self.uses(s.test, tainted)
                cur = set(tainted)
                self.loop_exits.append([])
                for _ in range(3):
                    out = self.block(s.body, cur)
                    cur = cur | (out or set())
                    for ex in self.loop_exits[-1]:
                        cur = cur | ex
                self.loop_exits.pop()
                tainted = cur
            elif isinstance(s, ast.Expr):
                self.uses(s.value, tainted)
            elif isinstance(s, ast.Try):
                a = self.block(s.body, tainted)
                outs = [a]
                for h in s.handlers:
                    outs.append(self.block(h.body, tainted))
                live = [o for o in outs if o is not None]
                tainted = set().union(*live) if live else None
            else:
                for n in ast.walk(s):
                    if isinstance(n, ast.expr):
                        self.uses(n, tainted)
                        break
        return tainted

    def run(self):
        self.block(self.fn.body, set())
        # de-duplicate by node
        seen, out = set(), []
        for n, m in self.reports:
            k = (getattr(n, 'lineno', 0), getattr(n, 'col_offset', 0), m)
            if k not in seen:
                seen.add(k)
                out.append((n, m))
        self.reports = out
        return self


# ------------------------------------------------------------------ repetition depth of uses of a name (one-shot iterators)
def use_multiplicity(fn_node, name):
    """[(kind, node, depth)] for every consumption of `name` as an iterable (for-iter, comprehension-iter, *name, call arg),
    where depth = number of enclosing repeating constructs (loops / comprehension element positions) inside fn."""
    uses = []

    def visit(n, depth):
        if isinstance(n, (ast.FunctionDef, ast.AsyncFunctionDef, ast.Lambda)) and n is not fn_node:
            return
        if isinstance(n, (ast.For, ast.AsyncFor)):
            if isinstance(n.iter, ast.Name) and n.iter.id == name:
                uses.append(('for', n.iter, depth))
            else:
                visit(n.iter, depth)
            for s in n.body + n.orelse:
                visit(s, depth + 1)
            return
        if isinstance(n, ast.While):
            visit(n.test, depth + 1)
            for s in n.body + n.orelse:
                visit(s, depth + 1)
            return
        if isinstance(n, (ast.ListComp, ast.SetComp, ast.GeneratorExp, ast.DictComp)):
            d = depth
            for i, g in enumerate(n.generators):
                if isinstance(g.iter, ast.Name) and g.iter.id == name:
                    uses.append(('comp', g.iter, d))
                else:
                    visit(g.iter, d)
                d += 1
                for c in g.ifs:
                    visit(c, d)
            for e in ([n.key, n.value] if isinstance(n, ast.DictComp) else [n.elt]):
                visit(e, d)
            return
        if isinstance(n, ast.Starred) and isinstance(n.value, ast.Name) and n.value.id == name:
            uses.append(('star', n.value, depth))
            return
        if isinstance(n, ast.Call):
            for a in n.args:
                if isinstance(a, ast.Name) and a.id == name:
                    uses.append(('arg:' + (call_name(n) or '?'), a, depth))
            for k in n.keywords:
                if isinstance(k.value, ast.Name) and k.value.id == name:
                    uses.append(('arg:' + (call_name(n) or '?'), k.value, depth))
        for c in ast.iter_child_nodes(n):
            visit(c, depth)
    for s in fn_node.body:
        visit(s, 0)
    return uses


# ------------------------------------------------------------------ DEF-USE integrity: reads of possibly-unassigned locals
def possibly_undefined(fn_node, module_names=None):
    """[(Name node, name)] local names that may be read before any assignment on some path (must-assigned forward analysis over the
    structured AST). Loop bodies may run zero times; except handlers start from the state before the try; comprehension variables are
    scoped to the comprehension; nested functions/lambdas are skipped (their free variables are resolved at call time)."""
    a = fn_node.args
    params = {x.arg for x in a.posonlyargs + a.args + a.kwonlyargs}
    if a.vararg:
        params.add(a.vararg.arg)
    if a.kwarg:
        params.add(a.kwarg.arg)
    assigned_somewhere = set()
    globals_ = set()
    for n in ast.walk(fn_node):
        if isinstance(n, (ast.Global, ast.Nonlocal)):
            globals_ |= set(n.names)

    def targets(t, out):
        if isinstance(t, ast.Name):
            out.add(t.id)
        elif isinstance(t, (ast.Tuple, ast.List)):
            for e in t.elts:
                targets(e.value if isinstance(e, ast.Starred) else e, out)

    def own_nodes(node):
        todo = list(ast.iter_child_nodes(node))
        while todo:
            n = todo.pop()
            if isinstance(n, (ast.FunctionDef, ast.AsyncFunctionDef, ast.Lambda, ast.ClassDef)):
                if isinstance(n, (ast.FunctionDef, ast.AsyncFunctionDef, ast.ClassDef)):
                    yield n
                continue
            yield n
            todo.extend(ast.iter_child_nodes(n))
    for n in own_nodes(fn_node):
        if isinstance(n, ast.Assign):
            for t in n.targets:
                targets(t, assigned_somewhere)
        elif isinstance(n, (ast.AugAssign, ast.AnnAssign)):
            targets(n.target, assigned_somewhere)
        elif isinstance(n, (ast.For, ast.AsyncFor)):
            targets(n.target, assigned_somewhere)
        elif isinstance(n, (ast.With, ast.AsyncWith)):
            for i in n.items:
                if i.optional_vars is not None:
                    targets(i.optional_vars, assigned_somewhere)
        elif isinstance(n, ast.ExceptHandler) and n.name:
            assigned_somewhere.add(n.name)
        elif isinstance(n, (ast.FunctionDef, ast.AsyncFunctionDef, ast.ClassDef)):
            assigned_somewhere.add(n.name)
        elif isinstance(n, ast.NamedExpr):
            targets(n.target, assigned_somewhere)
        elif isinstance(n, (ast.Import, ast.ImportFrom)):
            for al in n.names:
                assigned_somewhere.add((al.asname or al.name).split('.')[0])
    locals_ = (assigned_somewhere - globals_) - params
    reports = []

    import builtins as _b
    known_globals = None if module_names is None else (set(module_names) | set(dir(_b)) | params | globals_)

    def reads(e, defined, bound=frozenset()):
        """report Name loads of locals not in defined; handles comprehension scopes."""
        if e is None:
            return
        if isinstance(e, (ast.Lambda, ast.FunctionDef, ast.AsyncFunctionDef)):
            return
        if isinstance(e, ast.Name):
            if isinstance(e.ctx, ast.Load) and e.id in locals_ and e.id not in defined and e.id not in bound:
                reports.append((e, e.id))
            elif isinstance(e.ctx, ast.Load) and known_globals is not None and e.id not in locals_ and e.id not in bound and e.id not in known_globals:
                reports.append((e, e.id))      # neither a local, nor a parameter, nor a module-level name, nor a builtin
            return
        if isinstance(e, (ast.ListComp, ast.SetComp, ast.GeneratorExp, ast.DictComp)):
            b = set(bound)
            for g in e.generators:
                reads(g.iter, defined, frozenset(b))
                t = set()
                targets(g.target, t)
                b |= t
                for c in g.ifs:
                    reads(c, defined, frozenset(b))
            for x in ([e.key, e.value] if isinstance(e, ast.DictComp) else [e.elt]):
                reads(x, defined, frozenset(b))
            return
        if isinstance(e, ast.NamedExpr):
            reads(e.value, defined, bound)
            return
        for c in ast.iter_child_nodes(e):
            reads(c, defined, bound)

    def block(stmts, defined):
        """returns the must-defined set after the block, or None if the block never falls through"""
        for s in stmts:
            if defined is None:
                return None
            defined = stmt(s, defined)
        return defined

    def stmt(s, d):
        if isinstance(s, ast.Assign):
            reads(s.value, d)
            for t in s.targets:
                if not isinstance(t, (ast.Name, ast.Tuple, ast.List)):
                    reads(t, d)
            nd = set(d)
            for t in s.targets:
                targets(t, nd)
            return nd
        if isinstance(s, ast.AugAssign):
            reads(s.value, d)
            if isinstance(s.target, ast.Name):
                if s.target.id in locals_ and s.target.id not in d:
                    reports.append((s.target, s.target.id))
                return set(d) | {s.target.id}
            reads(s.target, d)
            return d
        if isinstance(s, ast.AnnAssign):
            reads(s.value, d)
            nd = set(d)
            if s.value is not None:
                targets(s.target, nd)
            return nd
        if isinstance(s, (ast.Expr, ast.Return, ast.Raise, ast.Assert, ast.Delete)):
            for c in ast.iter_child_nodes(s):
                reads(c, d)
            return None if isinstance(s, (ast.Return, ast.Raise)) else d
        if isinstance(s, ast.If):
            reads(s.test, d)
            a_ = block(s.body, set(d))
            b_ = block(s.orelse, set(d))
            if a_ is None:
                return b_
            if b_ is None:
                return a_
            return a_ & b_
        if isinstance(s, (ast.For, ast.AsyncFor)):
            reads(s.iter, d)
            inner = set(d)
            targets(s.target, inner)
            block(s.body, inner)
            return block(s.orelse, set(d)) if s.orelse else d
        if isinstance(s, ast.While):
            reads(s.test, d)
            block(s.body, set(d))
            infinite = isinstance(s.test, ast.Constant) and s.test.value is True
            return None if infinite and not any(isinstance(x, ast.Break) for x in ast.walk(s)) else d
        if isinstance(s, ast.Try):
            body = block(s.body, set(d))
            outs = []
            if body is not None:
                outs.append(block(s.orelse, set(body)) if s.orelse else body)
            for h in s.handlers:
                hd = set(d)
                if h.name:
                    hd.add(h.name)
                outs.append(block(h.body, hd))
            live = [o for o in outs if o is not None]
            res = set.intersection(*live) if live else None
            if s.finalbody:
                res = block(s.finalbody, res if res is not None else set(d))
            return res
        if isinstance(s, (ast.With, ast.AsyncWith)):
            nd = set(d)
            for i in s.items:
                reads(i.context_expr, d)
                if i.optional_vars is not None:
                    targets(i.optional_vars, nd)
            return block(s.body, nd)
        if isinstance(s, (ast.FunctionDef, ast.AsyncFunctionDef, ast.ClassDef)):
            return set(d) | {s.name}
        if isinstance(s, (ast.Import, ast.ImportFrom)):
            return set(d) | {(al.asname or al.name).split('.')[0] for al in s.names}
        if isinstance(s, (ast.Break, ast.Continue)):
            return None
        return d
    block(fn_node.body, set())
    seen, out = set(), []
    for n, nm in reports:
        k = (n.lineno, n.col_offset, nm)
        if k not in seen:
            seen.add(k)
            out.append((n, nm))
    return out
