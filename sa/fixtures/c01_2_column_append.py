
def _fixture_c01_2(d, x):
    """positive control for C01.2: an in-place append on a column list of a table operand (must be reported)."""
    col = d['a']
    col.append(x)
    return d
