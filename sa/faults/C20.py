P = '_perdictable'
FAULTS = [
    ('defaults swapped', P, "        if len(def1):\n            d += (d2 / d1)(**def1)", "        if len(def1):\n            d += (d1 / d2)(**def1)", 'C20.1'),
    ('single reducer fold', P, "    tbl_def2 = reducer(_join_dictable_with_defaults, pairs, (None, None))\n    tbl_def = _join_dictable_with_defaults(tbl_def1,tbl_def2) ", "    tbl_def = reducer(_join_dictable_with_defaults, [tbl_def1] + pairs)", 'C20.1'),
    ('result not sorted', P, "    return res.sort(as_list(on))", "    return res", 'C20.2'),
    ('gate and instead of or', P, "            values = [row[self.function] if (rin or rex) else c for row, rin, rex, c in zip(rows, run_if_none, run_expiry, cache)]            \n            if self.include_inputs:\n                return rows(**{col : values})", "            values = [row[self.function] if (rin and rex) else c for row, rin, rex, c in zip(rows, run_if_none, run_expiry, cache)]            \n            if self.include_inputs:\n                return rows(**{col : values})", 'C20.3'),
    ('expiry polarity inverted', P, "            run_expiry = [value is None or value>=today for value in ds[_expiry]]", "            run_expiry = [value is None or value<today for value in ds[_expiry]]", 'C20.3'),
    ('scalar shortcut for one row even with tables', P, "        if len(ds) == 1 and len({k : v for k, v in inputs.items() if is_dictable(v)}) == 0:\n            return rows[0][self.function]\n        else:                \n            missing_cols", "        if len(ds) == 1:\n            return rows[0][self.function]\n        else:                \n            missing_cols", 'C20.4'),
    ('fullargspec without expiry', P, "        return argspec_add(getargspec(self.function), expiry = None, **{o : None for o in self.output})", "        return argspec_add(getargspec(self.function), **{o : None for o in self.output})", 'C20.5'),
    ('scalars not broadcast', P, "    res = tbl_def[0](**non_dictables)", "    res = tbl_def[0]", 'C20.2'),
    ('cache shortcut returns input table', P, "            cache = ds[col] if col in ds.keys() else [None]*len(ds)            \n", "            cache = ds[col] if col in ds.keys() else [None]*len(ds)            \n            if not (any(run_if_none) or any(run_expiry)) and is_dictable(inputs.get(col)):\n                return inputs[col]\n", 'C20.4'),
]
TWINS = [
    ('gate flipped or', P, "            values = [row[self.function] if (rin or rex) else c for row, rin, rex, c in zip(rows, run_if_none, run_expiry, cache)]            \n            if self.include_inputs:\n                return rows(**{col : values})", "            values = [row[self.function] if (rin or rex) else c for row, rin, rex, c in zip(rows, run_if_none, run_expiry, cache)]\n            if self.include_inputs:\n                return rows(**{col : values})"),
]
