D = '_dictable'
FAULTS = [
    ('exc drops the not on callables', D, "                res = type(self)([row for row in res if not f(**row)])", "                res = type(self)([row for row in res if f(**row)])", 'C06.2'),
    ('exc mask without not', D, "            res = res[[not include(row) for row in res]]            ", "            res = res[[include(row) for row in res]]            ", 'C06.2'),
    ('_row_check nan case removed', D, "    if is_nan(value):\n        return is_nan(v)\n    if isinstance(value, Pattern):\n        return is_str(v)", "    if isinstance(value, Pattern):\n        return is_str(v)", 'C06.1'),
    ('_row_check none tests cell', D, "    if value is None:\n        return v is None\n    if is_nan(value):", "    if v is None:\n        return value is None\n    if is_nan(value):", 'C06.1'),
    ('inc regex uses match', D, "res = res[[is_str(r) and value.search(r) is not None for r in res[key]]]", "res = res[[is_str(r) and value.match(r) is not None for r in res[key]]]", 'C06.1'),
    ('and_ becomes max', D, "        return min([_row_check(row, key, value) for key, value in filters.items()])", "        return max([_row_check(row, key, value) for key, value in filters.items()])", 'C06.2'),
    ('inc loses break guard', D, "            if len(res) == 0: # nothing left to filter; a table rebuilt from no records has lost its columns\n                break\n", "", 'C06.4'),
    ('exc loses final guard', D, "            res = res[[not include(row) for row in res]]            \n        if len(res) == 0:\n            return type(self)([], self.keys())\n", "            res = res[[not include(row) for row in res]]            \n", 'C06.4'),
    ('inc sorted rows', D, "                res = type(self)([row for row in res if f(**row)])", "                res = type(self)(sorted([row for row in res if f(**row)], key = str))", 'C06.3,C06.2'),
    ('inc no-condition returns self', D, "        res = self.copy()\n        if len(functions) + len(filters) == 0:\n            return res\n        functions = as_list(functions)\n        for function in functions:\n            if type(function) == dict:\n                filters.update(function)\n            else:\n                f = kwargs_support(function)\n                res = type(self)([row for row in res if f(**row)])", "        res = self\n        if len(functions) + len(filters) == 0:\n            return res\n        functions = as_list(functions)\n        for function in functions:\n            if type(function) == dict:\n                filters.update(function)\n            else:\n                f = kwargs_support(function)\n                res = type(self)([row for row in res if f(**row)])", 'C06.5'),
    ('find_ returns last', D, "                return item[0]", "                return item[-1]", 'C06.6'),
    ('find_ no raise on multiple', D, "                    if len(item)>1:\n                        raise ValueError('multiple %s found %s'%(key, item))", "                    if len(item)>2:\n                        raise ValueError('multiple %s found %s'%(key, item))", 'C06.6'),
    ('inc callable mask without bool', D, "                res = type(self)([row for row in res if f(**row)])", "                res = res[[f(**row) for row in res]]", 'C06.2'),
]
TWINS = [
    ('inc callable mask with bool', D, "                res = type(self)([row for row in res if f(**row)])", "                res = res[[bool(f(**row)) for row in res]]"),
    ('and_ uses all', D, "        return min([_row_check(row, key, value) for key, value in filters.items()])", "        return all([_row_check(row, key, value) for key, value in filters.items()])"),
]
