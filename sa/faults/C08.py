P = '_pandas'
FAULTS = [
    ('add default 1', P, "@presync(default = 0.0)\ndef _add_(a, b):", "@presync(default = 1.0)\ndef _add_(a, b):", 'C08.1'),
    ('mul default 0', P, "@presync(default = 1.0)\ndef _mul_(a, b):", "@presync(default = 0.0)\ndef _mul_(a, b):", 'C08.1'),
    ('div: no zero mask', P, "        denom[denom == 0] = np.nan\n", "", 'C08.3'),
    ('div: mask applied to operand', P, "        denom = b.copy()\n", "        denom = b\n", 'C08.3'),
    ('div: scalar guard dropped', P, "        return np.nan if b == 0 else a/b", "        return a/b", 'C08.3'),
    ('sub_ drops columns', P, "    return _sub_(a, b, join = join, method = method, columns = columns)", "    return _sub_(a, b, join = join, method = method)", 'C08.4'),
    ('mul_ join hardwired', P, "    f = lambda a, b: _mul_(a, b, join = join, method = method, columns = columns)", "    f = lambda a, b: _mul_(a, b, join = 'ij', method = method, columns = columns)", 'C08.4'),
    ('ge computes >', P, "    return a >= b", "    return a > b", 'C08.5'),
    ('lt_ calls _le_', P, "    return _lt_(a,b, join = join, method = method, columns = columns)", "    return _le_(a,b, join = join, method = method, columns = columns)", 'C08.4'),
    ('df_sum default ij', P, "def df_sum(a, b = None, join = 'oj', method = None, columns = 'oj', exc = np.nan):", "def df_sum(a, b = None, join = 'ij', method = None, columns = 'oj', exc = np.nan):", 'C08.6'),
    ('df_sum no nan where empty', P, "        return np.nan if n == 0 else res\n    res[n == 0] = np.nan\n    return res       ", "        return np.nan if n == 0 else res\n    return res       ", 'C08.6'),
    ('presync drops default for kwargs', P, "res = {column: self.function(*df_column(args_,column = column, default = default), **df_column(kwargs_, column=column, default = default)) for column in columns}", "res = {column: self.function(*df_column(args_,column = column, default = default), **df_column(kwargs_, column=column)) for column in columns}", 'C08.2'),
    ('reducer right fold', '_reducer', "        return reduce(function, sequence[1:], sequence[0])", "        return reduce(function, sequence[:-1], sequence[-1])", 'C08.4'),
    ('max_ uses _minimum', P, "    dfs = df_sync(dfs, join = join, method = method, columns = columns)\n    return reducer(_maximum, dfs)", "    dfs = df_sync(dfs, join = join, method = method, columns = columns)\n    return reducer(_minimum, dfs)", 'C08.5'),
    ('df_index skips empty', P, "    indexes = [_index(ts) for ts in listed if is_pd(ts) or _is_dict_indexed(ts)]", "    indexes = [_index(ts) for ts in listed if (is_pd(ts) and len(ts)) or _is_dict_indexed(ts)]", 'C08.7'),
]
TWINS = [
    ('div: flipped guard', P, "        return np.nan if b == 0 else a/b", "        return np.nan if 0 == b else a/b"),
]
