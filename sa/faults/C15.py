D = '_dict'
FAULTS = [
    ('copy_on_write not requested', D, "        _tree_setitem(tree, item, base, ignore, types, copy_on_write = True)", "        _tree_setitem(tree, item, base, ignore, types)", 'C15.1'),
    ('items_to_tree drops the copy', D, "    else:\n        tree = copy(tree)\n    base = type(tree)", "    else:\n        tree = tree\n    base = type(tree)", 'C15.1,C15.4'),
    ('tree_values iterates sorted', D, "        return sum([[item for item in tree_values(tree[key], types)] for key in tree], [])", "        return sum([[item for item in tree_values(tree[key], types)] for key in sorted(tree)], [])", 'C15.2'),
    ('tree_keys leaf returns key', D, "    else: # this is a leaf\n        return [()]", "    else: # this is a leaf\n        return [(tree,)]", 'C15.2'),
    ('setitem ignores when absent too', D, "    if item[-2] in res and in_(item[-1], ignore):", "    if in_(item[-1], ignore):", 'C15.3'),
    ('setitem path item[:-1]', D, "    for key in item[:-2]:", "    for key in item[:-1]:", 'C15.3'),
    ('duplicates never raise', D, "    if raise_if_duplicate and len(set([tuple(node[:-1]) for node in items])) < len(items):", "    if raise_if_duplicate and len(set([tuple(node) for node in items])) < len(items):", 'C15.4'),
    ('tree_update flattens tree not update', D, "    items = tree_items(update, types)", "    items = tree_items(tree, types)", 'C15.4'),
    ('is_tree separator dot', '_tree', "    match = pattern.split('/')\n    if not max([m.startswith('%') for m in match]):", "    match = pattern.split('.')\n    if not max([m.startswith('%') for m in match]):", 'C15.5'),
    ('tree_to_table get', '_tree', "            if key in t:\n                return tree_to_table(t[key], match[1:], leaf = leaf)\n            else:\n                return []", "            sub = t.get(key)\n            return [] if sub is None else tree_to_table(sub, match[1:], leaf = leaf)", 'C15.5'),
    ('copy once per key name', D, "        elif copy_on_write: # tree is a shallow copy of the caller's tree: copy each branch before writing below it\n            res[key] = copy(res[key])", "        elif copy_on_write and key not in _seen: # tree is a shallow copy of the caller's tree: copy each branch before writing below it\n            _seen.add(key)\n            res[key] = copy(res[key])", 'C15.1'),
]
TWINS = [
    ('rename res', D, "    if item[-2] in res and in_(item[-1], ignore):\n        return\n    else:\n        res[item[-2]] = item[-1]", "    if item[-2] in res and in_(item[-1], ignore):\n        return\n    else:\n        res[item[-2]] = item[-1]\n    return"),
]
