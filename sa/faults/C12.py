P = '_pandas'
FAULTS = [
    ('fillna drops params', P, "            res = res.ffill(**params)\n        elif m in ('bfill', 'backfill'):", "            res = res.ffill()\n        elif m in ('bfill', 'backfill'):", 'C12.2'),
    ('bfill does ffill', P, "        elif m in ('bfill', 'backfill'):\n            res = res.bfill(**params)", "        elif m in ('bfill', 'backfill'):\n            res = res.ffill(**params)", 'C12.2'),
    ('method applied to original', P, "        elif m == 'ffill':\n            res = res.ffill(**params)", "        elif m == 'ffill':\n            res = df.ffill(**params)", 'C12.3,C12.2'),
    ('nona keeps rows with all non-nan', P, "            if len(res.shape)==2:\n                nonan = nonan.max(axis=1)", "            if len(res.shape)==2:\n                nonan = nonan.min(axis=1)", 'C12.4'),
    ('_nona max instead of min', P, "    while len(mask.shape) > 1:\n        mask = mask.min(axis = 1)", "    while len(mask.shape) > 1:\n        mask = mask.max(axis = 1)", 'C12.4'),
    ('ffill_0 writes nan', P, "            invalid = np.nan if m == 'ffill_na' else 0.", "            invalid = np.nan", 'C12.5'),
    ('trailing region >=', P, "                    res[res.index>last_valid] = invalid", "                    res[res.index>=last_valid] = invalid", 'C12.5'),
    ('trailing store before any rebinding', P, "                    res = res.ffill(**params)\n                    res[res.index>last_valid] = invalid", "                    res[res.index>last_valid] = invalid", 'C12.1,C12.5'),
    ('array path drops limit', P, "        return df_fillna(pd.DataFrame(df) if len(df.shape)==2 else pd.Series(df), method, axis, limit).values", "        return df_fillna(pd.DataFrame(df) if len(df.shape)==2 else pd.Series(df), method, axis).values", 'C12.6'),
    ('inplace fillna', P, "            res = res.fillna(value = m, **params)", "            res.fillna(value = m, inplace = True, **params)", 'C12.1,C12.2'),
    ('params limit only', P, "    params = dict(limit = limit) if is_series(df) else dict(axis = axis, limit = limit)", "    params = dict(limit = limit)", 'C12.2'),
    ('fnna all-nan returns whole', P, "                if len(nonan):\n                    res = res[nonan.index[0]:]\n                else:\n                    res = res.iloc[:0]", "                if len(nonan):\n                    res = res[nonan.index[0]:]", 'C12.4'),
]
TWINS = [
    ('date branch untouched', P, "            invalid = np.nan if m == 'ffill_na' else 0.", "            invalid = np.nan if m == 'ffill_na' else 0.0"),
]
