D = '_dictable'
FAULTS = [
    ('listby: last group not flushed', D, "            prev = key \n        res.append((prev, row))\n        return zip(*res)", "            prev = key \n        return zip(*res)", 'C11.1'),
    ('listby: row = []', D, "                res.append((prev, row))\n                row = [i]", "                res.append((prev, row))\n                row = []", 'C11.1'),
    ('listby: prev not updated', D, "                row = [i]\n            prev = key \n", "                row = [i]\n", 'C11.1'),
    ('listby: index first in pairs', D, "        keys2id = sort(list(zip(keys, range(len(self)))))\n        prev = None", "        keys2id = sort(list(zip(range(len(self)), keys)))\n        prev = None", 'C11.2'),
    ('listby: gathers key columns too', D, "for y in ids] for k in self.keys() if k not in by})\n        return rtn", "for y in ids] for k in self.keys()})\n        return rtn", 'C11.3'),
    ('groupby allows all keys', D, "        elif len(by) == len(self.keys()):\n            raise ValueError('cannot groupby on all keys... nothing left to group')\n", "", 'C11.3'),
    ('pivot grid zero', D, "        res = [[None for _ in range(len(ys))] for _ in range(len(xs))]", "        res = [[0 for _ in range(len(ys))] for _ in range(len(xs))]", 'C11.4'),
    ('pivot addresses by xy[0]', D, "                k = y2id[xy[-1]]", "                k = y2id[xy[0]]", 'C11.4'),
    ('unpivot labels not cycled', D, "        res[y] = ycols * len(self)", "        res[y] = ycols", 'C11.5'),
    ('unlist returns self for <=1', D, "        return self.concat([row for row in self]) if len(self) else self", "        return self.concat([row for row in self]) if len(self) > 1 else self", 'C11.5'),
    ('ungroup drops key cells', D, "        return self.concat([row.pop(grp)(**row.do(lambda v: [v])) for row in self])", "        return self.concat([row.pop(grp) for row in self])", 'C11.5'),
]
TWINS = [
    ('unlist explicit if', D, "        return self.concat([row for row in self]) if len(self) else self", "        if len(self) == 0:\n            return self\n        return self.concat([row for row in self])"),
]
