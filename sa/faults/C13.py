P = '_pandas'
FAULTS = [
    ('closed: ] is open', P, "    if oc in '()oO':\n        return False\n    elif oc in '[]cC':", "    if oc in '()oO]':\n        return False\n    elif oc in '[cC':", 'C13.1'),
    ('lower mask swapped', P, "            df = df[index>=lb] if l else df[index>lb]", "            df = df[index>lb] if l else df[index>=lb]", 'C13.2'),
    ('upper mask chosen by l', P, "            df = df[index<=ub] if u else df[index<ub]", "            df = df[index<=ub] if l else df[index<ub]", 'C13.2'),
    ('fast path ignores u', P, "            if (l or lb is None) and (u or ub is None):\n                try:\n                    return df[lb:ub]", "            if (l or lb is None):\n                try:\n                    return df[lb:ub]", 'C13.3'),
    ('time bound compares full index', P, "            if isinstance(ub, datetime.time):\n                index = index.time            \n", "", 'C13.4'),
    ('wrap drops openclose again', P, "        pre  = df_slice(df, None, ub, openclose)", "        pre  = df_slice(df, None, ub)", 'C13.7'),
    ('list: ub derived wrongly', P, "            ub = lb[1:] + [None]", "            ub = lb[:-1] + [None]", 'C13.5'),
    ('list: data not reversed', P, "            if not _is_non_decreasing(ub):\n                ub = ub[::-1]\n                df = df[::-1]", "            if not _is_non_decreasing(ub):\n                ub = ub[::-1]", 'C13.5'),
    ('n columns from i-n', P, "            df = [pd.concat(df[i: i+n], axis = 1) for i in range(len(df))]", "            df = [pd.concat(df[i-n: i], axis = 1) for i in range(len(df))]", 'C13.5'),
    ('unslice brackets [)', P, "    res = res(ts = lambda lb, ub: df_slice(df, lb, ub, '(]'))", "    res = res(ts = lambda lb, ub: df_slice(df, lb, ub, '[)'))", 'C13.6'),
    ('worker call drops openclose', P, "    res = [_df_slice(d, lb = l, ub = u, openclose = openclose) for d, l, u in dlu]", "    res = [_df_slice(d, lb = l, ub = u) for d, l, u in dlu]", 'C13.7,C13.5'),
    ('brackets order swapped', P, "        l = _closed(l); u = _closed(u)", "        l, u = _closed(u), _closed(l)", 'C13.2'),
]
TWINS = [
    ('closed: set literal', P, "    if oc in '()oO':", "    if oc in ('(', ')', 'o', 'O'):"),
]
