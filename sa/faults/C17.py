B = '_bitemporal'
FAULTS = [
    ('asof filter strict', B, "        df = df[df[_updated]<=asof]", "        df = df[df[_updated]<asof]", 'C17.1'),
    ('asof filter reversed', B, "        df = df[df[_updated]<=asof]", "        df = df[df[_updated]>=asof]", 'C17.1'),
    ('asof filter only for latest', B, "    if is_date(asof):\n        df = df[df[_updated]<=asof]", "    if is_date(asof) and what != 0:\n        df = df[df[_updated]<=asof]", 'C17.1'),
    ('merge sort unstable again', B, "    gb = df.sort_values(_updated, kind = 'stable').groupby(df.index.name)", "    gb = df.sort_values(_updated).groupby(df.index.name)", 'C17.2'),
    ('new before old', B, "    bis = old_bis + new_bis", "    bis = new_bis + old_bis", 'C17.2'),
    ('keep first', B, "    res = res.drop_duplicates(subset = [_updated], keep = 'last')", "    res = res.drop_duplicates(subset = [_updated], keep = 'first')", 'C17.3'),
    ('no ffill before repeat test', B, "    no_updated = d.drop(columns = _updated).ffill()", "    no_updated = d.drop(columns = _updated)", 'C17.3'),
    ('repeat if any column equal', B, "    res = d[~np.concatenate([[False],repeats.min(axis=1)])]", "    res = d[~np.concatenate([[False],repeats.max(axis=1)])]", 'C17.3'),
    ('default what first', B, "def bi_read(df, asof = None, what = -1):", "def bi_read(df, asof = None, what = 0):", 'C17.4'),
    ('nth clamps wrong', B, "_nth = lambda v, n: v.iloc[min(n, len(v)-1)] if n>=0 else v.iloc[max(n, -len(v))]", "_nth = lambda v, n: v.iloc[min(n, len(v)-1)] if n>0 else v.iloc[max(n, -len(v))]", 'C17.4'),
    ('read not ordered by stamp', B, "        gb = df.sort_values(_updated).groupby(df.index.name)\n        res = gb.apply(_as_what(what))", "        gb = df.groupby(df.index.name)\n        res = gb.apply(_as_what(what))", 'C17.4,C17.1'),
    ('Bi restamps bitemporal data', B, "    if asof is None or is_bi(df):\n        return df", "    if asof is None:\n        return df", 'C17.5'),
]
TWINS = [
    ('mergesort is stable too', B, "    gb = df.sort_values(_updated, kind = 'stable').groupby(df.index.name)", "    gb = df.sort_values(_updated, kind = 'mergesort').groupby(df.index.name)"),
]
