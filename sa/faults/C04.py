D = '_dates'
FAULTS = [
    ('ordinal threshold too low', D, "    elif i<1095000:\n        return datetime.datetime.fromordinal(i) + f", "    elif i<800000:\n        return datetime.datetime.fromordinal(i) + f", 'C04.1'),
    ('excel threshold too high', D, "    elif i < 300000:", "    elif i < 700000:", 'C04.1'),
    ('yyyymmdd lower bound', D, "    elif i>10000101 and i<30001231:", "    elif i>19500101 and i<30001231:", 'C04.1'),
    ('month split wrong', D, "        m = (i % 10000) // 100", "        m = (i % 1000) // 100", 'C04.1'),
    ('ym year carry m//12', D, "    y += (m-1) // 12", "    y += m // 12", 'C04.2'),
    ('_ymd d*DAY', D, "    return datetime.datetime(y,m,1) + (d-1) * DAY", "    return datetime.datetime(y,m,1) + d * DAY", 'C04.2'),
    ('uk swap day<12', D, "        if res.day<13:", "        if res.day<12:", 'C04.3'),
    ('uk no rejection', D, "        elif int(t[:2].replace('-','').replace('/','').replace('.',''))!=res.day:\n            raise ValueError('date %s is not in UK date format'%t)\n", "", 'C04.3'),
    ('us rejection compares day', D, "if ambiguity.search(t) is not None and res.month != int(", "if ambiguity.search(t) is not None and res.day != int(", 'C04.3'),
    ('dot not stripped again', D, "        elif int(t[:2].replace('-','').replace('/','').replace('.',''))!=res.day:", "        elif int(t[:2].replace('-','').replace('/',''))!=res.day:", 'C04.4'),
    ('regex admits comma', D, "ambiguity = re.compile('^[0-9]{1,2}[-/ .][0-9]{1,2}[-/ .][0-9]{2,4}')", "ambiguity = re.compile('^[0-9]{1,2}[-/ .,][0-9]{1,2}[-/ .,][0-9]{2,4}')", 'C04.4'),
    ('dialect dispatch swapped', D, "            res = uk2dt(t) if dialect == 'uk' else us2dt(t)", "            res = us2dt(t) if dialect == 'uk' else uk2dt(t)", 'C04.3'),
    ('minutes/seconds swapped', D, "        res = t + datetime.timedelta(hours = args[0], minutes = args[1], seconds = args[2])", "        res = t + datetime.timedelta(hours = args[0], minutes = args[2], seconds = args[1])", 'C04.5'),
    ('ymd keeps hour', D, "        return datetime.datetime(t.year, t.month, t.day, tzinfo = t.tzinfo)", "        return datetime.datetime(t.year, t.month, t.day, t.hour, tzinfo = t.tzinfo)", 'C04.5'),
    ('uk swap drops microsecond', D, "            res = dt(res.year, res.day, res.month, res.hour, res.minute, res.second, res.microsecond)", "            res = dt(res.year, res.day, res.month, res.hour, res.minute, res.second)", 'C04.3'),
]
TWINS = [
    ('num2dt flipped compare', D, "    elif i<1095000:", "    elif 1095000 > i:"),
    ('uk swap <= 12', D, "        if res.day<13:", "        if res.day<=12:"),
]
