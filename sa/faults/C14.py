E = '_eq'
FAULTS = [
    ('fallback guard removed', E, "        if isinstance(y, (tuple, list, np.ndarray, pd.DataFrame, pd.Series, dict)) and (isinstance(x, str) or not hasattr(x, '__len__')):\n            return False # a scalar x never equals a container y, whichever side it is on (numpy would broadcast x == y)\n", "", 'C14.1'),
    ('fallback guard misses ndarray', E, "        if isinstance(y, (tuple, list, np.ndarray, pd.DataFrame, pd.Series, dict)) and", "        if isinstance(y, (tuple, list, pd.DataFrame, pd.Series, dict)) and", 'C14.1'),
    ('list branch drops type check', E, "        return type(x) == type(y) and len(x) == len(y) and _eq_attrs(x,y,['__shape__']) and (len(x) == 0 or min", "        return len(x) == len(y) and _eq_attrs(x,y,['__shape__']) and (len(x) == 0 or min", 'C14.2'),
    ('nan branch asymmetric', E, "        return isinstance(y, float) and np.isnan(y)    ", "        return isinstance(y, float)", 'C14.3'),
    ('fallback outside try', E, "        try:\n            res = x == y\n            return np.all(res.__array__()) if hasattr(res, '__array__') else res\n        except Exception:\n            return False # if you really have no == supported, the two items are not the same", "        res = x == y\n        return np.all(res.__array__()) if hasattr(res, '__array__') else res", 'C14.4'),
    ('array: len instead of shape', E, "        return type(x) == type(y) and x.shape == y.shape and (0 in x.shape or np.all(veq(x,y)))", "        return type(x) == type(y) and len(x) == len(y) and (0 in x.shape or np.all(veq(x,y)))", 'C14.4,C14.7'),
    ('array: dead shape attr', E, "        return type(x) == type(y) and x.shape == y.shape and (0 in x.shape or np.all(veq(x,y)))", "        return type(x) == type(y) and _eq_attrs(x,y,['__shape__']) and (0 in x.shape or np.all(veq(x,y)))", 'C14.7'),
    ('in_ uses ==', E, "    for s in seq:\n        if eq(x, s):\n            return True", "    for s in seq:\n        if x == s:\n            return True", 'C14.5'),
    ('list elements compared with ==', E, "(len(x) == 0 or min([eq(i,j) for i,j in zip(x,y)]))", "(len(x) == 0 or min([i == j for i,j in zip(x,y)]))", 'C14.5'),
    ('dict: keys not compared', E, "            return eq(xkey, ykey) and eq(np.array(xval, dtype='object'), np.array(yval, dtype='object'))", "            return eq(np.array(xval, dtype='object'), np.array(yval, dtype='object'))", 'C14.6'),
    ('dict: empty guard removed', E, "            if len(x) == 0:\n                return True\n", "", 'C14.6'),
    ('pandas: index not compared', E, "_eq_attrs(x,y, attrs = ['__shape__', 'index', 'columns'])", "_eq_attrs(x,y, attrs = ['__shape__', 'columns'])", 'C14.7'),
    ('veq not vectorized eq', E, "veq = np.vectorize(eq)", "veq = np.vectorize(lambda a, b: a == b)", 'C14.5'),
]
TWINS = [
    ('guard with reordered disjuncts', E, "and (isinstance(x, str) or not hasattr(x, '__len__')):", "and (not hasattr(x, '__len__') or isinstance(x, str)):"),
]
