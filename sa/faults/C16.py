FAULTS = [
    ('dictattr.__sub__ nested delete in place again', '_dictattr', "                    branch[k] = _copy(branch[k]) # res is a shallow copy: walk down on copies so that the nested branches of self are untouched\n", "", 'C16.1'),
    ('dictattr.__add__ updates self', '_dictattr', "        res = self.copy()\n        res.update(other)\n        return res", "        res = self\n        res.update(other)\n        return res", 'C16.1,C16.6'),
    ('relabel returns plain dict', '_dictattr', "        return type(self)(**{keys.get(k,k) : v for k, v in self.items()})", "        return dict(**{keys.get(k,k) : v for k, v in self.items()})", 'C16.2,C16.6'),
    ('ulist & returns list', '_ulist', "            return type(self)([o for o in self if o in other])", "            return [o for o in self if o in other]", 'C16.2'),
    ('unique fast path with filtered list', '_ulist', "            return type(self)(super(ulist, self).__add__(other))", "            return type(self)(super(ulist, self).__add__([o for o in other if o not in self]), unique = True)", 'C16.3'),
    ('dedup by sorting values', '_ulist', "            super(ulist, self).__init__([v for _, v in sorted([(orig.index(u), u) for u in set(orig)])])", "            super(ulist, self).__init__(sorted(set(orig)))", 'C16.4'),
    ('Dict.__call__: pending minus existing', '_dict', "            keys = set(callables.keys())        ", "            keys = set(callables.keys()) - set(res.keys())", 'C16.5'),
    ('Dict.__call__: cycle not raised', '_dict', "            if len(independent) == 0:\n                raise ValueError('circular function calling')\n            else:\n                for key, value in independent.items():", "            if len(independent) == 0:\n                break\n            else:\n                for key, value in independent.items():", 'C16.5'),
    ('Dict.__call__: works on self', '_dict', "    def __call__(self, **kwargs):\n        res = self.copy()", "    def __call__(self, **kwargs):\n        res = self", 'C16.1,C16.5'),
    ('tuple key returns dict', '_dictattr', "        if isinstance(value, tuple):\n            return [self[v] for v in value]", "        if isinstance(value, tuple):\n            return {v : self[v] for v in value}", 'C16.6'),
    ('ulist minus keeps', '_ulist', "            return type(self)([o for o in self if o not in other])", "            return type(self)([o for o in self if o in other])", 'C16.4'),
]
TWINS = [
    ('Dict.__call__ set(callables)', '_dict', "            keys = set(callables.keys())        ", "            keys = set(callables)"),
]
