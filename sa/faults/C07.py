S = '_sort'
D = '_dictable'
FAULTS = [
    ('one-sided length return', S, "    elif ly<lx:\n        return 1", "    elif ly<lx:\n        return -1", 'C07.2'),
    ('nan only mapped for x', S, "    if is_nan(y):\n        y = np.inf\n", "", 'C07.2,C07.3'),
    ('nan to -inf', S, "    if is_nan(x):\n        x = np.inf\n    if is_nan(y):\n        y = np.inf", "    if is_nan(x):\n        x = -np.inf\n    if is_nan(y):\n        y = -np.inf", 'C07.3'),
    ('final compare >=', S, "        return -1 if x<y else 1 if x>y else 0", "        return -1 if x<y else 1 if x>=y else 0", 'C07.2,C07.3'),
    ('Cmp lt is cmp==1', S, "        return self.cmp(y)==-1", "        return self.cmp(y)==1", 'C07.5'),
    ('sort fallback reversed', S, "        return sorted(iterable, key = Cmp)", "        return sorted(iterable, key = Cmp, reverse = True)", 'C07.5'),
    ('empty dict guard removed', S, "        if lx == 0: # two empty dicts: zip(*[]) below cannot be unpacked\n            return 0\n", "", 'C07.4'),
    ('sort decorates index first', D, "        keys2id = list(zip(keys, range(len(self))))\n        _, rows = zip(*sort(keys2id))", "        keys2id = list(zip(range(len(self)), keys))\n        rows, _ = zip(*sort(keys2id))", 'C07.7'),
    ('sort permutes only listed columns', D, "        return type(self)({key: [value[i] for i in rows] for key, value in self.items()})", "        return type(self)({key: ([value[i] for i in rows] if key in by else value) for key, value in self.items()})", 'C07.7'),
    ('unlisted rank -1', D, "            keys = [[d.get(row[k], len(d)) for k,d in dicts.items()] for row in self]            ", "            keys = [[d.get(row[k], -1) for k,d in dicts.items()] for row in self]            ", 'C07.7'),
    ('cmparr returns at first pair', S, "        c = cmp(*pair)\n        if c!=0:\n            return c\n    return c", "        c = cmp(*pair)\n        return c\n    return c", 'C07.8'),
    ('cmp returns 2', S, "    if tx<ty:\n        return -1", "    if tx<ty:\n        return -2", 'C07.1,C07.2'),
    ('widening includes bool', S, "    x = float(x) if isinstance(x, int) and not isinstance(x, bool) else x\n", "    x = float(x) if isinstance(x, int) else x\n", 'C07.2,C07.3'),
]
TWINS = [
    ('swap twin statements', S, "    tx = str(type(x))\n    ty = str(type(y))", "    ty = str(type(y))\n    tx = str(type(x))"),
    ('flip comparison', S, "    if tx<ty:\n        return -1\n    elif ty<tx:\n        return 1", "    if ty>tx:\n        return -1\n    elif tx>ty:\n        return 1"),
]
