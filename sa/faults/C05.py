D = '_drange'
FAULTS = [
    ('is_bday and->or', D, "        return date.weekday() not in self.weekend and ymd(date) not in self.holidays", "        return date.weekday() not in self.weekend or ymd(date) not in self.holidays", 'C05.1'),
    ('is_holiday drops weekend', D, "        return date.weekday() in self.weekend or ymd(date) in self.holidays", "        return ymd(date) in self.holidays", 'C05.1'),
    ('adjust f steps back', D, "            while self.is_holiday(t) and t <= self.t1:\n                t = t + DAY", "            while self.is_holiday(t) and t <= self.t1:\n                t = t - DAY", 'C05.2'),
    ('m month test flipped', D, "            if t.month!=date.month:\n                return self.adjust(date, 'p')", "            if t.month==date.month:\n                return self.adjust(date, 'p')", 'C05.2'),
    ('m falls back to f', D, "                return self.adjust(date, 'p')\n            else:\n                return t", "                return self.adjust(date, 'f')\n            else:\n                return t", 'C05.2'),
    ('add threshold > 2', D, "        if abs(days)>1:\n            self._populate()", "        if abs(days)>2:\n            self._populate()", 'C05.3'),
    ('add table minus days', D, "            return self.int2dt[self.dt2int[t] + days]", "            return self.int2dt[self.dt2int[t] - days]", 'C05.3'),
    ('add drops populate', D, "        if abs(days)>1:\n            self._populate()\n", "        if abs(days)>1:\n", 'C05.4'),
    ('bdays drops populate', D, "    def bdays(self, t0, t1, adj = None):\n        self._populate()\n", "    def bdays(self, t0, t1, adj = None):\n", 'C05.4'),
    ('populate keeps weekend', D, "byweekday = tuple(v for k,v in weekdays.items() if k not in self.weekend)", "byweekday = tuple(v for k,v in weekdays.items() if k in self.weekend)", 'C05.5'),
    ('populate keeps holidays', D, "until = self.t1, byweekday = byweekday) if date not in self.holidays]", "until = self.t1, byweekday = byweekday)]", 'C05.5'),
    ('int2dt off by one', D, "            self['int2dt'] = dict(zip(range(len(bdays)), bdays))", "            self['int2dt'] = dict(zip(range(1, len(bdays)+1), bdays))", 'C05.5'),
    ('bdays swapped', D, "        return self.dt2int[self.adjust(t1, adj)] - self.dt2int[self.adjust(t0, adj)]", "        return self.dt2int[self.adjust(t0, adj)] - self.dt2int[self.adjust(t1, adj)]", 'C05.6'),
    ('drange exclusive end', D, "            return [self.int2dt[i] for i in range(i0, i1+b, b)]", "            return [self.int2dt[i] for i in range(i0, i1, b)]", 'C05.6'),
    ('calendar not re-registered for weekend', D, "    elif key not in calendars or holidays is not None or weekend is not None or t0 is not None or t1 is not None:", "    elif key not in calendars or holidays is not None or t0 is not None or t1 is not None:", 'C05.7'),
]
TWINS = [
    ('is_bday de morgan', D, "        return date.weekday() not in self.weekend and ymd(date) not in self.holidays", "        return not (date.weekday() in self.weekend or ymd(date) in self.holidays)"),
    ('add threshold >= 2', D, "        if abs(days)>1:\n            self._populate()", "        if abs(days)>=2:\n            self._populate()"),
]
