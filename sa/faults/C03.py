P = '_pandas'
FAULTS = [
    ('swap union/intersection', P, "                return reducing('intersection')(indexes)        \n            elif index[0].lower() == 'o':#uter\n                return reducing('union')(indexes)", "                return reducing('union')(indexes)        \n            elif index[0].lower() == 'o':#uter\n                return reducing('intersection')(indexes)", 'C03.1'),
    ('right join takes first', P, "            elif index[0].lower() == 'r':#uter\n                return indexes[-1]\n        else:\n            return _index(index)", "            elif index[0].lower() == 'r':#uter\n                return indexes[0]\n        else:\n            return _index(index)", 'C03.1'),
    ('np inner = max', P, "        if index[0].lower() == 'i':#nner\n            return min(indexes)", "        if index[0].lower() == 'i':#nner\n            return max(indexes)", 'C03.1'),
    ('drop _nona before as-of reindex', P, "            res = _nona(ts).reindex(index, method = methods[0], limit = limit)", "            res = ts.reindex(index, method = methods[0], limit = limit)", 'C03.2'),
    ('array keeps head', P, "                res = ts[-index:]", "                res = ts[:index]", 'C03.3'),
    ('array pads at the end', P, "                res = np.concatenate([np.full(shape, np.nan),ts])", "                res = np.concatenate([ts, np.full(shape, np.nan)])", 'C03.3'),
    ('non-ts returns None', P, "        else:\n            return ts\n    else:\n        return ts\n    \n\n@loop(list, tuple, dict)\ndef _df_recolumn", "        else:\n            return ts\n    else:\n        return None\n    \n\n@loop(list, tuple, dict)\ndef _df_recolumn", 'C03.4'),
    ('loop rebuilds list always', '_loop', "            res = [self._wrapped(arg[i], tuple(_item_by_i(a,i,n) for a in args), {k: _item_by_i(v,i,n) for k, v in kwargs.items()}) for i in range(n)]                            \n            return type(arg)(res)", "            res = [self._wrapped(arg[i], tuple(_item_by_i(a,i,n) for a in args), {k: _item_by_i(v,i,n) for k, v in kwargs.items()}) for i in range(n)]                            \n            return list(res)", 'C03.5'),
    ('_df_recolumn not lifted over dict', P, "@loop(list, tuple, dict)\ndef _df_recolumn", "@loop(list, tuple)\ndef _df_recolumn", 'C03.6'),
    ('df_sync index from frames only', P, "    index = df_index(listed, join)\n    dfs = df_reindex(dfs, index, method = method)", "    index = df_index(tss, join)\n    dfs = df_reindex(dfs, index, method = method)", 'C03.7'),
    ('df_sync drops method', P, "    dfs = df_reindex(dfs, index, method = method)\n", "    dfs = df_reindex(dfs, index)\n", 'C03.7'),
    ('presync ignores kwargs operands', P, "        values = list(args) + list(kwargs.values())", "        values = list(args)", 'C03.7'),
]
TWINS = [
    ('policy chain flipped compare', P, "            if index[0].lower() == 'i':#nner\n                return reducing('intersection')(indexes)", "            if 'i' == index[0].lower():#nner\n                return reducing('intersection')(indexes)"),
]
