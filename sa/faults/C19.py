L = '_loop'
FAULTS = [
    ('generator companions again', L, "            res = [self._wrapped(arg[i], tuple(_item_by_i(a,i,n) for a in args), {k: _item_by_i(v,i,n) for k, v in kwargs.items()}) for i in range(n)]                            ", "            res = [self._wrapped(arg[i], (_item_by_i(a,i,n) for a in args), {k: _item_by_i(v,i,n) for k, v in kwargs.items()}) for i in range(n)]                            ", 'C19.1'),
    ('map object as companions', L, "            res = {key : self._wrapped(arg[key], tuple(_item_by_key(a,key,keys) for a in args), {k : _item_by_key(v,key,keys) for k,v in kwargs.items()}) for key in arg.keys()}\n            return type(arg)(res)\n        elif", "            res = {key : self._wrapped(arg[key], map(lambda a: _item_by_key(a,key,keys), args), {k : _item_by_key(v,key,keys) for k,v in kwargs.items()}) for key in arg.keys()}\n            return type(arg)(res)\n        elif", 'C19.1'),
    ('list branch returns list', L, "                            \n            return type(arg)(res)\n        else:", "                            \n            return list(res)\n        else:", 'C19.2'),
    ('companion dict order sensitive', L, "        if sorted(value.keys()) == keys:\n            return value[key]", "        if list(value.keys()) == keys:\n            return value[key]", 'C19.3'),
    ('companion by length off', L, "    if isinstance(value, (list, tuple)):\n        if len(value) == n:\n            return value[i]", "    if isinstance(value, (list, tuple)):\n        if len(value) >= n:\n            return value[i]", 'C19.3'),
    ('_lower not lifted over tuple', '_txt', "@loop(list, dict, tuple)\ndef _lower(text):", "@loop(list, dict)\ndef _lower(text):", 'C19.4'),
    ('upper calls _lower', '_txt', "    return _upper(value)", "    return _lower(value)", 'C19.4'),
    ('zipper scalar test len0', '_zip', "    values = [list(value) if isinstance(value, zip) else value if is_iterable(value) else [value] for value in values]", "    values = [list(value) if isinstance(value, zip) else value if len0(value) else [value] for value in values]", 'C19.5'),
    ('lens allows two lengths', '_zip', "    if len(lens)>1:", "    if len(lens)>2:", 'C19.5'),
    ('as_list returns tuple', '_as_list', "        if len(value)==1 and isinstance(value[0], list):\n            return value[0]\n        else:\n            return list(value)", "        if len(value)==1 and isinstance(value[0], list):\n            return value[0]\n        else:\n            return value", 'C19.6'),
    ('waiter as_completed', '_waiter', "        values = await asyncio.gather(*[waiter(v) for v in value])\n        return type(value)(values)", "        values = [await f for f in asyncio.as_completed([waiter(v) for v in value])]\n        return type(value)(values)", 'C19.7'),
    ('waiter dict loses type', '_waiter', "        return type(value)(dict(zip(value.keys(), values))) ", "        return dict(zip(value.keys(), values))", 'C19.7'),
]
TWINS = [
    ('list companions instead of tuple', L, "            res = [self._wrapped(arg[i], tuple(_item_by_i(a,i,n) for a in args), {k: _item_by_i(v,i,n) for k, v in kwargs.items()}) for i in range(n)]                            ", "            res = [self._wrapped(arg[i], [_item_by_i(a,i,n) for a in args], {k: _item_by_i(v,i,n) for k, v in kwargs.items()}) for i in range(n)]                            "),
]
