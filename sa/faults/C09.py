D = '_dates'
FAULTS = [
    ('b: > 4 -> >= 4', D, "                    if wday + d > 4:\n                        d+=2", "                    if wday + d >= 4:\n                        d+=2", 'C09.3'),
    ('b: d += 1', D, "                    if wday + d > 4:\n                        d+=2", "                    if wday + d > 4:\n                        d+=1", 'C09.3'),
    ('b: roll 6-wday', D, "                        t = t + (7-wday) * DAY", "                        t = t + (6-wday) * DAY", 'C09.3'),
    ('b: 5*w weeks', D, "                    t = t + DAY * (7*w)", "                    t = t + DAY * (5*w)", 'C09.3'),
    ('b: weekend keeps wday', D, "                        t = t + (7-wday) * DAY\n                        wday = 0\n", "                        t = t + (7-wday) * DAY\n", 'C09.3'),
    ('minutes<->seconds', D, "                    t = t + datetime.timedelta(minutes = int(bmp[:-1]))", "                    t = t + datetime.timedelta(seconds = int(bmp[:-1]))", 'C09.2'),
    ('quarter = 4 months', D, "                    t = _ymd(t.year, t.month + 3  * int(bmp[:-1]), t.day)", "                    t = _ymd(t.year, t.month + 4  * int(bmp[:-1]), t.day)", 'C09.2'),
    ('week branch removed', D, "                elif bmp.endswith('w'):\n                    t  = t + DAY * (7 * int(bmp[:-1]))\n", "", 'C09.1,C09.2'),
    ('regex admits x', D, "period = re.compile('^[-+]{0,1}[0-9]+[dbwmqyhnsDBWMQYHNS]{1}')", "period = re.compile('^[-+]{0,1}[0-9]+[dbwmqyhnsxDBWMQYHNSX]{1}')", 'C09.1'),
    ('regex unanchored', D, "period = re.compile('^[-+]{0,1}[0-9]+[dbwmqyhnsDBWMQYHNS]{1}')", "period = re.compile('[-+]{0,1}[0-9]+[dbwmqyhnsDBWMQYHNS]{1}')", 'C09.1'),
    ('token removed with replace', D, "                bump = bump[len(bmp):]", "                bump = bump.replace(bmp, '')", 'C09.4'),
    ('year bump keeps month+1', D, "                    t = _ymd(t.year+int(bmp[:-1]), t.month, t.day)", "                    t = _ymd(t.year+int(bmp[:-1]), t.month, 1)", 'C09.2'),
    ('_ymd off by one', D, "    return datetime.datetime(y,m,1) + (d-1) * DAY", "    return datetime.datetime(y,m,1) + d * DAY", 'C09.5'),
]
TWINS = [
    ('b: equivalent >= 5', D, "                    if wday + d > 4:\n                        d+=2", "                    if wday + d >= 5:\n                        d = d + 2"),
    ('hoisted n', D, "                elif bmp.endswith('b'):\n                    bdays = int(bmp[:-1])", "                elif bmp.endswith('b'):\n                    bdays = int(bmp[:-1]) + 0"),
]
