D = '_dictable'
FAULTS = [
    ('setitem raise->pass', D, "            raise ValueError('cannot set item of length %s in table of length %s'%(len(value), n))", "            pass", 'C01.3'),
    ('setitem ==1 -> >=1', D, "        elif len(value) == 1:\n            value = value * n ", "        elif len(value) >= 1:\n            value = value * n ", 'C01.3'),
    ('setitem drop broadcast', D, "            value = value * n \n", "            value = value\n", 'C01.3'),
    ('do: res = self', D, "        res = self.copy()\n        if len(keys)  == 0:", "        res = self\n        if len(keys)  == 0:", 'C01.1'),
    ('get default 0 in concat', D, "return {key: [d.get(key) for d in dicts] for key in keys}", "return {key: [d.get(key, 0) for d in dicts] for key in keys}", 'C01.8'),
    ('add: concat(other, self)', D, "        return self.concat(self, other)", "        return self.concat(other, self)", 'C01.8'),
    ('init broadcast guard', D, "value * n if len(value)==1 else value for key, value in kwargs.items()}", "value * n if len(value)<=1 else value for key, value in kwargs.items()}", 'C01.4'),
    ('lens >1 -> >2', '_zip', "    if len(lens)>1:", "    if len(lens)>2:", 'C01.5'),
    ('lens keep 1', '_zip', "    lens = set(all_lens) - {1}", "    lens = set(all_lens)", 'C01.5'),
    ('len over first column', D, "        return lens(*self.values())", "        return lens(*list(self.values())[:1])", 'C01.6'),
    ('getitem bool mask loses columns', D, "                return res if len(res) else type(self)([], self.keys())", "                return res", 'C01.7'),
    ('reverse a column in place in xyz', D, "        zs = self[z]\n", "        zs = self[z]\n        zs.reverse()\n", 'C01.1,C01.2'),
    ('concat mutates first table', D, "        concated = dict_concat(others)\n", "        concated = dict_concat(others)\n        for k in others[0]: others[0][k].extend([])\n", 'C01.1,C01.2'),
]
TWINS = [
    ('rename res in do', D, "        res = self.copy()\n        if len(keys)  == 0:\n            keys = self.keys()\n        keys = as_list(keys)\n        for key in keys:    \n            for f in as_list(function):\n                args = as_list(try_none(getargs)(f))\n                res[key] = [f(row[key], **{k : v for k, v in row.items() if k in args[1:]}) for row in res]\n        return res",
     "        out = self.copy()\n        if len(keys)  == 0:\n            keys = self.keys()\n        keys = as_list(keys)\n        for key in keys:    \n            for f in as_list(function):\n                args = as_list(try_none(getargs)(f))\n                out[key] = [f(row[key], **{k : v for k, v in row.items() if k in args[1:]}) for row in out]\n        return out"),
    ('setitem flipped comparison', D, "        if len(value) == n or len(self.keys()) == 0:", "        if n == len(value) or 0 == len(self.keys()):"),
    ('lens guard flipped', '_zip', "    if len(lens)>1:", "    if 1 < len(lens):"),
]
