D = '_dictable'
FAULTS = [
    ('join: drop l+=1 in inner loop', D, "                while l<ls and r<rs and cmp(lxs[l],rxs[r]) == -1:\n                    l+=1\n", "                while l<ls and r<rs and cmp(lxs[l],rxs[r]) == -1:\n                    pass\n", 'C02.1'),
    ('join: equal branch advances only r', D, "                    res.append((lxs[l], lids[l], rids[r]))\n                    r+=1\n                    l+=1\n", "                    res.append((lxs[l], lids[l], rids[r]))\n                    r+=1\n", 'C02.5'),
    ('join: third guard back to ==', D, "                if l<ls and r<rs and cmp(lxs[l],rxs[r]) == 0:", "                if l<ls and r<rs and lxs[l] == rxs[r]:", 'C02.1'),
    ('xor: third guard cmp == 1', D, "            if l<ls and r<rs and cmp(lxs[l],rxs[r]) == 0:\n                r+=1", "            if l<ls and r<rs and cmp(lxs[l],rxs[r]) == 1:\n                r+=1", 'C02.1,C02.5'),
    ('xor: advance r on -1', D, "                if mode == 0:\n                    res.append(lids[l])\n                l+=1", "                if mode == 0:\n                    res.append(lids[l])\n                r+=1", 'C02.1,C02.5'),
    ('cmp returns 2', '_sort', "    if lx<ly:\n        return -1", "    if lx<ly:\n        return -2", 'C02.2'),
    ('join: swap nesting in right columns', D, "            v= other[k]\n            rtn[k] = sum([[v[r] for l in lid for r in rid] for lid, rid in zip(lids, rids)], [])            \n        for k in jkeys:", "            v= other[k]\n            rtn[k] = sum([[v[r] for r in rid for l in lid] for lid, rid in zip(lids, rids)], [])            \n        for k in jkeys:", 'C02.4'),
    ('join: left column indexed with r', D, "        for k in lkeys:\n            v= self[k]\n            rtn[k] = sum([[v[l] for l in lid for r in rid]", "        for k in lkeys:\n            v= self[k]\n            rtn[k] = sum([[v[r] for l in lid for r in rid]", 'C02.4'),
    ('xor: drop tail flush', D, "            if l<ls:\n                res.extend(lids[l:])\n", "", 'C02.5'),
    ('xor: collect in equal branch', D, "            if l<ls and r<rs and cmp(lxs[l],rxs[r]) == 0:\n                r+=1\n                l+=1\n        if mode == 0:", "            if l<ls and r<rs and cmp(lxs[l],rxs[r]) == 0:\n                res.append(lids[l])\n                r+=1\n                l+=1\n        if mode == 0:", 'C02.5'),
    ('join: cross product over self twice', D, "            lids = [range(len(self))]; rids = [range(len(other))]", "            lids = [range(len(self))]; rids = [range(len(self))]", 'C02.6'),
    ('join: mode l takes other', D, "            if (is_str(mode) and mode[0].lower() == 'l') or mode == 0:\n                v = self[k]", "            if (is_str(mode) and mode[0].lower() == 'l') or mode == 0:\n                v = other[k]", 'C02.6'),
    ('join: empty result drops jkeys', D, "                return type(self)([], cols + lkeys + rkeys + jkeys)", "                return type(self)([], cols + lkeys + rkeys)", 'C02.6'),
    ('join: callable mode swapped', D, "[[mode(lv[l], rv[r]) for l in lid for r in rid]", "[[mode(rv[r], lv[l]) for l in lid for r in rid]", 'C02.6'),
    ('xor mutates other', D, "        lxs, lids = self._listby(lcols)\n        rxs, rids = other._listby(rcols)\n        mode = 1", "        lxs, lids = self._listby(lcols)\n        rxs, rids = other._listby(rcols)\n        other['_seen'] = [True] * len(other)\n        mode = 1", 'C02.7'),
]
TWINS = [
    ('join: flipped bound comparisons', D, "            while l<ls and r<rs:\n                while l<ls and r<rs and cmp(lxs[l],rxs[r]) == -1:\n                    l+=1", "            while ls>l and rs>r:\n                while ls>l and rs>r and -1 == cmp(lxs[l],rxs[r]):\n                    l = l + 1"),
    ('xor: rename res', D, "        res = []\n        while l<ls and r<rs:\n            while l<ls and r<rs and cmp(lxs[l],rxs[r]) == -1:\n                if mode == 0:\n                    res.append(lids[l])", "        res = []\n        while l<ls and r<rs:\n            while l<ls and r<rs and cmp(lxs[l],rxs[r]) == -1:\n                if 0 == mode:\n                    res.append(lids[l])"),
]
