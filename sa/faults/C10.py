D = '_drange'
FAULTS = [
    ('timedelta loop exclusive', D, "            while t<=t1:\n                res.append(t)\n                t = t + bump", "            while t<t1:\n                res.append(t)\n                t = t + bump", 'C10.1'),
    ('timedelta forward guard deleted', D, "            if t0 + bump <= t0:\n                raise ValueError('cannot move forward from %s to %s using %s'%(t0, t1, bump))\n", "", 'C10.1'),
    ('compound back guard wrong polarity', D, "            if dt_bump(t0, bump) >= t0:\n                raise ValueError('cannot move back from %s to %s using %s'%(t0, t1, bump))", "            if dt_bump(t0, bump) <= t0:\n                raise ValueError('cannot move back from %s to %s using %s'%(t0, t1, bump))", 'C10.1'),
    ('int guard dropped', D, "        if (t1-t0).days * bump <= 0:\n            raise ValueError('cannot go from %s to %s in steps of %s'%(t0,t1,bump))\n", "", 'C10.1'),
    ('rrule path for negative interval again', D, "            elif interval > 0:\n                return list(rrule(freq, interval = interval, dtstart = t0, until = t1))", "            else:\n                return list(rrule(freq, interval = interval, dtstart = t0, until = t1))", 'C10.2'),
    ('stride before reversal', D, "        res = res[::-1] if bump<0 else res\n        res = res[::abs(bump)] if abs(bump)>1 else res", "        res = res[::abs(bump)] if abs(bump)>1 else res\n        res = res[::-1] if bump<0 else res", 'C10.4'),
    ('b: weekday < 6', D, "until = max(t0,t1)) if t.weekday()<5]", "until = max(t0,t1)) if t.weekday()<6]", 'C10.4'),
    ('t0==t1 shortcut removed', D, "    if t0 == t1:\n        return [t0]        \n", "", 'C10.3'),
    ('quarter = 4 months', D, "            interval = int(bump[:-1]) * dict(q = 3).get(prd ,1)", "            interval = int(bump[:-1]) * dict(q = 4).get(prd ,1)", 'C10.5'),
    ('LY q weekly', D, "_LY = dict(b = DAILY, d = DAILY, w = WEEKLY, m = MONTHLY, q = MONTHLY,", "_LY = dict(b = DAILY, d = DAILY, w = WEEKLY, m = MONTHLY, q = WEEKLY,", 'C10.5'),
    ('loop steps before recording', D, "            while t>=t1:\n                res.append(t)\n                t = dt_bump(t, bump)", "            while t>=t1:\n                t = dt_bump(t, bump)\n                res.append(t)", 'C10.4'),
    ('int rrule interval abs(bump)', D, "        res = list(rrule(freq, interval = 1, dtstart = min(t0,t1), until = max(t0,t1)))", "        res = list(rrule(freq, interval = abs(bump), dtstart = min(t0,t1), until = max(t0,t1)))", 'C10.2'),
]
TWINS = [
    ('flipped loop compare', D, "            while t<=t1:\n                res.append(t)\n                t = t + bump", "            while t1>=t:\n                res.append(t)\n                t = t + bump"),
]
