D = '_decorators'
FAULTS = [
    ('try_back drops function=', D, "        super(try_back, self).__init__(function = function, function_fullargspec = function_fullargspec)", "        super(try_back, self).__init__(function_fullargspec = function_fullargspec)", 'C18.1'),
    ('try_value fallback outside except', D, "            except Exception as e:\n                if self.verbose:\n                    logger.warning('WARN: %s' % e)\n                return copy(self.value)\n        else:\n            return self.function(*args, **kwargs)", "            except Exception as e:\n                if self.verbose:\n                    logger.warning('WARN: %s' % e)\n            return copy(self.value)\n        else:\n            return self.function(*args, **kwargs)", 'C18.2'),
    ('try_back bare except', D, "        try:\n            return self.function(*args, **kwargs)\n        except Exception:\n            return args[0] if len(args)>0", "        try:\n            return self.function(*args, **kwargs)\n        except:\n            return args[0] if len(args)>0", 'C18.2'),
    ('kwargs_support inverted filter', D, "        kwargs = {key : value for key, value in kwargs.items() if key in _args}", "        kwargs = {key : value for key, value in kwargs.items() if key not in _args}", 'C18.3'),
    ('no direct unwrapping', D, "        if type(function) == type(self):\n            kw = function._kwargs\n            kw.update(kwargs)\n            function = copy(function.function)\n        else:\n            kw = kwargs", "        kw = kwargs", 'C18.4'),
    ('chain edited in place again', D, "                f[_function] = copy(f.function) # only the top of the chain was copied: copy each wrapper before we edit below it\n", "", 'C18.5'),
    ('top of chain not copied', D, "        function = copy(function)\n        if type(function) == type(self):", "        if type(function) == type(self):", 'C18.5'),
    ('fullargspec of the wrapper itself', D, "            self[_spec] = as_DictArgSpec(getargspec(self[_function]))", "            self[_spec] = as_DictArgSpec(getargspec(self.wrapped))", 'C18.6'),
    ('cache stores under other key', '_cache', "                self.cache[key] = self.function(*args, **kwargs)", "                self.cache[args] = self.function(*args, **kwargs)", 'C18.7'),
    ('cache key ignores kwargs', '_cache', "        return _prehash((args, kwargs))", "        return _hash((args, kwargs))", 'C18.7'),
    ('getcallargs bucket from res', '_inspect', "        varkw = {key: value for key, value in kwargs.items() if key not in arg_names}", "        varkw = {key: value for key, value in kwargs.items() if key not in res}", 'C18.8'),
    ('call_with_callargs args order', '_inspect', "    args = [params[arg] for arg in arg_names if arg in params] + list(varargs)", "    args = list(varargs) + [params[arg] for arg in arg_names if arg in params]", 'C18.8'),
    ('getargspec ignores fullargspec', '_inspect', "    if hasattr(function, 'fullargspec'):\n        return function.fullargspec\n    else:\n        return inspect.getfullargspec(function)", "    return inspect.getfullargspec(function)", 'C18.6'),
]
TWINS = [
    ('cache membership flipped', '_cache', "            if key not in self.cache:", "            if not key in self.cache:"),
]
