"""Normalisation of the parsed package before any rule runs, so that rules decide on the program and not on its spelling:

1. else-elimination: `if A: <always terminates> else: B`  ==>  `if A: ...` followed by B (recursively, so an if/elif/else chain of
   returning branches and the same code written with early returns become the SAME tree);
2. sibling links (`_next`) so that `au.if_chain` can read a run of consecutive terminating `if`s as one dispatch chain;
3. alpha-renaming against the reference snapshot (sa/reference.json, generated from the tree the rules were confirmed on): when a
   function is identical to its reference up to a consistent renaming of its local names, the current names are mapped back to the
   reference names. (Rules mention local names only as written in the reference tree.)
All three are behaviour-preserving rewrites of the AST in memory; /repo is never written."""
import ast, copy, hashlib, json, os

HERE = os.path.dirname(os.path.abspath(__file__))
REF_PATH = os.path.join(HERE, 'reference.json')
_REF = None


def reference():
    global _REF
    if _REF is None:
        try:
            _REF = json.load(open(REF_PATH))
        except Exception:
            _REF = {}
    return _REF


# ------------------------------------------------------------------------------------------- 1. else-elimination
def terminates(stmts):
    """does this block always end in return / raise / continue / break?"""
    if not stmts:
        return False
    s = stmts[-1]
    if isinstance(s, (ast.Return, ast.Raise, ast.Continue, ast.Break)):
        return True
    if isinstance(s, ast.If):
        return bool(s.orelse) and terminates(s.body) and terminates(s.orelse)
    if isinstance(s, ast.Try):
        return terminates(s.body) and all(terminates(h.body) for h in s.handlers) and not s.orelse and not s.finalbody if s.handlers else False
    return False


def _copy_pos(new, old):
    for n in ast.walk(new):
        if not hasattr(n, 'lineno'):
            ast.copy_location(n, old)
    return new


def statement_form(s):
    """`T = A if c else B` -> if c: T = A / else: T = B;  `return A if c else B` -> if c: return A / else: return B  (recursively for
    chained conditional expressions), so that a conditional written as an expression and the same conditional written as statements are
    one form. Evaluation order (test first, then exactly one arm) is the same in both."""
    if isinstance(s, ast.Return) and isinstance(s.value, ast.IfExp):
        e = s.value
        a = statement_form(ast.copy_location(ast.Return(value=e.body), e.body))
        b = statement_form(ast.copy_location(ast.Return(value=e.orelse), e.orelse))
        return ast.copy_location(ast.If(test=e.test, body=[a], orelse=[b]), s)
    if isinstance(s, ast.Assign) and isinstance(s.value, ast.IfExp) and len(s.targets) == 1 and isinstance(s.targets[0], ast.Name):
        e = s.value
        t = s.targets[0]
        if t.id in {n.id for n in ast.walk(e.test) if isinstance(n, ast.Name)} | set() and False:
            return s
        a = statement_form(ast.copy_location(ast.Assign(targets=[copy.deepcopy(t)], value=e.body), e.body))
        b = statement_form(ast.copy_location(ast.Assign(targets=[copy.deepcopy(t)], value=e.orelse), e.orelse))
        return ast.copy_location(ast.If(test=e.test, body=[a], orelse=[b]), s)
    return s


def _flag_loops_to_returns(block):
    """`F = c0` / `for ..: [..] if t: F = c1; break` / `return F`   ==   `for ..: [..] if t: return c1` / `return c0`
    (F a local written nowhere else and read only by that return; the `if` directly in the loop body, the loop without else)"""
    k = 0
    for i in range(len(block) - 2):
        a, loop, ret = block[i], block[i + 1], block[i + 2]
        if not (isinstance(a, ast.Assign) and len(a.targets) == 1 and isinstance(a.targets[0], ast.Name) and isinstance(a.value, ast.Constant)
                and isinstance(loop, (ast.For, ast.While)) and not loop.orelse and isinstance(ret, ast.Return) and isinstance(ret.value, ast.Name) and ret.value.id == a.targets[0].id):
            continue
        f = a.targets[0].id
        hits = [s for s in loop.body if isinstance(s, ast.If) and not s.orelse and len(s.body) == 2 and isinstance(s.body[1], ast.Break) and isinstance(s.body[0], ast.Assign)
                and len(s.body[0].targets) == 1 and isinstance(s.body[0].targets[0], ast.Name) and s.body[0].targets[0].id == f and isinstance(s.body[0].value, ast.Constant)]
        uses = [n for n in ast.walk(loop) if isinstance(n, ast.Name) and n.id == f]
        breaks = [n for n in ast.walk(loop) if isinstance(n, ast.Break)]
        if len(hits) != 1 or len(uses) != 1 or len(breaks) != 1:
            continue
        h = hits[0]
        h.body = [ast.copy_location(ast.Return(value=h.body[0].value), h.body[0])]
        ret.value = ast.copy_location(ast.Constant(value=a.value.value), ret.value)
        block[i] = ast.copy_location(ast.Pass(), a)
        k += 1
    if k:
        block[:] = [s for s in block if not isinstance(s, ast.Pass)] or [ast.Pass()]
    return k


def _dup_tail_return(ifnode, ret):
    """append a copy of `ret` to every branch of the if / elif / else chain that can fall out of it; True when no path falls out afterwards"""
    closed = True
    if not terminates(ifnode.body):
        ifnode.body.append(copy.deepcopy(ret))
    if not ifnode.orelse:
        return False
    if len(ifnode.orelse) == 1 and isinstance(ifnode.orelse[0], ast.If):
        if not _dup_tail_return(ifnode.orelse[0], ret):
            ifnode.orelse.append(copy.deepcopy(ret))
    elif not terminates(ifnode.orelse):
        ifnode.orelse.append(copy.deepcopy(ret))
    return True


def flatten_block(stmts):
    # `if c: A / else: B` followed by the block's final `return T` is `if c: A; return T` / `B; return T`: merged exits and early returns are
    # one shape (the shape with the returns in the branches, which else-elimination below then flattens)
    if len(stmts) >= 2 and isinstance(stmts[-1], ast.Return) and isinstance(stmts[-2], ast.If) and stmts[-2].orelse and not terminates([stmts[-2]]) \
            and (stmts[-1].value is None or isinstance(stmts[-1].value, (ast.Name, ast.Constant, ast.Attribute))):
        stmts = list(stmts)
        if _dup_tail_return(stmts[-2], stmts[-1]):
            stmts = stmts[:-1]
    stmts = list(stmts)
    _flag_loops_to_returns(stmts)
    out = []
    for s in stmts:
        for f in ('body', 'orelse', 'finalbody'):
            v = getattr(s, f, None)
            if isinstance(v, list) and v and isinstance(v[0], ast.stmt):
                setattr(s, f, flatten_block(v))
        if isinstance(s, ast.Try):
            for h in s.handlers:
                h.body = flatten_block(h.body)
        if isinstance(s, ast.If) and s.orelse and terminates(s.body):
            rest = s.orelse
            s.orelse = []
            out.append(s)
            out.extend(rest)        # already flattened above
        else:
            out.append(s)
    return out


def link_siblings(node):
    for n in ast.walk(node):
        for f in ('body', 'orelse', 'finalbody'):
            v = getattr(n, f, None)
            if isinstance(v, list):
                for i, s in enumerate(v):
                    if isinstance(s, ast.stmt):
                        s._next = v[i + 1:]


# ------------------------------------------------------------------------------------------- 3. alpha renaming
def _strip_doc(fn):
    b = fn.body
    if b and isinstance(b[0], ast.Expr) and isinstance(b[0].value, ast.Constant) and isinstance(b[0].value.value, str) and len(b) > 1:
        fn.body = b[1:]


def local_names(fn):
    """names bound inside fn (params, assignment/loop/with/except targets, comprehension and lambda variables, nested def names)"""
    names = []

    def add(n):
        if n not in names:
            names.append(n)

    def tg(t):
        if isinstance(t, ast.Name):
            add(t.id)
        elif isinstance(t, (ast.Tuple, ast.List)):
            for e in t.elts:
                tg(e.value if isinstance(e, ast.Starred) else e)
    for n in ast.walk(fn):
        if isinstance(n, ast.arguments):
            for a in n.posonlyargs + n.args + n.kwonlyargs:
                add(a.arg)
            if n.vararg:
                add(n.vararg.arg)
            if n.kwarg:
                add(n.kwarg.arg)
        elif isinstance(n, ast.Assign):
            for t in n.targets:
                tg(t)
        elif isinstance(n, (ast.AugAssign, ast.AnnAssign, ast.NamedExpr)):
            tg(n.target)
        elif isinstance(n, (ast.For, ast.AsyncFor, ast.comprehension)):
            tg(n.target)
        elif isinstance(n, (ast.With, ast.AsyncWith)):
            for i in n.items:
                if i.optional_vars is not None:
                    tg(i.optional_vars)
        elif isinstance(n, ast.ExceptHandler) and n.name:
            add(n.name)
        elif isinstance(n, (ast.FunctionDef, ast.AsyncFunctionDef)) and n is not fn:
            add(n.name)
    glob = set()
    for n in ast.walk(fn):
        if isinstance(n, (ast.Global, ast.Nonlocal)):
            glob |= set(n.names)
    return [n for n in names if n not in glob]


def _canon_fn(fn, sort_comm=True, copy_=True):
    """copy of fn with comparisons canonicalised (b<a for a>b, `not` pushed in) so that such spellings do not count as differences"""
    from .au import canon as canon_
    canon = lambda e: canon_(e, sort_comm=sort_comm)
    if copy_:
        fn = copy.deepcopy(fn)
        _strip_doc(fn)

    class T(ast.NodeTransformer):
        def visit_If(self, n):
            self.generic_visit(n)
            n.test = canon(n.test)
            return n

        def visit_While(self, n):
            self.generic_visit(n)
            n.test = canon(n.test)
            return n

        def visit_IfExp(self, n):
            self.generic_visit(n)
            n.test = canon(n.test)
            return n

        def visit_comprehension(self, n):
            self.generic_visit(n)
            n.ifs = [canon(i) for i in n.ifs]
            return n
    return T().visit(fn)


SCOPES = (ast.Lambda, ast.ListComp, ast.SetComp, ast.DictComp, ast.GeneratorExp, ast.FunctionDef, ast.AsyncFunctionDef)


def _bound(scope):
    """names bound directly in this scope (not in nested lambdas / comprehensions / defs)"""
    names = []

    def add(n):
        if n not in names:
            names.append(n)

    def tg(t):
        if isinstance(t, ast.Name):
            add(t.id)
        elif isinstance(t, (ast.Tuple, ast.List)):
            for e in t.elts:
                tg(e.value if isinstance(e, ast.Starred) else e)
    glob = set()

    def args(a):
        for x in a.posonlyargs + a.args + a.kwonlyargs:
            add(x.arg)
        if a.vararg:
            add(a.vararg.arg)
        if a.kwarg:
            add(a.kwarg.arg)

    def walk(n, top=False):
        if not top and isinstance(n, SCOPES):
            if isinstance(n, (ast.FunctionDef, ast.AsyncFunctionDef)):
                add(n.name)
            return
        if isinstance(n, ast.Assign):
            for t in n.targets:
                tg(t)
        elif isinstance(n, (ast.AugAssign, ast.AnnAssign, ast.NamedExpr)):
            tg(n.target)
        elif isinstance(n, (ast.For, ast.AsyncFor)):
            tg(n.target)
        elif isinstance(n, (ast.With, ast.AsyncWith)):
            for i in n.items:
                if i.optional_vars is not None:
                    tg(i.optional_vars)
        elif isinstance(n, ast.ExceptHandler) and n.name:
            add(n.name)
        elif isinstance(n, (ast.Global, ast.Nonlocal)):
            glob.update(n.names)
        elif isinstance(n, (ast.Import, ast.ImportFrom)):
            for a in n.names:
                add((a.asname or a.name).split('.')[0])
        for c in ast.iter_child_nodes(n):
            walk(c)
    if isinstance(scope, (ast.FunctionDef, ast.AsyncFunctionDef, ast.Lambda)):
        args(scope.args)
        for c in (scope.body if isinstance(scope.body, list) else [scope.body]):
            walk(c)
    else:   # comprehension
        for g in scope.generators:
            tg(g.target)
            for c in g.ifs:
                walk(c)
        for f in ('elt', 'key', 'value'):
            if hasattr(scope, f):
                walk(getattr(scope, f))
    return [n for n in names if n not in glob]


def fn_scope_locals(fn):
    """names bound in the function's own scope (not those of its lambdas / comprehensions / nested defs)"""
    return set(_bound(fn))


def scoped_rename(fn, mapper):
    """rewrite, in place, every occurrence of a locally bound name of fn; mapper(scope index, name) -> new name. Lambdas, comprehensions
    and nested defs are scopes of their own (numbered in traversal order), so a name reused in a lambda and in the function body is two
    different variables - exactly as Python sees them."""
    counter = [0]

    def visit(node, stack):
        if isinstance(node, SCOPES):
            idx = counter[0]
            counter[0] += 1
            if isinstance(node, (ast.FunctionDef, ast.AsyncFunctionDef)) and stack:
                ren_name(node, 'name', stack)            # the def's own name is bound in the enclosing scope
            inner = stack + [(idx, set(_bound(node)))]
            if isinstance(node, (ast.FunctionDef, ast.AsyncFunctionDef, ast.Lambda)):
                for d in node.args.defaults + [d for d in node.args.kw_defaults if d is not None]:
                    visit(d, stack)
                for a in node.args.posonlyargs + node.args.args + node.args.kwonlyargs + [x for x in (node.args.vararg, node.args.kwarg) if x]:
                    ren_name(a, 'arg', inner)
                if isinstance(node, ast.Lambda):
                    visit(node.body, inner)
                else:
                    for d in node.decorator_list:
                        visit(d, stack)
                    for s in node.body:
                        visit(s, inner)
            else:
                for i, g in enumerate(node.generators):
                    visit(g.iter, stack if i == 0 else inner)
                    visit(g.target, inner)
                    for c in g.ifs:
                        visit(c, inner)
                for f in ('elt', 'key', 'value'):
                    if hasattr(node, f):
                        visit(getattr(node, f), inner)
            return
        if isinstance(node, ast.Name):
            ren_name(node, 'id', stack)
            return
        if isinstance(node, ast.ExceptHandler) and node.name:
            ren_name(node, 'name', stack)
        for c in ast.iter_child_nodes(node):
            visit(c, stack)

    def ren_name(node, field, stack):
        name = getattr(node, field)
        for idx, bound in reversed(stack):
            if name in bound:
                setattr(node, field, mapper(idx, name))
                return
    visit(fn, [])


def blind(fn):
    """(digest of the name-blind dump, {scope index: local names in order of first occurrence})"""
    fn = _canon_fn(fn, sort_comm=False)        # shape first: the order in which names are met must not depend on how they are spelled
    order = {}

    def ph(idx, name):
        o = order.setdefault(idx, [])
        if name not in o:
            o.append(name)
        return 's%dv%d' % (idx, o.index(name))
    scoped_rename(fn, ph)
    fn = _canon_fn(fn, sort_comm=True, copy_=False)      # operands of commutative comparisons sorted by their placeholders
    fn.name = 'f'
    d = ast.dump(fn, annotate_fields=False, include_attributes=False)
    return hashlib.sha1(d.encode()).hexdigest(), [order.get(i, []) for i in range(max(order) + 1)] if order else []


def rename_locals(fn, mapping):
    """mapping = {scope index: {current name: reference name}}"""
    scoped_rename(fn, lambda idx, name: mapping.get(idx, {}).get(name, name))


def functions_of(tree, mod):
    """(key, node) of every function: module level, methods, and - inner ones first - functions nested in them (`outer.<locals>.inner`)"""
    def nested(prefix, fn):
        for n in ast.walk(fn):
            if isinstance(n, (ast.FunctionDef, ast.AsyncFunctionDef)) and n is not fn and _direct_child_def(fn, n):
                yield from nested('%s.<locals>.%s' % (prefix, n.name), n)
        yield prefix, fn
    for n in tree.body:
        if isinstance(n, (ast.FunctionDef, ast.AsyncFunctionDef)):
            yield from nested('%s:%s' % (mod, n.name), n)
        elif isinstance(n, ast.ClassDef):
            for b in n.body:
                if isinstance(b, (ast.FunctionDef, ast.AsyncFunctionDef)):
                    yield from nested('%s:%s.%s' % (mod, n.name, b.name), b)


def _direct_child_def(outer, inner):
    """is `inner` defined directly in the body of `outer` (not inside a further nested def)?"""
    def rec(n):
        for c in ast.iter_child_nodes(n):
            if c is inner:
                return True
            if isinstance(c, (ast.FunctionDef, ast.AsyncFunctionDef, ast.Lambda, ast.ClassDef)):
                continue
            if rec(c):
                return True
        return False
    return rec(outer)


def _header(s):
    """a statement without its nested blocks (compound statements are compared by their header)"""
    if isinstance(s, (ast.If, ast.While)):
        return ast.Expr(value=ast.Tuple(elts=[ast.Constant(type(s).__name__), s.test], ctx=ast.Load()))
    if isinstance(s, (ast.For, ast.AsyncFor)):
        return ast.Expr(value=ast.Tuple(elts=[ast.Constant('for'), s.target, s.iter], ctx=ast.Load()))
    if isinstance(s, (ast.With, ast.AsyncWith)):
        return ast.Expr(value=ast.Tuple(elts=[ast.Constant('with')] + [i.context_expr for i in s.items], ctx=ast.Load()))
    if isinstance(s, ast.Try):
        return None
    if isinstance(s, (ast.FunctionDef, ast.AsyncFunctionDef, ast.ClassDef)):
        return None
    return s


def statements(fn):
    out = []

    def blk(stmts):
        for s in stmts:
            h = _header(s)
            if h is not None:
                out.append(h)
            for f in ('body', 'orelse', 'finalbody'):
                v = getattr(s, f, None)
                if isinstance(v, list) and v and isinstance(v[0], ast.stmt) and not isinstance(s, (ast.FunctionDef, ast.AsyncFunctionDef, ast.ClassDef)):
                    blk(v)
            if isinstance(s, ast.Try):
                for hd in s.handlers:
                    blk(hd.body)
    blk(_body_of(fn))
    return out


SIGS = {}


def collect_sigs(trees):
    """parameter names of the package's module-level functions whose name is unique in the package (no *args): used to compare calls
    independently of whether an argument is passed by position or by keyword"""
    seen = {}
    for mod, tree in trees.items():
        for n in tree.body:
            if isinstance(n, ast.FunctionDef):
                seen.setdefault(n.name, []).append(n)
    SIGS.clear()
    for name, defs in seen.items():
        if len(defs) == 1 and not defs[0].args.vararg and not defs[0].args.posonlyargs:
            SIGS[name] = [a.arg for a in defs[0].args.args]


class _KwCalls(ast.NodeTransformer):
    def visit_Call(self, n):
        self.generic_visit(n)
        if isinstance(n.func, ast.Name) and n.func.id in SIGS and not any(isinstance(a, ast.Starred) for a in n.args) and len(n.args) <= len(SIGS[n.func.id]):
            names = SIGS[n.func.id]
            kws = [ast.keyword(arg=names[i], value=a) for i, a in enumerate(n.args)] + list(n.keywords)
            if len({k.arg for k in kws}) == len(kws):
                # parameters are identified by their POSITION in the callee's signature (`#2`), so renaming a parameter of a private helper
                # together with its keyword call sites does not change the digest of the callers; **kw and unknown keywords keep their name
                def pos(k):
                    return '#%d' % names.index(k.arg) if k.arg in names else k.arg
                n.args = []
                n.keywords = sorted([ast.keyword(arg=pos(k), value=k.value) for k in kws], key=lambda k: (k.arg is None, str(k.arg)))
        return n


def stmt_blind(s, loc):
    """(digest, names in order of first occurrence) of one statement with the function's local names made anonymous"""
    from .au import canon
    s = copy.deepcopy(s)
    try:
        s = canon(s, sort_comm=False)       # shape first (`not a in b` is `a not in b`): names are numbered in the order the canonical shape shows them
    except Exception:
        pass
    order = []
    for n in ast.walk(s):
        if isinstance(n, ast.Name) and n.id in loc:
            if n.id not in order:
                order.append(n.id)
            n.id = 'v%d' % order.index(n.id)
        elif isinstance(n, ast.arg) and n.arg in loc:
            if n.arg not in order:
                order.append(n.arg)
            n.arg = 'v%d' % order.index(n.arg)
    try:
        s = canon(s)
    except Exception:
        pass
    s = _KwCalls().visit(s)
    return hashlib.sha1(ast.dump(s, annotate_fields=False, include_attributes=False).encode()).hexdigest()[:16], order


def vote_rename(fn, r, stats, key):
    """the function differs from its reference by more than a renaming: names that are new (not in the reference) are mapped onto
    reference names that disappeared, by agreement of the statements that are identical up to names. Any injective, capture-free
    renaming of local identifiers preserves behaviour, so the heuristic only decides WHICH renaming is applied, never its soundness."""
    ref_names = set(n.split('\x01')[0] for o in r['names'] for n in o)
    loc = set(local_names(fn))
    all_ids = {n.id for n in ast.walk(fn) if isinstance(n, ast.Name)} | loc
    new = [n for n in loc if n not in ref_names]
    gone = [n for n in ref_names if n not in all_ids]
    if not new or not gone:
        return
    votes = {}
    refst = {}
    for d, names in r.get('stmts', []):
        refst.setdefault(d, []).append(names)
    for s in statements(fn):
        d, names = stmt_blind(s, loc)
        for rn in refst.get(d, []):
            rn = [x.split('\x01')[0] for x in rn]
            if len(rn) == len(names):
                for a, b in zip(names, rn):
                    if a in new and b in gone:
                        votes[(a, b)] = votes.get((a, b), 0) + 1
                    elif a != b and (a in new or b in gone):
                        votes[(a, b)] = votes.get((a, b), 0) - 1
    mapping, used = {}, set()
    for (a, b), v in sorted(votes.items(), key=lambda kv: (-kv[1], kv[0])):
        if v > 0 and a not in mapping and b not in used and a in new and b in gone:
            mapping[a] = b
            used.add(b)
    if not mapping:
        return
    for n in ast.walk(fn):
        if isinstance(n, (ast.Global, ast.Nonlocal)) and set(n.names) & set(mapping):
            return
    for n in ast.walk(fn):
        if isinstance(n, ast.Name) and n.id in mapping:
            n.id = mapping[n.id]
        elif isinstance(n, ast.arg) and n.arg in mapping:
            n.arg = mapping[n.arg]
        elif isinstance(n, ast.ExceptHandler) and n.name in mapping:
            n.name = mapping[n.name]
        elif isinstance(n, (ast.FunctionDef, ast.AsyncFunctionDef)) and n is not fn and n.name in mapping:
            n.name = mapping[n.name]
    if stats is not None:
        stats.append((key, 'renamed %s' % sorted(mapping.items())))


def vote_rename_webs(fn, r, stats, key):
    """a NEW name that plays the part of a later web of a reference name (the reference rebinds `kwargs`, the refactoring introduced `kept`
    for the second value): map it onto that web, provided merging it into the name does not fuse it with the other webs of that name
    (checked by recomputing the webs of the merged function)."""
    from . import webs
    work = copy.deepcopy(fn)
    webs.split(work, fn_scope_locals(work))
    ref_webs = set(n for o in r['names'] for n in o)
    loc = set(local_names(work))
    cur = loc | {n.id for n in ast.walk(work) if isinstance(n, ast.Name)}
    new = [n for n in fn_scope_locals(work) if n.split(webs.MARK)[0] not in {x.split(webs.MARK)[0] for x in ref_webs}]
    # webs are numbered in order of appearance, so WHICH reference web is missing cannot be read off the numbers: only how many of each name
    base_of = lambda n: n.split(webs.MARK)[0]
    ref_count, cur_count = {}, {}
    for n in ref_webs:
        ref_count[base_of(n)] = ref_count.get(base_of(n), 0) + 1
    for n in {x for x in cur if base_of(x) in ref_count}:
        cur_count[base_of(n)] = cur_count.get(base_of(n), 0) + 1
    room = {b: ref_count[b] - cur_count.get(b, 0) for b in ref_count if b in cur_count and ref_count[b] > cur_count.get(b, 0) and ref_count[b] > 1}
    if not new or not room:
        return 0
    refst = {}
    for d, names in r.get('wstmts', []):
        refst.setdefault(d, []).append(names)
    votes = {}
    for st in statements(work):
        # evidence = the DEFINING statement: `new = E` is, up to names, a reference statement that starts a web of that name
        if not (isinstance(st, ast.Assign) and len(st.targets) == 1 and isinstance(st.targets[0], ast.Name) and st.targets[0].id in new):
            continue
        d, names = stmt_blind(st, loc)
        for b in {base_of(rn[0]) for rn in refst.get(d, []) if len(rn) == len(names) and names and names[0] == st.targets[0].id and base_of(rn[0]) in room
                  and all(x == y or (x in new) for x, y in zip(names[1:], rn[1:]))}:
            votes[(names[0], b)] = votes.get((names[0], b), 0) + 1
    mapping, used = {}, {}
    for (a, b), v in sorted(votes.items(), key=lambda kv: (-kv[1], kv[0])):
        if v > 0 and a not in mapping and used.get(b, 0) < room[b]:
            mapping[a] = '%s%sn%d' % (b, webs.MARK, used.get(b, 0))
            used[b] = used.get(b, 0) + 1
    if not mapping:
        return 0

    def count(f):
        c = {}
        for n in ast.walk(f):
            nm = n.id if isinstance(n, ast.Name) else n.arg if isinstance(n, ast.arg) else None
            if nm:
                c.setdefault(nm.split(webs.MARK)[0], set()).add(nm)
        return {k: len(v) for k, v in c.items()}
    before = count(work)
    for n in ast.walk(work):
        if isinstance(n, ast.Name) and n.id in mapping:
            n.id = mapping[n.id]
    webs.merge(work)
    probe = copy.deepcopy(work)
    webs.split(probe, fn_scope_locals(probe))
    after = count(probe)
    for a, b in mapping.items():
        base = b.split(webs.MARK)[0]
        if after.get(base, 0) != before.get(base, 0) + sum(1 for x in mapping.values() if x.split(webs.MARK)[0] == base):
            return 0          # merging would fuse two values under one name: not a renaming
    fn.body, fn.args = work.body, work.args
    if stats is not None:
        stats.append((key, 'renamed onto later webs %s' % sorted((a, b.replace(webs.MARK, '#')) for a, b in mapping.items())))
    return len(mapping)


def _as_ifexp(s, nxt):
    """candidate conditional-expression spellings of `if c: T = A [else: T = B]` / `if c: return A [else:] return B`:
    [(statement, consumed the following sibling?)] - both polarities (A if c else B, B if not c else A)."""
    from .au import negate
    if not isinstance(s, ast.If) or len(s.body) != 1:
        return []
    a = s.body[0]
    used = False
    if s.orelse:
        if len(s.orelse) != 1:
            return []
        b = s.orelse[0]
    elif isinstance(a, ast.Return) and nxt is not None and isinstance(nxt, ast.Return):
        b, used = nxt, True
    elif isinstance(a, ast.Assign) and len(a.targets) == 1 and isinstance(a.targets[0], ast.Name):
        b = ast.copy_location(ast.Assign(targets=[a.targets[0]], value=ast.copy_location(ast.Name(id=a.targets[0].id, ctx=ast.Load()), a)), a)   # else: T = T
    else:
        return []
    if isinstance(b, ast.If):          # elif chain -> nested conditional expression
        c = _as_ifexp(b, None)
        if not c:
            return []
        b = c[0][0]

    if not s.orelse and isinstance(a, ast.Assign) and len(a.targets) == 1 and isinstance(a.targets[0], ast.Name) and isinstance(s.test, ast.UnaryOp) and isinstance(s.test.op, ast.Not) \
            and isinstance(s.test.operand, ast.Name) and s.test.operand.id == a.targets[0].id:
        # `if not X: X = D`  ==  `X = X or D`
        return [(ast.copy_location(ast.Assign(targets=[a.targets[0]], value=ast.copy_location(ast.BoolOp(op=ast.Or(), values=[ast.copy_location(ast.Name(id=a.targets[0].id, ctx=ast.Load()), a), a.value]), a)), s), False)]

    def both(mk, va, vb):
        pos = ast.copy_location(ast.IfExp(test=s.test, body=va, orelse=vb), s)
        neg = ast.copy_location(ast.IfExp(test=ast.fix_missing_locations(ast.copy_location(negate(copy.deepcopy(s.test)), s.test)), body=vb, orelse=va), s)
        return [(ast.copy_location(mk(pos), s), used), (ast.copy_location(mk(neg), s), used)]
    if isinstance(a, ast.Return) and isinstance(b, ast.Return) and a.value is not None and b.value is not None:
        return both(lambda v: ast.Return(value=v), a.value, b.value)
    if isinstance(a, ast.Assign) and isinstance(b, ast.Assign) and len(a.targets) == 1 and len(b.targets) == 1 \
            and isinstance(a.targets[0], ast.Name) and isinstance(b.targets[0], ast.Name) and a.targets[0].id == b.targets[0].id:
        return both(lambda v: ast.Assign(targets=[a.targets[0]], value=v), a.value, b.value)
    return []


def _truth_positions(s):
    """(parent, field, index or None, negated?) of every marked container name used for its truth value in the header of s"""
    out = []

    def test(parent, field, idx, e, neg=False):
        if isinstance(e, ast.UnaryOp) and isinstance(e.op, ast.Not):
            if isinstance(e.operand, ast.Name) and getattr(e.operand, '_container', False):
                out.append((parent, field, idx, e.operand, True))
                return
            test(e, 'operand', None, e.operand)
            return
        if isinstance(e, ast.BoolOp):
            for k, v in enumerate(e.values):
                test(e, 'values', k, v)
            return
        if isinstance(e, ast.Name) and getattr(e, '_container', False):
            out.append((parent, field, idx, e, False))

    def visit(n, top=False):
        if isinstance(n, (ast.If, ast.While)) and not top:
            return
        if isinstance(n, (ast.If, ast.While, ast.IfExp, ast.Assert)):
            test(n, 'test', None, n.test)
        if isinstance(n, ast.comprehension):
            for k, c in enumerate(n.ifs):
                test(n, 'ifs', k, c)
        if isinstance(n, ast.BoolOp):
            for k, v in enumerate(n.values[:-1] if isinstance(n.op, ast.Or) else n.values[:-1]):
                test(n, 'values', k, v)          # the last operand of and/or is a value, not a test
        if isinstance(n, ast.UnaryOp) and isinstance(n.op, ast.Not):
            test(n, 'operand', None, n.operand)
        for f, v in ast.iter_fields(n):
            if f in ('body', 'orelse', 'finalbody', 'handlers') and isinstance(v, list) and v and isinstance(v[0], (ast.stmt, ast.ExceptHandler)):
                continue
            for c in (v if isinstance(v, list) else [v]):
                if isinstance(c, ast.AST):
                    visit(c)
    visit(s, True)
    seen, res = set(), []
    for p in out:
        if id(p[3]) not in seen:
            seen.add(id(p[3]))
            res.append(p)
    return res


def _respell_emptiness(s, wanted):
    if not any(isinstance(n, ast.Name) and getattr(n, '_container', False) for n in ast.walk(_header(s))):
        return None
    n_pos = len(_truth_positions(s))
    if not n_pos:
        return None
    forms = [(lambda x: ast.Compare(left=_len(x), ops=[ast.Eq()], comparators=[ast.Constant(0)]), lambda x: ast.Compare(left=_len(x), ops=[ast.Gt()], comparators=[ast.Constant(0)])),
             (lambda x: ast.UnaryOp(op=ast.Not(), operand=_len(x)), lambda x: _len(x)),
             (lambda x: ast.Compare(left=_len(x), ops=[ast.Eq()], comparators=[ast.Constant(0)]), lambda x: _len(x)),
             (lambda x: ast.Compare(left=_len(x), ops=[ast.Lt()], comparators=[ast.Constant(1)]), lambda x: ast.Compare(left=_len(x), ops=[ast.GtE()], comparators=[ast.Constant(1)])),
             (lambda x: ast.Compare(left=_len(x), ops=[ast.Eq()], comparators=[ast.Constant(0)]), lambda x: ast.Compare(left=_len(x), ops=[ast.NotEq()], comparators=[ast.Constant(0)]))]
    for which in [None] + list(range(n_pos)) if n_pos > 1 else [None]:
        for neg_form, pos_form in forms:
            t = copy.deepcopy(s)
            for k, (parent, field, idx, name, neg) in enumerate(_truth_positions(t)):
                if which is not None and k != which:
                    continue
                new = ast.copy_location((neg_form if neg else pos_form)(ast.copy_location(ast.Name(id=name.id, ctx=ast.Load()), name)), name)
                if neg and not (isinstance(getattr(parent, field) if idx is None else getattr(parent, field)[idx], ast.UnaryOp)):
                    continue
                if idx is None:
                    setattr(parent, field, new)
                else:
                    getattr(parent, field)[idx] = new
            ast.fix_missing_locations(t)
            if wanted(t):
                return t
    return None


def _len(x):
    return ast.Call(func=ast.Name(id='len', ctx=ast.Load()), args=[x], keywords=[])


def reshape_conditionals(fn, r, stats, key):
    """A conditional written as an expression (`T = A if c else B`, `return A if c else B`) and the same conditional written as statements
    are the same program. Where the current spelling is not the one the reference has and the other spelling is, rewrite to the
    reference's spelling (decided by name-blind statement digests), so that rules read the form they were written for."""
    loc = set(local_names(fn))
    import collections
    have = collections.Counter(d for d, _ in r.get('stmts', []))
    cur = collections.Counter(stmt_blind(x, loc)[0] for x in statements(fn))

    def surplus(x):     # the current function has more statements of this shape than its reference
        return cur[dig(x)] > have[dig(x)]

    strict = [True]
    refnames = {}
    for d_, names_ in r.get('stmts', []):
        refnames.setdefault(d_, []).append(tuple(names_))

    def wanted(x):      # ... and fewer of that one
        if not cur[dig(x)] < have[dig(x)]:
            return False
        if strict[0]:
            # first pass: digests are name-blind (`if lx == 0` and `if c == 0` are one shape), so only rewrites that also land on the
            # reference's own names are accepted; what is left over is tried again without this preference
            h_ = _header(x)
            return h_ is not None and tuple(stmt_blind(h_, loc)[1]) in refnames.get(dig(x), ())
        return True

    def conj(t):
        return list(t.values) if isinstance(t, ast.BoolOp) and isinstance(t.op, ast.And) else [t]

    def swap(old_, new_):
        for o in old_:
            cur[dig(o)] -= 1
        for n_ in new_:
            h_ = _header(n_)
            if h_ is not None:
                cur[dig(n_)] += 1

    def dig(s):
        h = _header(s)
        return stmt_blind(h, loc)[0] if h is not None else None
    changed = [0]

    def blk(stmts):
        out = []
        i = 0
        while i < len(stmts):
            s = stmts[i]
            for f in ('body', 'orelse', 'finalbody'):
                v = getattr(s, f, None)
                if isinstance(v, list) and v and isinstance(v[0], ast.stmt) and not isinstance(s, (ast.FunctionDef, ast.AsyncFunctionDef, ast.ClassDef)):
                    setattr(s, f, blk(v))
            if isinstance(s, ast.Try):
                for hd in s.handlers:
                    hd.body = blk(hd.body)
            if isinstance(s, ast.If) and surplus(s) and len(s.body) == 1 and isinstance(s.body[0], ast.Return) and not s.orelse:
                # a run `if c1: return a1` / `if c2: return a2` / ... / `return z`  ==  return a1 if c1 else a2 if c2 else z
                j = i
                while j < len(stmts) and isinstance(stmts[j], ast.If) and len(stmts[j].body) == 1 and isinstance(stmts[j].body[0], ast.Return) \
                        and stmts[j].body[0].value is not None and not stmts[j].orelse:
                    j += 1
                if j - i >= 2 and j < len(stmts) and isinstance(stmts[j], ast.Return) and stmts[j].value is not None:
                    e = stmts[j].value
                    for k in range(j - 1, i - 1, -1):
                        e = ast.copy_location(ast.IfExp(test=stmts[k].test, body=stmts[k].body[0].value, orelse=e), stmts[k])
                    cand = ast.copy_location(ast.Return(value=e), s)
                    if wanted(cand):
                        swap(stmts[i:j + 1], [cand])
                        out.append(cand)
                        changed[0] += 1
                        i = j + 1
                        continue
            if isinstance(s, ast.Assign) and len(s.targets) == 1 and isinstance(s.targets[0], ast.Name) and i + 1 < len(stmts) and surplus(s):
                # `X = e1` / `X = e2(X)` with X read once in e2, all of it free of effects  ==  `X = e2(e1)`
                nx = stmts[i + 1]
                x_ = s.targets[0].id
                if isinstance(nx, ast.AugAssign) and isinstance(nx.op, ast.Add) and isinstance(nx.target, ast.Name) and nx.target.id == x_ \
                        and isinstance(s.value, (ast.ListComp, ast.List, ast.Tuple, ast.Constant, ast.JoinedStr)) and not any(isinstance(n, ast.Name) and n.id == x_ for n in ast.walk(nx.value)):
                    # `X = [fresh list]` / `X += e`  ==  `X = [fresh list] + e`  (nobody else holds the fresh list that += extends in place)
                    nx = ast.copy_location(ast.Assign(targets=[ast.copy_location(ast.Name(id=x_, ctx=ast.Store()), nx.target)],
                                                      value=ast.copy_location(ast.BinOp(left=ast.copy_location(ast.Name(id=x_, ctx=ast.Load()), nx.target), op=ast.Add(), right=nx.value), nx)), nx)
                if isinstance(nx, ast.Assign) and len(nx.targets) == 1 and isinstance(nx.targets[0], ast.Name) and nx.targets[0].id == x_:
                    reads = [n for n in ast.walk(nx.value) if isinstance(n, ast.Name) and n.id == x_]
                    inner_scope = any(isinstance(n, (ast.Lambda, ast.ListComp, ast.SetComp, ast.DictComp, ast.GeneratorExp)) for n in ast.walk(nx.value))
                    if len(reads) == 1 and not inner_scope and _pure(s.value) and _pure(nx.value):
                        cand = copy.deepcopy(nx)
                        class _Sub(ast.NodeTransformer):
                            def visit_Name(self, n):
                                return copy.deepcopy(s.value) if n.id == x_ and isinstance(n.ctx, ast.Load) else n
                        cand.value = _Sub().visit(cand.value)
                        ast.fix_missing_locations(cand)
                        if wanted(cand):
                            swap([s, stmts[i + 1]], [cand])
                            out.append(cand)
                            changed[0] += 1
                            i += 2
                            continue
            if isinstance(s, ast.If) and surplus(s) and not s.orelse and terminates(s.body) and i + 1 < len(stmts):
                # `if A: X` / `if B: X` (X leaves the block)  ==  `if A or B: X`
                j = i + 1
                tests = [s.test]
                while j < len(stmts) and isinstance(stmts[j], ast.If) and not stmts[j].orelse and ast.dump(ast.Module(stmts[j].body, [])) == ast.dump(ast.Module(s.body, [])):
                    tests.append(stmts[j].test)
                    j += 1
                if len(tests) > 1:
                    vals = []
                    for t in tests:
                        vals.extend(t.values if isinstance(t, ast.BoolOp) and isinstance(t.op, ast.Or) else [t])
                    cand = ast.fix_missing_locations(ast.copy_location(ast.If(test=ast.copy_location(ast.BoolOp(op=ast.Or(), values=vals), s.test), body=s.body, orelse=[]), s))
                    if wanted(cand):
                        swap(stmts[i:j], [cand])
                        out.append(cand)
                        changed[0] += 1
                        i = j
                        continue
            if isinstance(s, ast.Assign) and len(s.targets) == 1 and isinstance(s.targets[0], ast.Name) and surplus(s) and i + 1 < len(stmts):
                # `a = x` / `b = y` (independent)  ==  `a, b = x, y`
                j = i
                grp = []
                while j < len(stmts) and isinstance(stmts[j], ast.Assign) and len(stmts[j].targets) == 1 and isinstance(stmts[j].targets[0], ast.Name) and len(grp) < 4:
                    grp.append(stmts[j])
                    j += 1
                done_ = False
                for k in range(len(grp), 1, -1):
                    g = grp[:k]
                    names_ = [x.targets[0].id for x in g]
                    reads = set()
                    for x in g:
                        reads |= {n.id for n in ast.walk(x.value) if isinstance(n, ast.Name)}
                    if len(set(names_)) == k and not (set(names_) & reads) and all(_pure(x.value) for x in g):
                        cand = ast.fix_missing_locations(ast.copy_location(ast.Assign(targets=[ast.Tuple(elts=[x.targets[0] for x in g], ctx=ast.Store())],
                                                                                       value=ast.Tuple(elts=[x.value for x in g], ctx=ast.Load())), s))
                        if wanted(cand):
                            swap(g, [cand])
                            out.append(cand)
                            changed[0] += 1
                            i += k
                            done_ = True
                            break
                if done_:
                    continue
            if isinstance(s, ast.Assign) and len(s.targets) == 1 and isinstance(s.targets[0], ast.Tuple) and isinstance(s.value, ast.Tuple) and surplus(s) \
                    and len(s.targets[0].elts) == len(s.value.elts) and all(isinstance(t, ast.Name) for t in s.targets[0].elts) and not any(isinstance(v, ast.Starred) for v in s.value.elts):
                # `a, b = x, y`  ==  `a = x` / `b = y` when no target is read by a later value (and `a = a` says nothing)
                tg, vals = [t.id for t in s.targets[0].elts], s.value.elts
                indep = len(set(tg)) == len(tg) and not any(tg[i_] in {n.id for n in ast.walk(vals[j_]) if isinstance(n, ast.Name)} for i_ in range(len(tg)) for j_ in range(i_ + 1, len(tg)))
                if indep:
                    parts = [ast.fix_missing_locations(ast.copy_location(ast.Assign(targets=[ast.copy_location(ast.Name(id=t, ctx=ast.Store()), s)], value=v), s))
                             for t, v in zip(tg, vals) if not (isinstance(v, ast.Name) and v.id == t)]
                    if parts and all(wanted(p_) for p_ in parts):
                        swap([s], parts)
                        out.extend(parts)
                        changed[0] += 1
                        i += 1
                        continue
            if isinstance(s, ast.If) and surplus(s) and not s.orelse and len(s.body) == 1 and isinstance(s.body[0], ast.Continue) and i + 1 < len(stmts):
                # `if c: continue` / rest   ==   `if not c: rest`   (and `if A: if B: X` == `if A and B: X`)
                from .au import negate
                cand = ast.copy_location(ast.If(test=ast.fix_missing_locations(ast.copy_location(negate(copy.deepcopy(s.test)), s.test)), body=blk(stmts[i + 1:]), orelse=[]), s)
                while len(cand.body) == 1 and isinstance(cand.body[0], ast.If) and not cand.body[0].orelse:
                    inner = cand.body[0]
                    cand = ast.copy_location(ast.If(test=ast.copy_location(ast.BoolOp(op=ast.And(), values=conj(cand.test) + conj(inner.test)), s.test), body=inner.body, orelse=[]), s)
                ast.fix_missing_locations(cand)
                if wanted(cand):
                    swap([s], [cand])
                    out.append(cand)
                    changed[0] += 1
                    i = len(stmts)
                    continue
            if isinstance(s, ast.If) and surplus(s) and not s.orelse and len(s.body) == 1 and isinstance(s.body[0], ast.If) and not s.body[0].orelse:
                cand = s
                while len(cand.body) == 1 and isinstance(cand.body[0], ast.If) and not cand.body[0].orelse:
                    inner = cand.body[0]
                    cand = ast.copy_location(ast.If(test=ast.copy_location(ast.BoolOp(op=ast.And(), values=conj(cand.test) + conj(inner.test)), s.test), body=inner.body, orelse=[]), s)
                ast.fix_missing_locations(cand)
                if wanted(cand):
                    swap([s], [cand])
                    out.append(cand)
                    changed[0] += 1
                    i += 1
                    continue
            if isinstance(s, ast.If) and surplus(s) and not s.orelse and terminates(s.body) and i + 1 < len(stmts) and terminates(stmts[i + 1:]):
                # `if not T: B...return` / A...return   ==   `if T: A...return` / B...return   (both arms leave the block)
                from .au import negate
                flipped = ast.copy_location(ast.If(test=ast.fix_missing_locations(ast.copy_location(negate(copy.deepcopy(s.test)), s.test)),
                                                   body=stmts[i + 1:], orelse=[]), s)
                if wanted(flipped):
                    swap([s], [flipped])
                    flipped.body = blk(flipped.body)
                    out.append(flipped)
                    out.extend(s.body)
                    changed[0] += 1
                    i = len(stmts)
                    continue
            if isinstance(s, ast.If) and surplus(s) and s.orelse and not (len(s.orelse) == 1 and isinstance(s.orelse[0], ast.If)):
                # `if not c: B else: A`  ==  `if c: A else: B`
                from .au import negate
                flipped = ast.copy_location(ast.If(test=ast.fix_missing_locations(ast.copy_location(negate(copy.deepcopy(s.test)), s.test)), body=s.orelse, orelse=s.body), s)
                if wanted(flipped):
                    swap([s], [flipped])
                    out.extend(flatten_block([flipped]))
                    changed[0] += 1
                    i += 1
                    continue
            if isinstance(s, ast.If) and surplus(s):
                hit = [(e, used) for e, used in _as_ifexp(s, stmts[i + 1] if i + 1 < len(stmts) else None) if wanted(e)]
                if hit:
                    swap([s], [hit[0][0]])
                    out.append(hit[0][0])
                    changed[0] += 1
                    i += 2 if hit[0][1] else 1
                    continue
            if isinstance(s, (ast.Assign, ast.Return)) and isinstance(s.value, ast.IfExp) and surplus(s):
                t = statement_form(s)
                if t is not s and wanted(t):
                    swap([s], [t])
                    out.extend(flatten_block([t]))
                    changed[0] += 1
                    i += 1
                    continue
            if isinstance(s, ast.Return) and s.value is not None and not isinstance(s.value, (ast.Name, ast.Constant)) and surplus(s):
                # `return E` where the reference names the result first: `T = E` / `return T`
                tname = '__ret%d' % changed[0]
                loc.add(tname)
                pre = ast.fix_missing_locations(ast.copy_location(ast.Assign(targets=[ast.Name(id=tname, ctx=ast.Store())], value=s.value), s))
                ret = ast.fix_missing_locations(ast.copy_location(ast.Return(value=ast.Name(id=tname, ctx=ast.Load())), s))
                have_w = {d_ for d_, _ in r.get('wstmts', [])}
                if (wanted(pre) or (dig(pre) in have_w and not cur[dig(pre)])) and (wanted(ret) or dig(ret) in have_w):       # the reference may reuse a spelling: web-split digests
                    swap([s], [pre, ret])
                    out.extend([pre, ret])
                    changed[0] += 1
                    i += 1
                    continue
                loc.discard(tname)
            if surplus(s) and _header(s) is not None:
                # the truth value of a builtin list / tuple / dict / set IS "not empty": `not x` == `len(x) == 0`, `x` == `len(x) > 0` at the
                # positions where mark_containers established what x holds; rewritten to the spelling the reference has
                t = _respell_emptiness(s, wanted)
                if t is not None:
                    swap([s], [t])
                    out.append(t)
                    changed[0] += 1
                    i += 1
                    continue
            if isinstance(s, (ast.Assign, ast.Return, ast.Expr, ast.AugAssign)) and surplus(s):
                # `a if not c else b` == `b if c else a`, anywhere inside a simple statement
                from .au import negate
                done = False
                for k, e in enumerate([n for n in ast.walk(s) if isinstance(n, ast.IfExp)]):
                    t = copy.deepcopy(s)
                    e2 = [n for n in ast.walk(t) if isinstance(n, ast.IfExp)][k]
                    e2.test, e2.body, e2.orelse = ast.fix_missing_locations(ast.copy_location(negate(e2.test), e2.test)), e2.orelse, e2.body
                    if wanted(t):
                        swap([s], [t])
                        out.append(t)
                        changed[0] += 1
                        done = True
                        break
                if done:
                    i += 1
                    continue
            out.append(s)
            i += 1
        return out
    fn.body = blk(fn.body)
    strict[0] = False
    fn.body = blk(fn.body)
    # at the very end of the function, `if not c: X` (then fall off the end) == `if c: return` / X
    last = fn.body[-1] if fn.body else None
    if isinstance(last, ast.If) and not last.orelse and surplus(last) and not terminates(last.body):
        from .au import negate
        guard = ast.copy_location(ast.If(test=ast.fix_missing_locations(ast.copy_location(negate(copy.deepcopy(last.test)), last.test)),
                                         body=[ast.copy_location(ast.Return(value=None), last)], orelse=[]), last)
        if wanted(guard):
            swap([last], [guard])
            fn.body[-1:] = [guard] + last.body
            changed[0] += 1
    # `return all(e for t in it)` == for t in it: if not e: return False / return True   (any: if e: return True / return False)
    for holder in [n for n in ast.walk(fn) if isinstance(getattr(n, 'body', None), list)]:
        b = holder.body
        if b and isinstance(b[-1], ast.Return) and isinstance(b[-1].value, ast.Call) and isinstance(b[-1].value.func, ast.Name) and b[-1].value.func.id in ('all', 'any') \
                and len(b[-1].value.args) == 1 and isinstance(b[-1].value.args[0], (ast.GeneratorExp, ast.ListComp)) and len(b[-1].value.args[0].generators) == 1:
            from .au import negate
            r_ = b[-1]
            g = r_.value.args[0]
            gen = g.generators[0]
            isall = r_.value.func.id == 'all'
            test = negate(copy.deepcopy(g.elt)) if isall else g.elt
            inner = ast.If(test=test, body=[ast.Return(value=ast.Constant(value=not isall))], orelse=[])
            for c_ in reversed(gen.ifs):
                inner = ast.If(test=c_, body=[inner], orelse=[])
            loop = ast.For(target=gen.target, iter=gen.iter, body=[inner], orelse=[])
            for n_ in ast.walk(loop):
                ast.copy_location(n_, r_) if not hasattr(n_, 'lineno') else None
            ast.fix_missing_locations(ast.copy_location(loop, r_))
            fin = ast.copy_location(ast.Return(value=ast.copy_location(ast.Constant(value=isall), r_)), r_)
            if surplus(r_) and wanted(loop):
                k_ = 0
                for top in (loop, fin):             # keep source order recoverable from positions
                    for n_ in ast.walk(top):
                        if hasattr(n_, 'lineno'):
                            k_ += 1
                            n_.col_offset = getattr(r_, 'col_offset', 0) + k_ / 10000.0
                swap([r_], [loop, inner, fin])
                b[-1:] = [loop, fin]
                changed[0] += 1
    if changed[0] and stats is not None:
        stats.append((key, 'conditional spelling x%d' % changed[0]))


def _loop_as_comprehension(init, loop):
    """`X = []` / `for t in it: [if c:] X.append(e)`  ->  `X = [e for t in it if c]` (also nested fors, and `X = {}` / `X[k] = v`); None otherwise"""
    if not (isinstance(init, ast.Assign) and len(init.targets) == 1 and isinstance(init.targets[0], ast.Name) and isinstance(loop, ast.For) and not loop.orelse):
        return None
    x = init.targets[0].id
    islist = isinstance(init.value, ast.List) and not init.value.elts
    isdict = isinstance(init.value, ast.Dict) and not init.value.keys
    if not (islist or isdict):
        return None
    gens = []
    cur = loop
    while True:
        gen = ast.comprehension(target=cur.target, iter=cur.iter, ifs=[], is_async=0)
        gens.append(gen)
        body = cur.body
        while len(body) == 1 and isinstance(body[0], ast.If) and not body[0].orelse:
            gen.ifs.append(body[0].test)
            body = body[0].body
        if len(body) == 1 and isinstance(body[0], ast.For) and not body[0].orelse:
            cur = body[0]
            continue
        break
    if len(body) == 2 and isinstance(body[0], ast.If) and not body[0].orelse and len(body[0].body) == 1 and isinstance(body[0].body[0], ast.Assign) \
            and len(body[0].body[0].targets) == 1 and isinstance(body[0].body[0].targets[0], ast.Name) and isinstance(body[1], ast.Expr) and isinstance(body[1].value, ast.Call) \
            and isinstance(body[1].value.func, ast.Attribute) and body[1].value.func.attr == 'append' and len(body[1].value.args) == 1 \
            and isinstance(body[1].value.args[0], ast.Name) and body[1].value.args[0].id == body[0].body[0].targets[0].id:
        # for t in it: [if c: t = A]; X.append(t)   ==   X.append(A if c else t)
        v_ = body[0].body[0].targets[0].id
        app = copy.deepcopy(body[1])
        app.value.args[0] = ast.copy_location(ast.IfExp(test=body[0].test, body=body[0].body[0].value, orelse=ast.Name(id=v_, ctx=ast.Load())), body[0])
        body = [app]
    def _app(b):
        return len(b) == 1 and isinstance(b[0], ast.Expr) and isinstance(b[0].value, ast.Call) and isinstance(b[0].value.func, ast.Attribute) and b[0].value.func.attr == 'append' \
            and isinstance(b[0].value.func.value, ast.Name) and b[0].value.func.value.id == x and len(b[0].value.args) == 1 and not b[0].value.keywords
    if len(body) == 1 and isinstance(body[0], ast.If) and body[0].orelse and _app(body[0].body) and _app(body[0].orelse):
        # for t in it: if c: X.append(a) / else: X.append(b)   ==   X.append(a if c else b)
        app = copy.deepcopy(body[0].body[0])
        app.value.args[0] = ast.copy_location(ast.IfExp(test=body[0].test, body=body[0].body[0].value.args[0], orelse=body[0].orelse[0].value.args[0]), body[0])
        body = [app]
    if len(body) != 1:
        return None
    s = body[0]
    uses_x = lambda e: any(isinstance(n, ast.Name) and n.id == x for n in ast.walk(e))
    if any(uses_x(g.iter) or any(uses_x(i) for i in g.ifs) for g in gens):
        return None
    if islist and isinstance(s, ast.Expr) and isinstance(s.value, ast.Call) and isinstance(s.value.func, ast.Attribute) and s.value.func.attr == 'append' \
            and isinstance(s.value.func.value, ast.Name) and s.value.func.value.id == x and len(s.value.args) == 1 and not uses_x(s.value.args[0]):
        comp = ast.ListComp(elt=s.value.args[0], generators=gens)
    elif islist and isinstance(s, ast.Expr) and isinstance(s.value, ast.Call) and isinstance(s.value.func, ast.Attribute) and s.value.func.attr == 'extend' \
            and isinstance(s.value.func.value, ast.Name) and s.value.func.value.id == x and len(s.value.args) == 1 and not uses_x(s.value.args[0]):
        # X = []; for ..: X.extend(e)   ==   X = sum([e for ..], [])
        comp = ast.Call(func=ast.Name(id='sum', ctx=ast.Load()), args=[ast.ListComp(elt=s.value.args[0], generators=gens), ast.List(elts=[], ctx=ast.Load())], keywords=[])
    elif islist and ((isinstance(s, ast.Assign) and len(s.targets) == 1 and isinstance(s.targets[0], ast.Name) and s.targets[0].id == x and isinstance(s.value, ast.BinOp)
                      and isinstance(s.value.op, ast.Add) and isinstance(s.value.left, ast.Name) and s.value.left.id == x and not uses_x(s.value.right))
                     or (isinstance(s, ast.AugAssign) and isinstance(s.op, ast.Add) and isinstance(s.target, ast.Name) and s.target.id == x and not uses_x(s.value))):
        # X = []; for ..: X = X + e  (or X += e)   ==   X = sum([e for ..], [])
        e_ = s.value.right if isinstance(s, ast.Assign) else s.value
        comp = ast.Call(func=ast.Name(id='sum', ctx=ast.Load()), args=[ast.ListComp(elt=e_, generators=gens), ast.List(elts=[], ctx=ast.Load())], keywords=[])
    elif isdict and isinstance(s, ast.Assign) and len(s.targets) == 1 and isinstance(s.targets[0], ast.Subscript) and isinstance(s.targets[0].value, ast.Name) \
            and s.targets[0].value.id == x and not uses_x(s.targets[0].slice) and not uses_x(s.value):
        comp = ast.DictComp(key=s.targets[0].slice, value=s.value, generators=gens)
    else:
        return None
    new = ast.copy_location(ast.Assign(targets=[init.targets[0]], value=ast.copy_location(comp, init)), init)
    return ast.fix_missing_locations(new)


def _partition_loop(a, b, loop):
    """`A = {}` / `B = {}` / `for t in it: if c: A[k] = v / else: B[k2] = w`  ->  `A = {k: v for t in it if c}` / `B = {k2: w for t in it if not c}`
    (lists with append likewise); `it` and `c` are read twice, so both must be free of effects and `it` must be a container, not an iterator"""
    from .au import negate
    if not (isinstance(loop, ast.For) and not loop.orelse and len(loop.body) == 1 and isinstance(loop.body[0], ast.If) and loop.body[0].orelse
            and len(loop.body[0].body) == 1 and len(loop.body[0].orelse) == 1):
        return None
    it = loop.iter
    root = it
    while isinstance(root, (ast.Attribute, ast.Call)):
        root = root.func if isinstance(root, ast.Call) else root.value
    container = isinstance(it, ast.Name) or (isinstance(it, ast.Call) and isinstance(it.func, ast.Attribute) and it.func.attr in ('items', 'keys', 'values') and not it.args and isinstance(root, ast.Name))
    cond = loop.body[0]
    if not container or not _pure(cond.test) or not _pure(it):
        return None
    out = []
    for init, arm, test in ((a, cond.body, cond.test), (b, cond.orelse, negate(copy.deepcopy(cond.test)))):
        one = ast.copy_location(ast.For(target=copy.deepcopy(loop.target), iter=copy.deepcopy(it),
                                        body=[ast.copy_location(ast.If(test=ast.fix_missing_locations(ast.copy_location(test, cond.test)), body=arm, orelse=[]), cond)], orelse=[]), loop)
        c = _loop_as_comprehension(init, one)
        if c is None:
            # the arms may be written in the other order
            break
        out.append(c)
    if len(out) != 2:
        out = []
        for init, arm, test in ((b, cond.body, cond.test), (a, cond.orelse, negate(copy.deepcopy(cond.test)))):
            one = ast.copy_location(ast.For(target=copy.deepcopy(loop.target), iter=copy.deepcopy(it),
                                            body=[ast.copy_location(ast.If(test=ast.fix_missing_locations(ast.copy_location(test, cond.test)), body=arm, orelse=[]), cond)], orelse=[]), loop)
            c = _loop_as_comprehension(init, one)
            if c is None:
                return None
            out.append(c)
        out.reverse()
    # neither accumulator may be read by the other's comprehension
    names = {c.targets[0].id for c in out}
    for c in out:
        if any(isinstance(n, ast.Name) and n.id in names for n in ast.walk(c.value)):
            return None
    return out


def loops_to_comprehensions(fn, r, stats, key):
    """an accumulation loop and the comprehension that says the same are one program; where the reference has the comprehension and the
    current function has the loop, read the loop as the comprehension"""
    import collections
    loc = set(local_names(fn))
    have = collections.Counter(d for d, _ in r.get('stmts', []))
    cur = collections.Counter(stmt_blind(x, loc)[0] for x in statements(fn))
    have_w = {d for d, _ in r.get('wstmts', [])}
    done = [0]

    def blk(stmts):
        i = 0
        while i < len(stmts):
            s = stmts[i]
            for f in ('body', 'orelse', 'finalbody'):
                v = getattr(s, f, None)
                if isinstance(v, list) and v and isinstance(v[0], ast.stmt) and not isinstance(s, (ast.FunctionDef, ast.AsyncFunctionDef, ast.ClassDef)):
                    blk(v)
            if isinstance(s, ast.Try):
                for hd in s.handlers:
                    blk(hd.body)
            if isinstance(s, ast.For) and not isinstance(s.iter, ast.Name) and not getattr(s, '_named_iter', False):     # evaluated once, right before the loop, either way
                # `for x in E` where the reference first names E: `T = E` / `for x in T`
                tname = '__seq%d' % done[0]
                pre = ast.fix_missing_locations(ast.copy_location(ast.Assign(targets=[ast.Name(id=tname, ctx=ast.Store())], value=s.iter), s))
                hdr2 = ast.Expr(value=ast.Tuple(elts=[ast.Constant('for'), s.target, ast.Name(id=tname, ctx=ast.Load())], ctx=ast.Load()))
                hdr1 = _header(s)
                loc3 = loc | {tname}
                d0, d1, d2 = stmt_blind(hdr1, loc)[0], stmt_blind(pre, loc3)[0], stmt_blind(ast.fix_missing_locations(hdr2), loc3)[0]
                if cur[d0] > have[d0] and d1 in have_w and d2 in have_w and cur[d1] < max(have[d1], 1) and not (cur[d2] and not have[d2]):
                    s.iter = ast.copy_location(ast.Name(id=tname, ctx=ast.Load()), s.iter)
                    s._named_iter = True
                    stmts[i:i + 1] = [pre, s]
                    cur[d0] -= 1
                    cur[d1] += 1
                    cur[d2] += 1
                    done[0] += 1
                    i += 2
                    continue
            if i + 2 < len(stmts):
                pair = _partition_loop(s, stmts[i + 1], stmts[i + 2])
                if pair is not None:
                    ds = []
                    for c in pair:
                        loc2 = loc | {n.id for n in ast.walk(c) if isinstance(n, ast.Name) and isinstance(n.ctx, ast.Store)}
                        ds.append(stmt_blind(c, loc2)[0])
                    incomps = [stmt_blind(ast.Expr(value=c.value), loc | {n.id for n in ast.walk(c) if isinstance(n, ast.Name) and isinstance(n.ctx, ast.Store)})[0] in r.get('comps', ()) for c in pair]
                    if all(cur[d] < have[d] or ic for d, ic in zip(ds, incomps)) and (ds[0] != ds[1] or cur[ds[0]] + 2 <= have[ds[0]] or all(incomps)):
                        stmts[i:i + 3] = pair
                        for d in ds:
                            cur[d] += 1
                        done[0] += 1
                        continue
            if i + 1 < len(stmts):
                c = _loop_as_comprehension(s, stmts[i + 1])
                if c is not None:
                    loc2 = loc | {n.id for n in ast.walk(c) if isinstance(n, ast.Name) and isinstance(n.ctx, ast.Store)}
                    d = stmt_blind(c, loc2)[0]
                    inner = c.value.args[0] if isinstance(c.value, ast.Call) else c.value
                    if cur[d] < have[d] or stmt_blind(ast.Expr(value=inner), loc2)[0] in r.get('comps', ()):
                        stmts[i:i + 2] = [c]
                        cur[d] += 1
                        done[0] += 1
                        continue
                    # `for t in f(E)` where the reference first names f(E): `T = f(E)` / `X = [.. for t in T]`
                    comp = inner
                    it = comp.generators[0].iter if isinstance(comp, (ast.ListComp, ast.DictComp, ast.SetComp)) else None
                    if isinstance(it, ast.Call) and _pure(it):
                        tname = '__it%d' % done[0]
                        pre = ast.fix_missing_locations(ast.copy_location(ast.Assign(targets=[ast.Name(id=tname, ctx=ast.Store())], value=it), s))
                        c2 = copy.deepcopy(c)
                        comp2 = c2.value.args[0] if isinstance(c2.value, ast.Call) else c2.value
                        comp2.generators[0].iter = ast.copy_location(ast.Name(id=tname, ctx=ast.Load()), it)
                        ast.fix_missing_locations(c2)
                        loc3 = loc2 | {tname}
                        d1, d2 = stmt_blind(pre, loc3)[0], stmt_blind(c2, loc3)[0]
                        if (cur[d1] < have[d1] and cur[d2] < have[d2]) or (d1 in have_w and d2 in have_w and not cur[d2]):   # the reference may reuse one spelling for both (webs)
                            stmts[i:i + 2] = [pre, c2]
                            cur[d1] += 1
                            cur[d2] += 1
                            done[0] += 1
                            continue
            i += 1
    blk(fn.body)
    if done[0] and stats is not None:
        stats.append((key, 'read %d accumulation loops as comprehensions' % done[0]))
    return done[0]


def _settle(fn, r, stats, key):
    """is fn its reference up to a renaming of def-use webs? If so give every web its reference name."""
    from . import webs
    webs.split(fn, fn_scope_locals(fn))
    h, order = blind(fn)
    ok = (h == r['blind'])
    if ok and order != r['names'] and [len(o) for o in order] == [len(o) for o in r['names']]:
        mapping = {i: {a: b for a, b in zip(o, ro) if a != b} for i, (o, ro) in enumerate(zip(order, r['names']))}
        mapping = {i: m for i, m in mapping.items() if m}
        # two phases through temporary names so that swaps (a->b, b->a) are safe
        rename_locals(fn, {i: {a: '\0' + b for a, b in m.items()} for i, m in mapping.items()})
        rename_locals(fn, {i: {'\0' + b: b for b in m.values()} for i, m in mapping.items()})
        if stats is not None:
            stats.append((key, 'alpha %d' % sum(len(m) for m in mapping.values())))
    webs.merge(fn)
    return ok


def defs_to_lambdas(fn, r, key=None):
    """a local `def f(a): return e` that the reference does not have as a nested def is `f = lambda a: e` (the inverse of "lambda -> local def")"""
    nested_in_ref = {k.rsplit('.<locals>.', 1)[1] for k in reference().get('functions', {}) if key and k.startswith(key + '.<locals>.')}
    ref_names = nested_in_ref
    k = 0
    for n in ast.walk(fn):
        for f in ('body', 'orelse', 'finalbody'):
            block = getattr(n, f, None)
            if not isinstance(block, list):
                continue
            for j, s in enumerate(block):
                if isinstance(s, ast.FunctionDef) and s is not fn and s.name not in ref_names and not s.decorator_list and not s.returns:
                    b = _body_of(s)
                    if len(b) == 1 and isinstance(b[0], ast.Return) and b[0].value is not None and not any(isinstance(m, (ast.Yield, ast.YieldFrom, ast.Await)) for m in ast.walk(s)):
                        for a in s.args.args + s.args.kwonlyargs:
                            a.annotation = None
                        lam = ast.copy_location(ast.Lambda(args=s.args, body=b[0].value), s)
                        block[j] = ast.fix_missing_locations(ast.copy_location(ast.Assign(targets=[ast.copy_location(ast.Name(id=s.name, ctx=ast.Store()), s)], value=lam), s))
                        k += 1
    return k


def inline_new_temps(fn, r, stats, key):
    defs_to_lambdas(fn, r, key)
    """A local name that the reference does not have, assigned once from a side-effect-free expression whose operands are not reassigned
    afterwards, is a name for that expression: substitute it back (the inverse of "introduce explaining variable")."""
    # names of the reference function's OWN scope (scope 0): a reference comprehension variable called `row` does not make a new local `row` old
    ref_names = set(r['names'][0]) if r['names'] else set()
    ref_names |= {n.split('\x01')[0] for n in ref_names}
    params = {a.arg for a in fn.args.posonlyargs + fn.args.args + fn.args.kwonlyargs} | {x.arg for x in (fn.args.vararg, fn.args.kwarg) if x}
    if not [n for n in fn_scope_locals(fn) if n not in ref_names and n not in params]:
        return 0
    from . import webs
    webs.split(fn, fn_scope_locals(fn))          # a name assigned in two branches for two uses is two temporaries
    try:
        k = sink_joined_temps(fn, ref_names, params, stats, key)
        return k + _inline_new_temps(fn, ref_names, params, stats, key)
    finally:
        webs.merge(fn)


def _branch_tails(s):
    """[(block, index)] of the last statement of every branch of the if/elif/else statement s, or None if a branch is missing/empty"""
    if not isinstance(s, ast.If) or not s.orelse:
        return None
    out = []
    for blk in (s.body, s.orelse):
        if not blk:
            return None
        last = blk[-1]
        if isinstance(last, ast.If):
            sub = _branch_tails(last)
            if sub is None:
                return None
            out.extend(sub)
        else:
            out.append((blk, len(blk) - 1))
    return out


def sink_joined_temps(fn, ref_names, params, stats, key):
    """`if c: v = E1 else: v = E2` followed by one statement using the NEW name v once  ==>  that statement moved into each branch with
    E1 / E2 in place of v (the inverse of "hoist the common tail of the branches"/"single exit"): the same operations in the same order."""
    done = 0

    def blk(stmts):
        nonlocal done
        i = 0
        while i < len(stmts):
            s = stmts[i]
            for f in ('body', 'orelse', 'finalbody'):
                v = getattr(s, f, None)
                if isinstance(v, list) and v and isinstance(v[0], ast.stmt) and not isinstance(s, (ast.FunctionDef, ast.AsyncFunctionDef, ast.ClassDef)):
                    blk(v)
            if isinstance(s, ast.Try):
                for hd in s.handlers:
                    blk(hd.body)
            tails = _branch_tails(s) if i + 1 < len(stmts) else None
            if tails:
                lasts = [b[j] for b, j in tails]
                if all(isinstance(x, ast.Assign) and len(x.targets) == 1 and isinstance(x.targets[0], ast.Name) for x in lasts) \
                        and len({x.targets[0].id for x in lasts}) == 1:
                    v = lasts[0].targets[0].id
                    u = stmts[i + 1]
                    total = sum(1 for n in ast.walk(fn) if isinstance(n, ast.Name) and n.id == v and isinstance(n.ctx, ast.Load))
                    if v.split('\x01')[0] not in ref_names and v not in params and isinstance(u, (ast.Assign, ast.Return, ast.Expr, ast.AugAssign)) \
                            and _use_count([u], v) == (1, False) and total == 1 \
                            and not any(isinstance(n, ast.Name) and n.id == v and isinstance(n.ctx, ast.Store) for n in ast.walk(u)):
                        for (b, j), x in zip(tails, lasts):
                            b[j] = ast.copy_location(_Subst({v: x.value}).visit(copy.deepcopy(u)), x)
                        del stmts[i + 1]
                        done += 1
                        continue
            i += 1
    blk(fn.body)
    if done and stats is not None:
        stats.append((key, 'moved %d common tails back into their branches' % done))
    return done


def coalesce_copies(fn, ref_names, params):
    """`T = E` ... `X = T` with the NEW name T dead afterwards and X untouched in between: T was X all along (inlined helper result)"""
    done = 0
    for n in list(ast.walk(fn)):
        for f in ('body', 'orelse', 'finalbody'):
            block = getattr(n, f, None)
            if not isinstance(block, list):
                continue
            for j, s in enumerate(block):
                if not (isinstance(s, ast.Assign) and len(s.targets) == 1 and isinstance(s.targets[0], ast.Name) and isinstance(s.value, ast.Name)):
                    continue
                x, t = s.targets[0].id, s.value.id
                if t.split('\x01')[0] in ref_names or t in params or t == x:
                    continue
                defs = [k for k, b in enumerate(block[:j]) if isinstance(b, ast.Assign) and len(b.targets) == 1 and isinstance(b.targets[0], ast.Name) and b.targets[0].id == t]
                stores = [m for m in ast.walk(fn) if isinstance(m, ast.Name) and m.id == t and isinstance(m.ctx, ast.Store)]
                if len(defs) != 1 or len(stores) != 1:
                    continue
                k = defs[0]
                inside = set()
                for b in block[k:j + 1]:
                    inside |= {id(m) for m in ast.walk(b)}
                if any(isinstance(m, ast.Name) and m.id == t and id(m) not in inside for m in ast.walk(fn)):
                    continue        # T used outside the region
                between = block[k + 1:j]
                xb = x.split('\x01')[0]       # webs of one name are merged again afterwards: interference is judged on the spelling
                if any(isinstance(m, ast.Name) and m.id.split('\x01')[0] == xb for b in between for m in ast.walk(b)):
                    continue        # X read or written in between
                if any(isinstance(m, (ast.Lambda, ast.FunctionDef)) for b in block[k:j] for m in ast.walk(b)):
                    continue
                for b in block[k:j]:
                    for m in ast.walk(b):
                        if isinstance(m, ast.Name) and m.id == t:
                            m.id = x
                del block[j]
                done += 1
                break
    return done


def coalesce_bound_copies(fn, ref_names, params):
    """`X = Y` with the NEW name X (a parameter of an inlined helper bound to the caller's Y): when renaming X to Y leaves every read of either
    name with exactly the definitions that reached it before (reaching definitions compared node by node), X was Y all along"""
    from . import webs as W
    done = 0
    for _ in range(8):
        hit = None
        nodes = list(ast.walk(fn))
        for k, s in enumerate(nodes):
            if isinstance(s, ast.Assign) and len(s.targets) == 1 and isinstance(s.targets[0], ast.Name) and isinstance(s.value, ast.Name):
                x, y = s.targets[0].id, s.value.id
                if x == y or x.split('\x01')[0] in ref_names or x in params:
                    continue
                loc = fn_scope_locals(fn)
                if y not in loc and y not in params:
                    continue
                try:
                    w0 = W.Webs(fn, loc).run()
                    fn2 = copy.deepcopy(fn)
                    for m in ast.walk(fn2):
                        if isinstance(m, ast.Name) and m.id == x:
                            m.id = y
                    if any(isinstance(m, ast.arg) and m.arg == x for m in ast.walk(fn2)):
                        continue
                    w2 = W.Webs(fn2, fn_scope_locals(fn2)).run()
                except RecursionError:
                    continue
                if x in w0.deferred or y in w0.deferred:
                    continue
                nodes2 = list(ast.walk(fn2))
                if len(nodes2) != len(nodes):
                    continue
                i0 = {id(n): j for j, n in enumerate(nodes)}
                i2 = {id(n): j for j, n in enumerate(nodes2)}
                r0 = {i0[id(n)]: frozenset(i0.get(id(w0.defs[d][1])) for d in reach) for n, reach in w0.uses if n.id in (x, y)}
                r2 = {i2[id(n)]: frozenset(i2.get(id(w2.defs[d][1])) for d in reach) for n, reach in w2.uses if i2[id(n)] in r0}
                if r0 == r2 and None not in {d for v in r0.values() for d in v}:
                    hit = (s, x, y)
                    break
        if hit is None:
            break
        s, x, y = hit
        for m in ast.walk(fn):
            if isinstance(m, ast.Name) and m.id == x:
                m.id = y
        for n in ast.walk(fn):
            for f in ('body', 'orelse', 'finalbody'):
                block = getattr(n, f, None)
                if isinstance(block, list) and s in block and len(block) > 1:
                    block.remove(s)
        done += 1
    return done


def _inline_new_temps(fn, ref_names, params, stats, key):
    coalesced = coalesce_copies(fn, ref_names, params) + coalesce_bound_copies(fn, ref_names, params)
    # a new local that shares its spelling with a comprehension variable / lambda parameter somewhere in the function: give the function-scope
    # variable a spelling of its own, so that the checks below (one store, loads after it) speak about one variable
    inner_bound = set()
    for n in ast.walk(fn):
        if isinstance(n, (ast.ListComp, ast.SetComp, ast.DictComp, ast.GeneratorExp)):
            for g in n.generators:
                inner_bound |= {m.id for m in ast.walk(g.target) if isinstance(m, ast.Name)}
        elif isinstance(n, ast.Lambda):
            inner_bound |= {a.arg for a in n.args.args + n.args.kwonlyargs}
    clash = {v: v + '__t' for v in fn_scope_locals(fn) if v in inner_bound and v.split('\x01')[0] not in ref_names and v not in params}
    if clash:
        rename_locals(fn, {0: clash})
    own = fn_scope_locals(fn)
    cand = [n for n in own if n.split('\x01')[0] not in ref_names and n not in params]
    done = 0
    # a fixed order (never the iteration order of a set): the temporary defined last first, so that a chain `a = f(); b = g(); return a - b`
    # folds back in evaluation order; repeated while it makes progress
    first_store = {}
    for i, n in enumerate(_preorder(fn)):
        if isinstance(n, ast.Name) and isinstance(n.ctx, ast.Store) and n.id not in first_store:
            first_store[n.id] = i
    cand = sorted(cand, key=lambda n: (-first_store.get(n, 0), n))
    progress = True
    rounds = 0
    while progress and rounds < 4:
        progress = False
        rounds += 1
        before_round = done
        for v in cand:
            order = {id(n): i for i, n in enumerate(_preorder(fn))}
            stores = [n for n in ast.walk(fn) if isinstance(n, ast.Name) and n.id == v and isinstance(n.ctx, (ast.Store, ast.Del))]
            others = [n for n in ast.walk(fn) if (isinstance(n, ast.arg) and n.arg == v) or (isinstance(n, ast.ExceptHandler) and n.name == v)]
            if len(stores) != 1 or others:
                continue
            found = _find_assign(fn, stores[0])
            if found is None:
                continue
            block, idx, st = found
            if isinstance(st.value, ast.Lambda):
                # a NEW local lambda that is only ever called: beta-reduce its calls (the lambda reads its free variables when called, which is
                # where the substituted body now stands)
                lam = st.value
                a = lam.args
                only_called = not (a.vararg or a.kwarg or a.kwonlyargs or a.defaults or a.posonlyargs)
                params_ = [x.arg for x in a.args]
                pm_ = {}
                for n in ast.walk(fn):
                    for c in ast.iter_child_nodes(n):
                        pm_[id(c)] = n
                loads_ = [n for n in ast.walk(fn) if isinstance(n, ast.Name) and n.id == v and isinstance(n.ctx, ast.Load)]
                calls_ = [pm_.get(id(n)) for n in loads_]
                if not loads_ or any(not (isinstance(c, ast.Call) and c.func is n and len(c.args) == len(params_) and not c.keywords and all(_simple(x) for x in c.args)) for c, n in zip(calls_, loads_)):
                    only_called = False
                if any(order[id(n)] < order[id(st)] for n in loads_):
                    only_called = False

                if only_called:
                    class B(ast.NodeTransformer):
                        def visit_Call(self, c):
                            self.generic_visit(c)
                            if isinstance(c.func, ast.Name) and c.func.id == v and len(c.args) == len(params_):
                                return ast.copy_location(_Subst(dict(zip(params_, c.args))).visit(copy.deepcopy(lam.body)), c)
                            return c
                    for s2 in block[idx + 1:]:
                        B().visit(s2)
                    del block[idx]
                    ast.fix_missing_locations(fn)
                    done += 1
                    continue
                # otherwise the lambda is handed on as a value: it is an ordinary (pure) temporary, handled below
            pos = order[id(st)]
            loads = [n for n in ast.walk(fn) if isinstance(n, ast.Name) and n.id == v and isinstance(n.ctx, ast.Load)]
            # the temporary must be a NAME FOR A VALUE: never the handle of an object that is modified through it ...
            handle = False
            for n in ast.walk(fn):
                if isinstance(n, (ast.Subscript, ast.Attribute)) and isinstance(n.ctx, (ast.Store, ast.Del)):
                    root = n.value
                    while isinstance(root, (ast.Attribute, ast.Subscript)):
                        root = root.value
                    if isinstance(root, ast.Name) and root.id == v:
                        handle = True
                if isinstance(n, ast.Call) and isinstance(n.func, ast.Attribute) and n.func.attr in MUTATORS and isinstance(n.func.value, ast.Name) and n.func.value.id == v:
                    handle = True
                if isinstance(n, ast.AugAssign) and isinstance(n.target, ast.Name) and n.target.id == v:
                    handle = True
            if handle:
                continue
            # ... a conditional value used several times is not substituted (it would duplicate the decision into every use) ...
            if len(loads) > 1 and any(isinstance(n, ast.IfExp) for n in ast.walk(st.value)):
                continue
            # ... and a value used several times must not be a fresh mutable object (two uses would be two objects)
            if len(loads) > 1 and any(isinstance(n, (ast.List, ast.Dict, ast.Set, ast.ListComp, ast.DictComp, ast.SetComp, ast.GeneratorExp)) or
                                      (isinstance(n, ast.Call) and (n.func.id if isinstance(n.func, ast.Name) else getattr(n.func, 'attr', None)) not in IMMUTABLE_RESULT)
                                      for n in ast.walk(st.value)):
                continue
            if not _pure(st.value):
                # an expression with calls may only move into the very next statement, used once, outside any loop/comprehension/lambda of it
                nxt = block[idx + 1] if idx + 1 < len(block) else None
                if nxt is None or len(loads) != 1 or isinstance(nxt, (ast.For, ast.While, ast.If, ast.With, ast.Try, ast.FunctionDef)) or _use_count([nxt], v) != (1, False):
                    continue
            if not loads or any(order[id(n)] < pos for n in loads):
                continue
            # every use must be dominated by the definition: inside the statements that follow it in its own block
            later = set()
            for s2 in block[idx + 1:]:
                later |= {id(n) for n in ast.walk(s2)}
            if any(id(n) not in later for n in loads):
                continue
            # operands must keep their value between the definition and the uses
            operands = {o.split('\x01')[0] for o in _names_read(st.value)}      # by spelling: split webs are merged again afterwards
            last = max(order[id(n)] for n in loads)
            bad = False
            bad_store = False
            inside = {id(n) for n in ast.walk(st)}
            # the targets of an assignment are bound AFTER its value (which holds the last use) has been evaluated
            for s2 in block[idx + 1:]:
                if isinstance(s2, ast.Assign) and any(id(n) == id(l) for l in loads for n in ast.walk(s2.value)) and max(order[id(n)] for n in ast.walk(s2) if id(n) in order) >= last:
                    for t in s2.targets:
                        inside |= {id(n) for n in ast.walk(t)}
            for n in ast.walk(fn):
                if id(n) in inside:
                    continue            # the comprehension variables of the moved expression itself
                if isinstance(n, ast.Name) and n.id.split('\x01')[0] in operands and isinstance(n.ctx, (ast.Store, ast.Del)):
                    if pos < order[id(n)] <= last or any(lp in _enclosing_loops(fn, n) for lp in _loops_between(fn, st, loads)):
                        bad_store = True
                if isinstance(n, ast.Call) and isinstance(n.func, ast.Attribute) and n.func.attr in MUTATORS and pos < order[id(n)] <= last:
                    root = n.func.value
                    while isinstance(root, (ast.Attribute, ast.Subscript)):
                        root = root.value
                    if isinstance(root, ast.Name) and root.id.split('\x01')[0] in operands:
                        bad = True
                if isinstance(n, (ast.Subscript, ast.Attribute)) and isinstance(n.ctx, (ast.Store, ast.Del)) and pos < order[id(n)] <= last:
                    root = n.value
                    while isinstance(root, (ast.Attribute, ast.Subscript)):
                        root = root.value
                    if isinstance(root, ast.Name) and root.id.split('\x01')[0] in operands:
                        bad = True
            if bad:
                continue
            if bad_store:
                # an operand is rebound somewhere between the definition and the last use *in the text*; that matters only if the rebinding
                # can reach a use. Decide by reaching definitions: substitute, and keep the result only if every operand read inside the
                # substituted copies is reached by exactly the definitions that reached it in the temporary's own definition
                if not _substitute_if_same_reaching(fn, block, idx, st, v, params):
                    continue
                done += 1
                continue
            sub = _Subst({v: st.value})
            for s2 in block[idx + 1:]:
                sub.visit(s2)
            del block[idx]
            done += 1
        progress = done > before_round
    if done and stats is not None:
        stats.append((key, 'inlined %d new temporaries' % done))
    return done + coalesced


def _substitute_if_same_reaching(fn, block, idx, st, v, params):
    from . import webs as W
    loc = set(fn_scope_locals(fn)) | set(params)
    try:
        w0 = W.Webs(fn, loc).run()
    except RecursionError:
        return False
    if v in w0.deferred:
        return False
    inside = {id(n) for n in ast.walk(st.value)}
    before = {}
    for n, reach in w0.uses:
        if id(n) in inside:
            before.setdefault(n.id, set()).update(id(w0.defs[d][1]) for d in reach)
    if any(nm in w0.deferred for nm in before):
        return False
    saved_body = copy.deepcopy(fn.body)
    copies = []

    class S(ast.NodeTransformer):
        def visit_Name(self, n):
            if n.id == v and isinstance(n.ctx, ast.Load):
                c = copy.deepcopy(st.value)
                copies.append(c)
                return c
            return n
    for s2 in block[idx + 1:]:
        S().visit(s2)
    del block[idx]
    ok = bool(copies)
    if ok:
        try:
            w2 = W.Webs(fn, loc).run()
        except RecursionError:
            ok = False
    if ok:
        cid = {}
        for k, c in enumerate(copies):
            for n in ast.walk(c):
                cid[id(n)] = k
        after = {}
        for n, reach in w2.uses:
            if id(n) in cid:
                after.setdefault((cid[id(n)], n.id), set()).update(id(w2.defs[d][1]) for d in reach)
        for k in range(len(copies)):
            for nm, defs in before.items():
                if after.get((k, nm), set()) != defs:
                    ok = False
    if not ok:
        fn.body = saved_body
        return False
    return True


IMMUTABLE_RESULT = {'range', 'len', 'int', 'str', 'float', 'bool', 'type', 'isinstance', 'abs', 'min', 'max', 'lower', 'upper', 'startswith', 'endswith', 'is_int', 'is_str', 'is_num',
                    'is_date', 'is_pd', 'is_df', 'is_arr', 'is_ts', 'is_series', 'is_nan', 'tuple', 'as_tuple', 'hasattr', 'callable', 'strip', 'get'}
MUTATORS = {'append', 'extend', 'insert', 'pop', 'remove', 'clear', 'update', 'setdefault', 'sort', 'reverse', 'add', 'discard', 'popitem'}


def _preorder(node):
    yield node
    for c in ast.iter_child_nodes(node):
        yield from _preorder(c)


def _find_assign(fn, store):
    for n in ast.walk(fn):
        for f in ('body', 'orelse', 'finalbody'):
            v = getattr(n, f, None)
            if isinstance(v, list):
                for i, s in enumerate(v):
                    if isinstance(s, ast.Assign) and len(s.targets) == 1 and s.targets[0] is store:
                        return v, i, s
    return None


def _enclosing_loops(fn, node):
    out = []

    def rec(n, stack):
        if n is node:
            out.extend(stack)
            return True
        st2 = stack + [n] if isinstance(n, (ast.For, ast.While, ast.AsyncFor)) else stack
        return any(rec(c, st2) for c in ast.iter_child_nodes(n))
    rec(fn, [])
    return out


def _loops_between(fn, st, loads):
    """loops that contain a use but not the definition: an operand reassigned anywhere inside such a loop changes between iterations"""
    d = set(map(id, _enclosing_loops(fn, st)))
    out = []
    for n in loads:
        for lp in _enclosing_loops(fn, n):
            if id(lp) not in d and lp not in out:
                out.append(lp)
    return out


def _only_consulted(trees, tree, name):
    """every read of the module-level `name` is a membership test, an iteration, a subscript load or a .get/.keys/.values/.items call,
    and no other module mentions it"""
    for other in trees.values():
        if other is not tree and any((isinstance(x, ast.alias) and x.name == name) or (isinstance(x, ast.Attribute) and x.attr == name) or (isinstance(x, ast.Constant) and x.value == name) for x in ast.walk(other)):
            return False
    if any(isinstance(x, ast.Constant) and x.value == name for x in ast.walk(tree)):
        return False            # listed in __all__ (or otherwise named by a string)
    pm = {}
    for n in ast.walk(tree):
        for c in ast.iter_child_nodes(n):
            pm[id(c)] = n
    for x in ast.walk(tree):
        if isinstance(x, ast.Name) and x.id == name and isinstance(x.ctx, ast.Load):
            p = pm.get(id(x))
            ok = (isinstance(p, ast.Compare) and len(p.ops) == 1 and isinstance(p.ops[0], (ast.In, ast.NotIn)) and p.comparators[0] is x) \
                or (isinstance(p, (ast.For, ast.comprehension)) and p.iter is x) \
                or (isinstance(p, ast.Subscript) and p.value is x and isinstance(p.ctx, ast.Load)) \
                or (isinstance(p, ast.Attribute) and p.value is x and p.attr in ('get', 'keys', 'values', 'items') and isinstance(pm.get(id(p)), ast.Call) and pm[id(p)].func is p)
            if not ok:
                return False
    return True


def inline_new_constants(trees, stats):
    """a module-level name the reference does not have, bound once to a literal / tuple of names (no calls), is a name for that value"""
    known = reference().get('module_names', {})
    for mod, tree in trees.items():
        if mod not in known:
            continue
        new = {}
        for n in tree.body:
            if isinstance(n, ast.Assign) and len(n.targets) == 1 and isinstance(n.targets[0], ast.Name) and n.targets[0].id not in known[mod]:
                v = n.value
                if not any(isinstance(x, (ast.Call, ast.Lambda, ast.ListComp, ast.DictComp, ast.SetComp, ast.GeneratorExp, ast.List, ast.Dict, ast.Set)) for x in ast.walk(v)):
                    new[n.targets[0].id] = v
                elif isinstance(v, (ast.List, ast.Set, ast.Dict)) and all(isinstance(x, (ast.Constant, ast.Name, ast.Attribute, ast.expr_context)) for c in ast.iter_child_nodes(v) for x in ast.walk(c)) \
                        and _only_consulted(trees, tree, n.targets[0].id):
                    new[n.targets[0].id] = v        # a display of constants that is only ever looked into (x in T, for x in T, T[k], T.get(k)): its identity never matters
        for name in list(new):
            stores = [x for x in ast.walk(tree) if isinstance(x, ast.Name) and x.id == name and isinstance(x.ctx, ast.Store)]
            glob = [x for x in ast.walk(tree) if isinstance(x, ast.Global) and name in x.names]
            if len(stores) != 1 or glob:
                del new[name]
        if not new:
            continue
        for key, fn in functions_of(tree, mod):
            loc = set(local_names(fn))
            env = {k: v for k, v in new.items() if k not in loc}
            if env and any(isinstance(x, ast.Name) and x.id in env for x in ast.walk(fn)):
                sub = _Subst(env)
                fn.body = [sub.visit(b) for b in fn.body]
                ast.fix_missing_locations(fn)
                if stats is not None:
                    stats.append((key, 'inlined new module constant(s) %s' % sorted(env)))


def strip_annotations_and_super(trees):
    """annotations have no effect on what a function computes; `super()` inside a method of class C with first parameter s is super(C, s)"""
    for tree in trees.values():
        for n in ast.walk(tree):
            if isinstance(n, (ast.FunctionDef, ast.AsyncFunctionDef)):
                n.returns = None
                a = n.args
                for x in a.posonlyargs + a.args + a.kwonlyargs + [y for y in (a.vararg, a.kwarg) if y]:
                    x.annotation = None
            elif isinstance(n, ast.AnnAssign) and n.value is not None and isinstance(n.target, ast.Name):
                pass
        for c in [n for n in ast.walk(tree) if isinstance(n, ast.ClassDef)]:
            for m in c.body:
                if isinstance(m, (ast.FunctionDef, ast.AsyncFunctionDef)) and m.args.args:
                    first = m.args.args[0].arg
                    for call in ast.walk(m):
                        if isinstance(call, ast.Call) and isinstance(call.func, ast.Name) and call.func.id == 'super' and not call.args and not call.keywords:
                            call.args = [ast.copy_location(ast.Name(id=c.name, ctx=ast.Load()), call), ast.copy_location(ast.Name(id=first, ctx=ast.Load()), call)]


def drop_default_arguments(trees):
    """f(x, None) is f(x) when the parameter's default is that very constant: trailing positional arguments and keywords equal to the
    callee's constant default are dropped (callee resolved by simple name in the package, or self.method in the same class)"""
    funcs, methods = {}, {}
    for mod, tree in trees.items():
        for n in tree.body:
            if isinstance(n, ast.FunctionDef):
                funcs.setdefault(n.name, []).append(n)
            elif isinstance(n, ast.ClassDef):
                for b in n.body:
                    if isinstance(b, ast.FunctionDef):
                        methods.setdefault((n.name, b.name), []).append(b)

    def defaults_of(d, skip_self):
        a = d.args
        if a.vararg or a.posonlyargs:
            return None
        params = [x.arg for x in a.args][1 if skip_self else 0:]
        dv = dict(zip([x.arg for x in a.args][len(a.args) - len(a.defaults):], a.defaults))
        return params, dv

    def same_const(x, y):
        return isinstance(x, ast.Constant) and isinstance(y, ast.Constant) and type(x.value) is type(y.value) and x.value == y.value
    for mod, tree in trees.items():
        for cls in [None] + [c for c in ast.walk(tree) if isinstance(c, ast.ClassDef)]:
            scope = tree if cls is None else cls
            for call in ast.walk(scope):
                if not isinstance(call, ast.Call) or any(isinstance(x, ast.Starred) for x in call.args) or any(k.arg is None for k in call.keywords):
                    continue
                d = None
                if isinstance(call.func, ast.Name) and len(funcs.get(call.func.id, [])) == 1:
                    d = defaults_of(funcs[call.func.id][0], False)
                elif cls is not None and isinstance(call.func, ast.Attribute) and isinstance(call.func.value, ast.Name) and call.func.value.id == 'self' \
                        and len(methods.get((cls.name, call.func.attr), [])) == 1:
                    d = defaults_of(methods[(cls.name, call.func.attr)][0], True)
                if d is None:
                    continue
                params, dv = d
                call.keywords = [k for k in call.keywords if not (k.arg in dv and same_const(k.value, dv[k.arg]))]
                while call.args and not call.keywords and len(call.args) <= len(params) and params[len(call.args) - 1] in dv and same_const(call.args[-1], dv[params[len(call.args) - 1]]):
                    call.args.pop()


def module_defs_to_lambdas(trees):
    """a module-level name that the reference binds to a lambda and the current tree defines with `def` (single conditional return
    structure) is the same function value"""
    known = reference().get('module_names', {})
    reff = reference().get('functions', {})
    for mod, tree in trees.items():
        for i, n in enumerate(tree.body):
            if isinstance(n, ast.FunctionDef) and n.name in known.get(mod, ()) and ('%s:%s' % (mod, n.name)) not in reff and not n.decorator_list:
                e = _exprify(_body_of(n))
                if e is not None:
                    for a in n.args.args + n.args.kwonlyargs:
                        a.annotation = None
                    tree.body[i] = ast.fix_missing_locations(ast.copy_location(ast.Assign(targets=[ast.copy_location(ast.Name(id=n.name, ctx=ast.Store()), n)],
                                                                                        value=ast.copy_location(ast.Lambda(args=n.args, body=e), n)), n))


def normalise_repo(trees, use_reference=True, stats=None):
    collect_sigs(trees)
    strip_annotations_and_super(trees)
    if use_reference and reference().get('functions'):
        module_defs_to_lambdas(trees)
        inline_new_constants(trees, stats)
        inline_new_helpers(trees, reference()['functions'], stats)
    pass  # drop_default_arguments(trees): tried and not adopted (ties call-site checks to parameter defaults)
    for tree in trees.values():
        for n in ast.walk(tree):
            if isinstance(n, (ast.FunctionDef, ast.AsyncFunctionDef)):
                n.body = flatten_block(n.body)
    if use_reference and reference().get('functions'):
        ref = reference()['functions']
        for mod, tree in trees.items():
            for key, fn in functions_of(tree, mod):
                r = ref.get(key)
                if r is None:
                    # the function may have moved to another module: unique reference entry with the same qualified name
                    q = key.split(':', 1)[1]
                    c = [k for k in ref if k.split(':', 1)[1] == q]
                    r = ref[c[0]] if len(c) == 1 else None
                if r is None:
                    continue
                from .au import mark_containers
                mark_containers(fn)
                if not _settle(fn, r, stats, key):
                    reshape_conditionals(fn, r, stats, key)
                    vote_rename(fn, r, stats, key)
                    nl = loops_to_comprehensions(fn, r, stats, key)
                    if nl:
                        vote_rename(fn, r, stats, key)          # names introduced by the step above
                    vote_rename_webs(fn, r, stats, key)
                    k = inline_new_temps(fn, r, stats, key)
                    if loops_to_comprehensions(fn, r, stats, key):
                        k += 1 + inline_new_temps(fn, r, stats, key)
                    if k or nl:
                        reshape_conditionals(fn, r, stats, key)
                    fn.body = flatten_block(fn.body)
                    fn._drift = not _settle(fn, r, stats, key)
    # rewritten functions: positions must again increase in execution (pre-)order - rules order statements by position
    if stats:
        touched = {k for k, _ in stats}
        for mod, tree in trees.items():
            for key, fn in functions_of(tree, mod):
                if key in touched:
                    base = getattr(fn, 'lineno', 0)
                    for k, n in enumerate(_preorder(fn)):
                        if hasattr(n, 'lineno') and n is not fn:
                            if not hasattr(n, '_src'):
                                n._line = n.lineno
                            n.lineno = base + (k + 1) / 100000.0
                            n.col_offset = 0
    for tree in trees.values():
        _push_not_inwards(tree)
        _drop_implied_tests(tree)
        link_siblings(tree)


def _drop_implied_tests(tree):
    """inside `if T:` - before anything T reads is rebound - a conditional expression on the same (effect-free) test T has only one live arm:
    `if len(v) == 1: v = v * n if len(v) == 1 else v`  ==  `if len(v) == 1: v = v * n`  (typical after inlining a helper that re-tests)"""
    from .au import N, negate
    k = 0
    for node in ast.walk(tree):
        if not isinstance(node, ast.If) or not _pure(node.test):
            continue
        try:
            t_pos, t_neg = N(node.test), N(negate(copy.deepcopy(node.test)))
        except Exception:
            continue
        reads = {n.id for n in ast.walk(node.test) if isinstance(n, ast.Name)}
        for st in node.body:
            if isinstance(st, (ast.If, ast.For, ast.While, ast.Try, ast.With, ast.FunctionDef, ast.AsyncFunctionDef, ast.ClassDef)):
                break
            class R(ast.NodeTransformer):
                def visit_IfExp(self, n):
                    self.generic_visit(n)
                    nonlocal k
                    try:
                        tt = N(n.test)
                    except Exception:
                        return n
                    if tt == t_pos:
                        k += 1
                        return n.body
                    if tt == t_neg:
                        k += 1
                        return n.orelse
                    return n

                def visit_Lambda(self, n):
                    return n
            if isinstance(st, (ast.Assign, ast.AugAssign, ast.Return, ast.Expr)) and st.value is not None:
                st.value = R().visit(st.value)
            stores = {n.id for n in ast.walk(st) if isinstance(n, ast.Name) and isinstance(n.ctx, (ast.Store, ast.Del))}
            mut = any(isinstance(c, ast.Call) and isinstance(c.func, ast.Attribute) and c.func.attr in MUTATORS for c in ast.walk(st))
            heap = any(isinstance(n, (ast.Subscript, ast.Attribute)) and isinstance(n.ctx, (ast.Store, ast.Del)) for n in ast.walk(st))
            if stores & reads or mut or heap:
                break
    if k:
        ast.fix_missing_locations(tree)
    return k


def _push_not_inwards(tree):
    """`not (a and b)` is `not a or not b` (De Morgan, evaluation order and short-circuit unchanged): rules read atoms, never a negated group"""
    from .au import negate

    class T(ast.NodeTransformer):
        def visit_UnaryOp(self, n):
            self.generic_visit(n)
            if isinstance(n.op, ast.Not) and isinstance(n.operand, ast.BoolOp):
                m = negate(n.operand)
                ast.copy_location(m, n)
                for c in ast.walk(m):
                    if not hasattr(c, 'lineno') and isinstance(c, (ast.expr, ast.stmt)):
                        ast.copy_location(c, n)
                return self.visit(m)
            return n
    T().visit(tree)
    from .au import flatten_filter_generator
    for c in ast.walk(tree):
        if isinstance(c, ast.comprehension):
            flatten_filter_generator(c)
    ast.fix_missing_locations(tree)


def exit_digests(fn):
    """name-blind digests of everything the function can return: its return expressions and the values assigned to names it returns"""
    loc = set(local_names(fn))
    rets = [n for n in _own_nodes(fn) if isinstance(n, ast.Return)]
    names = {n.value.id for n in rets if isinstance(n.value, ast.Name)}
    out = set()
    for n in rets:
        for v in exit_arms(n.value if n.value is not None else ast.Constant(value=None)):
            out.add(stmt_blind(ast.Expr(value=v), loc)[0])
    if not terminates(fn.body):          # falling off the end is `return None`
        out.add(stmt_blind(ast.Expr(value=ast.Constant(value=None)), loc)[0])
    for n in _own_nodes(fn):
        if isinstance(n, ast.Assign) and len(n.targets) == 1 and isinstance(n.targets[0], ast.Name) and n.targets[0].id in names:
            for v in exit_arms(n.value):
                out.add(stmt_blind(ast.Expr(value=v), loc)[0])
    return sorted(out)


def exit_arms(v, depth=0):
    """the alternatives of a conditional expression: `a if c else b` can exit with a or with b; a conditional expression that is an
    argument / operand inside the returned expression is distributed the same way (f(a if c else b) exits with f(a) or f(b))"""
    if isinstance(v, ast.IfExp):
        return exit_arms(v.body, depth) + exit_arms(v.orelse, depth)
    if depth < 3:
        deferred = {id(m) for n in ast.walk(v) if isinstance(n, (ast.Lambda, ast.ListComp, ast.SetComp, ast.DictComp, ast.GeneratorExp)) for m in ast.walk(n)}
        inner = [n for n in ast.walk(v) if isinstance(n, ast.IfExp) and id(n) not in deferred]
        if inner:
            idx = [i for i, n in enumerate(ast.walk(v)) if n is inner[0]][0]
            out = []
            for arm in (True, False):
                v2 = copy.deepcopy(v)
                t2 = list(ast.walk(v2))[idx]

                class R(ast.NodeTransformer):
                    def visit_IfExp(self, n):
                        if n is t2:
                            return n.body if arm else n.orelse
                        return self.generic_visit(n)
                out += exit_arms(R().visit(v2), depth + 1)
            return out
    return [v]


def _own_nodes(fn):
    todo = list(fn.body)
    while todo:
        n = todo.pop()
        yield n
        for c in ast.iter_child_nodes(n):
            if not isinstance(c, (ast.FunctionDef, ast.AsyncFunctionDef, ast.ClassDef, ast.Lambda)):
                todo.append(c)


def _canon_call(g):
    from .au import canon
    try:
        return canon(g)
    except Exception:
        return g


def make_reference(trees):
    out = {}
    for mod, tree in trees.items():
        for key, fn in functions_of(tree, mod):
            from . import webs
            loc = set(local_names(fn))
            stm = [list(stmt_blind(s, loc)) for s in statements(fn)]
            f2 = copy.deepcopy(fn)
            webs.split(f2, fn_scope_locals(f2))
            loc2 = set(local_names(f2))
            wstm = [list(stmt_blind(s, loc2)) for s in statements(f2)]      # the same per def-use web (names carry their web marks)
            h, order = blind(f2)
            comps = sorted({stmt_blind(ast.Expr(value=c), set(local_names(fn)))[0] for c in [ast.ListComp(elt=g.elt, generators=g.generators) if isinstance(g, ast.GeneratorExp) else _canon_call(g) if isinstance(g, ast.Call) else g for g in ast.walk(fn)] if isinstance(c, (ast.ListComp, ast.DictComp, ast.SetComp))})
            out[key] = dict(blind=h, names=order, stmts=stm, wstmts=wstm, plain=blind(fn)[0], comps=comps, exits=exit_digests(fn))
    mods = {mod: sorted({t.id for n in tree.body if isinstance(n, ast.Assign) for t in n.targets if isinstance(t, ast.Name)}) for mod, tree in trees.items()}
    return dict(functions=out, module_names=mods)


# ------------------------------------------------------------------------------------------- 4. inlining of NEW private helpers
# A refactoring that extracts a helper moves the construct a rule looks at out of the anchored function. Functions that do not exist in
# the reference snapshot are therefore inlined back at their call sites (a behaviour-preserving rewrite in its own right, whatever the
# helper contains), so that the rules - and the mutants hidden inside a new helper - are judged on the code that actually runs.
PURE_CALLS = {'getattr', 'hasattr', 'len', 'int', 'str', 'float', 'bool', 'type', 'isinstance', 'tuple', 'list', 'set', 'sorted', 'abs', 'min', 'max', 'dict', 'range', 'zip',
              'as_list', 'as_tuple', 'is_int', 'is_str', 'is_num', 'is_date', 'is_pd', 'is_df', 'is_arr', 'is_ts', 'is_series', 'is_nan',
              'is_regex', 'is_primitive', 'is_float', 'is_bool', 'is_none', 'is_dict', 'is_zero_len', 'is_len', 'is_iterable', 'is_list', 'is_tuple', 'is_listable', 'is_dictable',
              'is_tz', 'is_period', 'is_bump', 'is_strs', 'is_lists'}


def _simple(e):
    """an argument that can be substituted for a parameter any number of times: a name, a constant, or an attribute chain on a name"""
    while isinstance(e, ast.Attribute):
        e = e.value
    return isinstance(e, (ast.Name, ast.Constant))


def _pure(e):
    for n in ast.walk(e):
        if isinstance(n, ast.Call):
            f = n.func
            nm = f.id if isinstance(f, ast.Name) else (f.attr if isinstance(f, ast.Attribute) else None)
            if nm not in PURE_CALLS and nm not in ('lower', 'upper', 'keys', 'values', 'items', 'get', 'startswith', 'endswith'):
                return False
        elif isinstance(n, (ast.Yield, ast.YieldFrom, ast.Await, ast.NamedExpr)):
            return False
    return True


def _names_read(node):
    return {n.id for n in ast.walk(node) if isinstance(n, ast.Name)}


class _Subst(ast.NodeTransformer):
    def __init__(self, env, star=None):
        self.env, self.star = env, star or {}

    def visit_Name(self, n):
        if n.id in self.env and isinstance(n.ctx, ast.Load):
            return copy.deepcopy(self.env[n.id])
        return n

    def visit_Call(self, n):
        self.generic_visit(n)
        args = []
        for a in n.args:
            if isinstance(a, ast.Starred) and isinstance(a.value, ast.Tuple) and getattr(a.value, '_spliced', False):
                args.extend(a.value.elts)
            else:
                args.append(a)
        n.args = args
        # a lambda handed to the helper and called there: (lambda t: E)(x) with plain arguments is E[t := x]
        f = n.func
        if isinstance(f, ast.Lambda) and not n.keywords and not (f.args.vararg or f.args.kwarg or f.args.kwonlyargs or f.args.defaults or f.args.posonlyargs) \
                and len(f.args.args) == len(n.args) and all(_simple(a) for a in n.args) \
                and not any(isinstance(m, (ast.Lambda, ast.ListComp, ast.SetComp, ast.DictComp, ast.GeneratorExp, ast.NamedExpr)) for m in ast.walk(f.body)):
            return ast.copy_location(_Subst(dict(zip([a.arg for a in f.args.args], n.args))).visit(copy.deepcopy(f.body)), n)
        return n


def _helper_ok(h):
    a = h.args
    if h.decorator_list or a.kwarg or a.posonlyargs or a.kwonlyargs:
        return False
    for n in ast.walk(h):
        if isinstance(n, (ast.Yield, ast.YieldFrom, ast.Await, ast.Global, ast.Nonlocal)):
            return False
        if isinstance(n, ast.Call) and isinstance(n.func, ast.Name) and n.func.id == h.name:
            return False            # recursive
        if isinstance(n, (ast.FunctionDef, ast.AsyncFunctionDef, ast.ClassDef)) and n is not h:
            return False
    return True


def _bind(h, call, is_method):
    """{param: argument expression} or None when the call cannot be matched to the signature"""
    a = h.args
    params = [x.arg for x in a.args]
    if is_method:
        params = params[1:]
    if any(k.arg is None for k in call.keywords):
        return None
    # f(a, *rest) is bound only when *rest lands whole in the helper's own *vararg
    if any(isinstance(x, ast.Starred) for x in call.args[:len(params)]) or (any(isinstance(x, ast.Starred) for x in call.args) and not a.vararg):
        return None
    env = {}
    pos = list(call.args)
    if len(pos) > len(params) and not a.vararg:
        return None
    for p, v in zip(params, pos):
        env[p] = v
    extra = pos[len(params):]
    for k in call.keywords:
        if k.arg in env or k.arg not in params:
            return None
        env[k.arg] = k.value
    defaults = dict(zip([x.arg for x in a.args][len(a.args) - len(a.defaults):], a.defaults))
    for p in params:
        if p not in env:
            if p not in defaults:
                return None
            env[p] = defaults[p]
    if a.vararg:
        t = ast.Tuple(elts=list(extra), ctx=ast.Load())
        t._spliced = True
        env[a.vararg.arg] = t
    return env


def _body_of(h):
    b = list(h.body)
    if b and isinstance(b[0], ast.Expr) and isinstance(b[0].value, ast.Constant) and isinstance(b[0].value.value, str):
        b = b[1:]
    return b


def _use_count(body, name):
    """(number of reads of name, is any of them evaluated repeatedly or later: inside a loop, a lambda, or a comprehension other than as
    the iterable of its first `for`, which is evaluated once, at once)"""
    c = 0
    inloop = False
    for s in body:
        for n in ast.walk(s):
            if isinstance(n, ast.Name) and n.id == name and isinstance(n.ctx, ast.Load):
                c += 1

        def rec(n, repeated):
            nonlocal inloop
            if isinstance(n, ast.Name) and n.id == name and repeated:
                inloop = True
            if isinstance(n, (ast.ListComp, ast.SetComp, ast.DictComp, ast.GeneratorExp)):
                for i, g in enumerate(n.generators):
                    rec(g.iter, repeated or i > 0)
                    rec(g.target, True)
                    for f in g.ifs:
                        rec(f, True)
                for f in ('elt', 'key', 'value'):
                    if hasattr(n, f):
                        rec(getattr(n, f), True)
                return
            if isinstance(n, ast.Lambda):
                rec(n.body, True)
                return
            if isinstance(n, (ast.For, ast.AsyncFor)):
                rec(n.iter, repeated)
                for b in n.body + n.orelse:
                    rec(b, True)
                return
            if isinstance(n, ast.While):
                rec(n.test, True)
                for b in n.body + n.orelse:
                    rec(b, True)
                return
            for ch in ast.iter_child_nodes(n):
                rec(ch, repeated)
        rec(s, False)
    return c, inloop


def _assigned(body):
    out = set()
    for s in body:
        out |= set(_bound(ast.FunctionDef(name='_', args=ast.arguments(posonlyargs=[], args=[], kwonlyargs=[], kw_defaults=[], defaults=[]), body=[s], decorator_list=[])))
    return out


def _stamp(nodes, at, src):
    k = [0]
    for top in nodes:
        for n in ast.walk(top):
            if hasattr(n, 'lineno') or isinstance(n, (ast.expr, ast.stmt)):
                n._src = src + (getattr(n, 'lineno', 0),)
                n.lineno = at.lineno
                n.end_lineno = getattr(at, 'end_lineno', at.lineno)
                k[0] += 1
                n.col_offset = getattr(at, 'col_offset', 0) + k[0] / 10000.0
                n.end_col_offset = n.col_offset


def _expand(h, call, caller_locals, is_method, self_expr=None, allow=(), expr_ctx=False):
    """(binding statements, body statements) of helper h specialised to this call, or None"""
    env = _bind(h, call, is_method)
    if env is None:
        return None
    body = copy.deepcopy(_body_of(h))
    assigned = _assigned(body)
    if is_method:
        env[h.args.args[0].arg] = self_expr
    binds = []
    sub = {}
    for p, v in env.items():
        spliced = getattr(v, '_spliced', False)
        if p in assigned:
            if isinstance(v, ast.Name) and v.id == p:
                continue
            binds.append(ast.Assign(targets=[ast.Name(id=p, ctx=ast.Store())], value=copy.deepcopy(v)))
            continue
        if _simple(v) or spliced and all(_simple(e.value if isinstance(e, ast.Starred) else e) for e in v.elts):
            sub[p] = v
            continue
        cnt, inloop = _use_count(body, p)
        # an argument that is evaluated once by the call and read many times (in a loop / comprehension) by the helper is a temporary of the
        # caller - unless the call stands inside an expression, where there is no place for the binding statement
        if cnt <= 1 and not inloop or (_pure(v) and (expr_ctx or not inloop)):
            sub[p] = v
        else:
            binds.append(ast.Assign(targets=[ast.Name(id=p, ctx=ast.Store())], value=copy.deepcopy(v)))
    # names the helper binds must not clobber the caller's variables, and its free names must mean the same in the caller
    hl = (assigned | {b.targets[0].id for b in binds}) - set(sub)
    free = set()
    for s in body:
        free |= _names_read(s)
    free -= assigned | set(env) | set(local_names(h))       # comprehension variables / lambda parameters of the helper are its own
    if free & caller_locals:
        return None
    allow = set(allow) - _names_read(call)      # the call's own target may be clobbered: it is (re)assigned by this very statement
    ren = {n: n + '_' for n in hl & caller_locals if n not in env and n not in allow}
    # a parameter bound by a statement must not clobber a variable of the caller either (unless it is bound to that very variable)
    for b in binds:
        p = b.targets[0].id
        if p in caller_locals and p not in allow and not (isinstance(b.value, ast.Name) and b.value.id == p):
            ren[p] = p + '_'
            b.targets[0].id = p + '_'
    if ren:
        for s in body:
            for n in ast.walk(s):
                if isinstance(n, ast.Name) and n.id in ren:
                    n.id = ren[n.id]
    body = [_Subst(sub).visit(s) for s in body]
    if any(isinstance(v, ast.Constant) for v in sub.values()):
        body = _fold_constant_tests(body)          # a flag parameter bound to True / False / None selects one branch of the helper
    return binds, body


def _fold_constant_tests(stmts):
    """`if True: A else: B` -> A; `A if False else B` -> B; `not True` -> False; `None is None` -> True - only tests that are literally constant"""
    def const_of(t):
        if isinstance(t, ast.Constant):
            return True, bool(t.value)
        if isinstance(t, ast.UnaryOp) and isinstance(t.op, ast.Not):
            k, v = const_of(t.operand)
            return k, (not v) if k else None
        if isinstance(t, ast.Compare) and len(t.ops) == 1 and isinstance(t.left, ast.Constant) and isinstance(t.comparators[0], ast.Constant) and isinstance(t.ops[0], (ast.Is, ast.IsNot)) \
                and (t.left.value is None or isinstance(t.left.value, bool)) and (t.comparators[0].value is None or isinstance(t.comparators[0].value, bool)):
            same = t.left.value is t.comparators[0].value
            return True, same if isinstance(t.ops[0], ast.Is) else not same
        return False, None

    class E(ast.NodeTransformer):
        def visit_IfExp(self, n):
            self.generic_visit(n)
            k, v = const_of(n.test)
            return (n.body if v else n.orelse) if k else n

    def blk(ss):
        out = []
        for s in ss:
            s = E().visit(s)
            for f in ('body', 'orelse', 'finalbody'):
                v = getattr(s, f, None)
                if isinstance(v, list) and v and isinstance(v[0], ast.stmt) and not isinstance(s, (ast.FunctionDef, ast.AsyncFunctionDef, ast.ClassDef)):
                    setattr(s, f, blk(v))
            if isinstance(s, ast.If):
                k, v = const_of(s.test)
                if k:
                    taken = s.body if v else s.orelse
                    out.extend(taken)
                    if terminates(taken):
                        break               # what followed the selected, leaving branch is unreachable
                    continue
            out.append(s)
        return out
    res = blk(stmts)
    return res if res else [ast.Pass()]


def _assignify(body, make):
    """the helper body with every `return e` turned into make(e) (an assignment to the call's target): possible when every return is in
    tail position of the if/else structure (after else-elimination: `if c: ...return` followed by the rest = if/else). None otherwise."""
    if not body:
        return [make(ast.Constant(value=None))]
    out = []
    for i, s in enumerate(body):
        last = i == len(body) - 1
        if isinstance(s, ast.Return):
            if not last:
                return None
            out.append(make(s.value if s.value is not None else ast.Constant(value=None)))
            return out
        if isinstance(s, ast.If) and _returns([s]):
            if terminates(s.body) and not s.orelse:
                a = _assignify(s.body, make)
                b = _assignify(body[i + 1:], make)
                if a is None or b is None:
                    return None
                out.append(ast.copy_location(ast.If(test=s.test, body=a, orelse=b), s))
                return out
            if last:
                a = _assignify(s.body, make)
                b = _assignify(s.orelse, make) if s.orelse else [make(ast.Constant(value=None))]
                if a is None or b is None:
                    return None
                out.append(ast.copy_location(ast.If(test=s.test, body=a, orelse=b), s))
                return out
            return None
        if _returns([s]):
            return None          # a return inside a loop / try / with: not expressible as an assignment
        out.append(s)
    out.append(make(ast.Constant(value=None)))
    return out


def _exprify(body):
    """the value of a helper whose body is only an if/return structure, as one (conditional) expression; None otherwise"""
    if not body:
        return None
    s = body[0]
    if isinstance(s, ast.Return) and s.value is not None:
        return s.value
    if isinstance(s, ast.If):
        a = _exprify(s.body)
        b = _exprify(s.orelse) if s.orelse else (_exprify(body[1:]) if terminates(s.body) else None)
        if a is None or b is None:
            return None
        return ast.copy_location(ast.IfExp(test=s.test, body=a, orelse=b), s)
    return None


def _returns(body):
    return [n for s in body for n in ast.walk(s) if isinstance(n, ast.Return)]


def inline_new_helpers(trees, ref, stats=None, rounds=3):
    known = set(k.split(':', 1)[1] for k in ref)
    for _ in range(rounds):
        helpers, methods = {}, {}
        imports = {}
        for mod, tree in trees.items():
            for n in tree.body:
                if isinstance(n, ast.FunctionDef) and n.name not in known and _helper_ok(n):
                    helpers[(mod, n.name)] = n
                elif isinstance(n, ast.ClassDef):
                    for b in n.body:
                        if isinstance(b, ast.FunctionDef) and '%s.%s' % (n.name, b.name) not in known and _helper_ok(b) and b.args.args:
                            methods[(mod, n.name, b.name)] = b
                elif isinstance(n, ast.ImportFrom) and n.module and n.module.startswith('pyg_base'):
                    for a in n.names:
                        imports[(mod, a.asname or a.name)] = (n.module.split('.')[-1], a.name)
        if not helpers and not methods:
            break
        changed = False
        for mod, tree in trees.items():
            for key, fn in functions_of(tree, mod):
                cls = key.split(':', 1)[1].split('.')[0] if '.' in key.split(':', 1)[1] else None

                def lookup(call):
                    f = call.func
                    if isinstance(f, ast.Name):
                        h = helpers.get((mod, f.id)) or helpers.get(imports.get((mod, f.id), (None, None)))
                        return (h, False, None) if h is not None and h is not fn else None
                    if isinstance(f, ast.Attribute) and isinstance(f.value, ast.Name) and f.value.id == 'self' and cls:
                        h = methods.get((mod, cls, f.attr))
                        return (h, True, f.value) if h is not None and h is not fn else None
                    return None
                if _inline_in(fn, lookup, key, stats):
                    fn.body = flatten_block(fn.body)
                    changed = True
        if not changed:
            break
    # what could not be inlined: the anchored function now delegates to code the reference knows nothing about
    newnames = {}
    for mod, tree in trees.items():
        for n in tree.body:
            if isinstance(n, ast.FunctionDef) and n.name not in known:
                newnames[n.name] = n
            elif isinstance(n, ast.ClassDef):
                for b in n.body:
                    if isinstance(b, ast.FunctionDef) and '%s.%s' % (n.name, b.name) not in known:
                        newnames[b.name] = b
    if newnames:
        for mod, tree in trees.items():
            for key, fn in functions_of(tree, mod):
                if key.split(':', 1)[1] in known or True:
                    op = sorted({(c.func.id if isinstance(c.func, ast.Name) else c.func.attr) for c in ast.walk(fn) if isinstance(c, ast.Call)
                                 and ((isinstance(c.func, ast.Name) and c.func.id in newnames) or
                                      (isinstance(c.func, ast.Attribute) and isinstance(c.func.value, ast.Name) and c.func.value.id == 'self' and c.func.attr in newnames))
                                 and newnames[(c.func.id if isinstance(c.func, ast.Name) else c.func.attr)] is not fn})
                    if op and key.split(':', 1)[1] in known:
                        fn._opaque = op
                        if stats is not None:
                            stats.append((key, 'delegates to new helper(s) %s that could not be inlined' % op))


def _inline_in(fn, lookup, key, stats):
    changed = [False]
    caller_locals = fn_scope_locals(fn) | {n.id for n in ast.walk(fn) if isinstance(n, ast.Name) and n.id in fn_scope_locals(fn)}

    def note(h):
        changed[0] = True
        if stats is not None:
            stats.append((key, 'inlined ' + h.name))

    def block(stmts):
        out = []
        for s in stmts:
            for f in ('body', 'orelse', 'finalbody'):
                v = getattr(s, f, None)
                if isinstance(v, list) and v and isinstance(v[0], ast.stmt) and not isinstance(s, (ast.FunctionDef, ast.AsyncFunctionDef, ast.ClassDef)):
                    setattr(s, f, block(v))
            if isinstance(s, ast.Try):
                for hd in s.handlers:
                    hd.body = block(hd.body)
            rep = stmt(s)
            out.extend(rep if rep is not None else [s])
        return out

    hoisted = [0]

    def stmt(s):
        # a call of a new helper that is not one expression, nested inside a simple statement (`res = res[h(..)]`): name its result first -
        # `__h = h(..)` / `res = res[__h]` - when everything else the statement evaluates is free of effects (the order cannot matter)
        if isinstance(s, (ast.Assign, ast.Return, ast.Expr, ast.AugAssign)) and getattr(s, 'value', None) is not None:
            nested = [c for c in ast.walk(s.value) if isinstance(c, ast.Call) and c is not s.value and lookup(c)]
            inner_scopes = [m for m in ast.walk(s.value) if isinstance(m, (ast.Lambda, ast.ListComp, ast.SetComp, ast.DictComp, ast.GeneratorExp, ast.IfExp, ast.BoolOp))]
            if len(nested) == 1 and not any(nested[0] in list(ast.walk(m)) for m in inner_scopes):
                c = nested[0]
                h = lookup(c)[0]
                if _exprify(_body_of(h)) is None and _returns(_body_of(h)):
                    tname = '__h%d' % hoisted[0]
                    probe = copy.deepcopy(s)
                    rest_pure = True
                    class R(ast.NodeTransformer):
                        def visit_Call(self, n):
                            if ast.dump(n) == ast.dump(c):
                                return ast.Name(id=tname, ctx=ast.Load())
                            self.generic_visit(n)
                            return n
                    probe.value = R().visit(probe.value)
                    if _pure(probe.value):
                        hoisted[0] += 1
                        pre = ast.copy_location(ast.Assign(targets=[ast.copy_location(ast.Name(id=tname, ctx=ast.Store()), c)], value=c), s)
                        s.value = probe.value
                        ast.fix_missing_locations(pre)
                        ast.fix_missing_locations(s)
                        first = stmt(pre)
                        return (first if first is not None else [pre]) + [s]
        # statement forms: return h(..) / x = h(..) / h(..)
        call = None
        if isinstance(s, (ast.Return, ast.Expr)) and isinstance(s.value, ast.Call):
            call = s.value
        elif isinstance(s, ast.Assign) and len(s.targets) == 1 and isinstance(s.value, ast.Call):
            call = s.value
        if call is not None:
            hit = lookup(call)
            if hit:
                h, is_method, self_expr = hit
                body0 = _body_of(h)
                rets = _returns(body0)
                single_tail = len(rets) == 1 and body0 and body0[-1] is rets[0]
                allow = [n.id for t in s.targets for n in ast.walk(t) if isinstance(n, ast.Name) and isinstance(t, (ast.Name, ast.Tuple, ast.List))] if isinstance(s, ast.Assign) else []
                if not (isinstance(s, ast.Return) or single_tail or not rets) and isinstance(s, (ast.Assign, ast.Expr)):
                    ex = _expand(h, call, caller_locals, is_method, self_expr, allow)
                    if ex is not None:
                        binds, body = ex
                        if isinstance(s, ast.Assign):
                            mk = lambda v: ast.Assign(targets=copy.deepcopy(s.targets), value=v)
                        else:
                            mk = lambda v: ast.Expr(value=v)
                        new = _assignify(body, mk)
                        if new is not None:
                            new = binds + new
                            _stamp(new, s, (h.name,))
                            ast.fix_missing_locations(ast.Module(body=new, type_ignores=[]))
                            note(h)
                            return new
                if isinstance(s, ast.Return) or single_tail or not rets:
                    ex = _expand(h, call, caller_locals, is_method, self_expr, allow)
                    if ex is not None:
                        binds, body = ex
                        if isinstance(s, ast.Return):
                            new = binds + body
                            if not terminates(body):
                                new.append(ast.Return(value=None))
                        else:
                            last = body[-1] if body and isinstance(body[-1], ast.Return) else None
                            core_ = body[:-1] if last is not None else body
                            val = last.value if last is not None and last.value is not None else ast.Constant(value=None)
                            if isinstance(s, ast.Assign):
                                tail = [ast.Assign(targets=s.targets, value=val)]
                                if len(s.targets) == 1 and ast.dump(s.targets[0]).replace('Store()', 'Load()') == ast.dump(val):
                                    tail = []           # T = T / (a, b) = (a, b)
                            else:
                                tail = [] if _simple(val) else [ast.Expr(value=val)]
                            new = binds + core_ + tail
                        _stamp(new, s, (h.name,))
                        ast.fix_missing_locations(ast.Module(body=new, type_ignores=[]))
                        note(h)
                        return new
        # expression form: single-return helpers anywhere inside the statement (own expressions only, not nested blocks)
        class E(ast.NodeTransformer):
            def visit_Call(self, c):
                self.generic_visit(c)
                if any(isinstance(a, ast.Starred) and isinstance(a.value, ast.Tuple) and getattr(a.value, '_src', None) for a in c.args):
                    args = []
                    for a in c.args:        # f(*helper(..)) with helper(..) inlined to a tuple display: f(e1, e2)
                        if isinstance(a, ast.Starred) and isinstance(a.value, ast.Tuple) and getattr(a.value, '_src', None):
                            args.extend(a.value.elts)
                        else:
                            args.append(a)
                    c.args = args
                hit = lookup(c)
                if not hit:
                    return c
                h, is_method, self_expr = hit
                b = _body_of(h)
                if _exprify(b) is None:
                    return c
                ex = _expand(h, c, caller_locals, is_method, self_expr, expr_ctx=True)
                if ex is None or ex[0]:
                    return c
                e = _exprify(ex[1])
                if e is None:
                    return c
                e = copy.deepcopy(e)
                _stamp([e], c, (h.name,))
                note(h)
                return e

            def generic_visit(self, node):
                for field, old in ast.iter_fields(node):
                    if field in ('body', 'orelse', 'finalbody', 'handlers') and isinstance(old, list) and old and isinstance(old[0], (ast.stmt, ast.ExceptHandler)):
                        continue            # nested blocks are handled by block()
                    if isinstance(old, list):
                        old[:] = [self.visit(v) if isinstance(v, ast.AST) else v for v in old]
                    elif isinstance(old, ast.AST):
                        setattr(node, field, self.visit(old))
                return node
        if not isinstance(s, (ast.FunctionDef, ast.AsyncFunctionDef, ast.ClassDef)):
            E().generic_visit(s)
        return None
    fn.body = block(fn.body)
    return changed[0]
