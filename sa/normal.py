"""Normalisation of the parsed package before any rule runs, so that rules decide on the program and not on its spelling:

1. else-elimination: `if A: <always terminates> else: B`  ==>  `if A: ...` followed by B (recursively, so an if/elif/else chain of
   returning branches and the same code written with early returns become the SAME tree);
2. sibling links (`_next`) so that `au.if_chain` can read a run of consecutive terminating `if`s as one dispatch chain;
3. alpha-renaming against the reference snapshot (sa/reference.json, generated from the tree the rules were confirmed on): when a
   function is identical to its reference up to a consistent renaming of its local names, the current names are mapped back to the
   reference names. (Rules mention local names only as written in the reference tree.)
All three are behaviour-preserving rewrites of the AST in memory; /repo is never written."""
import ast, copy, hashlib, json, os

HERE = os.path.dirname(os.path.abspath(__file__))
REF_PATH = os.path.join(HERE, 'reference.json')
_REF = None


def reference():
    global _REF
    if _REF is None:
        try:
            _REF = json.load(open(REF_PATH))
        except Exception:
            _REF = {}
    return _REF


# ------------------------------------------------------------------------------------------- 1. else-elimination
def terminates(stmts):
    """does this block always end in return / raise / continue / break?"""
    if not stmts:
        return False
    s = stmts[-1]
    if isinstance(s, (ast.Return, ast.Raise, ast.Continue, ast.Break)):
        return True
    if isinstance(s, ast.If):
        return bool(s.orelse) and terminates(s.body) and terminates(s.orelse)
    if isinstance(s, ast.Try):
        return terminates(s.body) and all(terminates(h.body) for h in s.handlers) and not s.orelse and not s.finalbody if s.handlers else False
    return False


def flatten_block(stmts):
    out = []
    for s in stmts:
        for f in ('body', 'orelse', 'finalbody'):
            v = getattr(s, f, None)
            if isinstance(v, list) and v and isinstance(v[0], ast.stmt):
                setattr(s, f, flatten_block(v))
        if isinstance(s, ast.Try):
            for h in s.handlers:
                h.body = flatten_block(h.body)
        if isinstance(s, ast.If) and s.orelse and terminates(s.body):
            rest = s.orelse
            s.orelse = []
            out.append(s)
            out.extend(rest)        # already flattened above
        else:
            out.append(s)
    return out


def link_siblings(node):
    for n in ast.walk(node):
        for f in ('body', 'orelse', 'finalbody'):
            v = getattr(n, f, None)
            if isinstance(v, list):
                for i, s in enumerate(v):
                    if isinstance(s, ast.stmt):
                        s._next = v[i + 1:]


# ------------------------------------------------------------------------------------------- 3. alpha renaming
def _strip_doc(fn):
    b = fn.body
    if b and isinstance(b[0], ast.Expr) and isinstance(b[0].value, ast.Constant) and isinstance(b[0].value.value, str) and len(b) > 1:
        fn.body = b[1:]


def local_names(fn):
    """names bound inside fn (params, assignment/loop/with/except targets, comprehension and lambda variables, nested def names)"""
    names = []

    def add(n):
        if n not in names:
            names.append(n)

    def tg(t):
        if isinstance(t, ast.Name):
            add(t.id)
        elif isinstance(t, (ast.Tuple, ast.List)):
            for e in t.elts:
                tg(e.value if isinstance(e, ast.Starred) else e)
    for n in ast.walk(fn):
        if isinstance(n, ast.arguments):
            for a in n.posonlyargs + n.args + n.kwonlyargs:
                add(a.arg)
            if n.vararg:
                add(n.vararg.arg)
            if n.kwarg:
                add(n.kwarg.arg)
        elif isinstance(n, ast.Assign):
            for t in n.targets:
                tg(t)
        elif isinstance(n, (ast.AugAssign, ast.AnnAssign, ast.NamedExpr)):
            tg(n.target)
        elif isinstance(n, (ast.For, ast.AsyncFor, ast.comprehension)):
            tg(n.target)
        elif isinstance(n, (ast.With, ast.AsyncWith)):
            for i in n.items:
                if i.optional_vars is not None:
                    tg(i.optional_vars)
        elif isinstance(n, ast.ExceptHandler) and n.name:
            add(n.name)
        elif isinstance(n, (ast.FunctionDef, ast.AsyncFunctionDef)) and n is not fn:
            add(n.name)
    glob = set()
    for n in ast.walk(fn):
        if isinstance(n, (ast.Global, ast.Nonlocal)):
            glob |= set(n.names)
    return [n for n in names if n not in glob]


def _canon_fn(fn):
    """copy of fn with comparisons canonicalised (b<a for a>b, `not` pushed in) so that such spellings do not count as differences"""
    from .au import canon
    fn = copy.deepcopy(fn)
    _strip_doc(fn)
    fn.decorator_list = fn.decorator_list

    class T(ast.NodeTransformer):
        def visit_If(self, n):
            self.generic_visit(n)
            n.test = canon(n.test)
            return n

        def visit_While(self, n):
            self.generic_visit(n)
            n.test = canon(n.test)
            return n

        def visit_IfExp(self, n):
            self.generic_visit(n)
            n.test = canon(n.test)
            return n

        def visit_comprehension(self, n):
            self.generic_visit(n)
            n.ifs = [canon(i) for i in n.ifs]
            return n
    return T().visit(fn)


def blind(fn, keep_params=False):
    """(digest of the name-blind dump, local names in order of first occurrence in the dump)"""
    fn = _canon_fn(fn)
    loc = set(local_names(fn))
    order = []

    def ph(name):
        if name not in order:
            order.append(name)
        return 'v%d' % order.index(name)
    for n in ast.walk(fn):           # deterministic breadth-first order
        if isinstance(n, ast.Name) and n.id in loc:
            n.id = ph(n.id)
        elif isinstance(n, ast.arg) and n.arg in loc:
            n.arg = ph(n.arg)
        elif isinstance(n, ast.ExceptHandler) and n.name in loc:
            n.name = ph(n.name)
        elif isinstance(n, (ast.FunctionDef, ast.AsyncFunctionDef)) and n is not fn and n.name in loc:
            n.name = ph(n.name)
        elif isinstance(n, ast.keyword) and n.arg in loc and False:
            pass
    fn.name = 'f'
    d = ast.dump(fn, annotate_fields=False, include_attributes=False)
    return hashlib.sha1(d.encode()).hexdigest(), order


def rename_locals(fn, mapping):
    for n in ast.walk(fn):
        if isinstance(n, ast.Name) and n.id in mapping:
            n.id = mapping[n.id]
        elif isinstance(n, ast.arg) and n.arg in mapping:
            n.arg = mapping[n.arg]
        elif isinstance(n, ast.ExceptHandler) and n.name in mapping:
            n.name = mapping[n.name]
        elif isinstance(n, (ast.FunctionDef, ast.AsyncFunctionDef)) and n is not fn and n.name in mapping:
            n.name = mapping[n.name]


def functions_of(tree, mod):
    for n in tree.body:
        if isinstance(n, (ast.FunctionDef, ast.AsyncFunctionDef)):
            yield '%s:%s' % (mod, n.name), n
        elif isinstance(n, ast.ClassDef):
            for b in n.body:
                if isinstance(b, (ast.FunctionDef, ast.AsyncFunctionDef)):
                    yield '%s:%s.%s' % (mod, n.name, b.name), b


def normalise_module(tree, mod, use_reference=True, stats=None):
    # 1 + 2
    for n in ast.walk(tree):
        if isinstance(n, (ast.FunctionDef, ast.AsyncFunctionDef)):
            n.body = flatten_block(n.body)
    link_siblings(tree)
    # 3
    if not use_reference:
        return
    ref = reference().get('functions', {})
    for key, fn in functions_of(tree, mod):
        r = ref.get(key)
        if r is None:
            # the function may have moved to another module: unique reference entry with the same qualified name
            q = key.split(':', 1)[1]
            c = [k for k in ref if k.split(':', 1)[1] == q]
            r = ref[c[0]] if len(c) == 1 else None
        if r is None:
            continue
        h, order = blind(fn)
        if h == r['blind'] and order != r['names'] and len(order) == len(r['names']):
            mapping = {a: b for a, b in zip(order, r['names']) if a != b}
            # keyword arguments at call sites elsewhere name parameters: renaming parameters of a function would desynchronise them,
            # so parameters are only mapped when no call in the package passes them by keyword (checked by the caller of this pass)
            rename_locals(fn, _two_phase(mapping))
            rename_locals(fn, {('\0' + b): b for b in mapping.values()})
            if stats is not None:
                stats.append((key, len(mapping)))


def _two_phase(mapping):
    """rename through temporary names so that swaps (a->b, b->a) are safe"""
    return {a: '\0' + b for a, b in mapping.items()}


def make_reference(trees):
    out = {}
    for mod, tree in trees.items():
        for key, fn in functions_of(tree, mod):
            h, order = blind(fn)
            out[key] = dict(blind=h, names=order)
    return dict(functions=out)
