"""Self-validation (thorough tier): every seeded fault (an in-memory edit of the package source that still compiles) must make
the named obligation report VIOLATION, every benign twin must leave the check silent. A fault whose `old` text is no longer
present exactly once is skipped (the tree has moved on), never a failure."""
import ast, os, sys
from concurrent.futures import ProcessPoolExecutor
from .core import Repo, VIOLATION, ERROR, DISCHARGED, KNOWN


def _apply(repo_src, mod, old, new):
    s = repo_src[mod]
    if s.count(old) < 1:
        return None
    t = s.replace(old, new, 1)
    try:
        ast.parse(t)
    except SyntaxError:
        return None
    return t


def _one(args):
    prop, kind, label, mod, old, new, expect = args
    from . import run as R
    base = Repo()
    t = _apply(base.src, mod, old, new)
    if t is None:
        return (kind, label, 'skipped', '')
    repo = Repo(overrides={mod: t})
    code, results = R.check(prop, 'quick', repo=repo, quiet=True, write=False)
    if kind == 'fault':
        hit = [r['ob'].oid for r in results if r['status'] == VIOLATION]
        if expect:
            ok = any(o in hit for o in expect.split(','))
        else:
            ok = bool(hit)
        return (kind, label, 'detected' if ok else 'missed', ','.join(hit))
    else:
        bad = [(r['ob'].oid, r['status'], r['error'] or [f.msg[:80] for f in r['findings'] if f.status == VIOLATION]) for r in results if r['status'] in (VIOLATION, ERROR)]
        return (kind, label, 'silent' if not bad else 'noisy', str(bad)[:300])


def catalogue(prop):
    import importlib
    try:
        m = importlib.import_module('sa.faults.%s' % prop)
    except ModuleNotFoundError:
        return [], []
    return getattr(m, 'FAULTS', []), getattr(m, 'TWINS', [])


def run(prop, say=print, jobs=None):
    faults, twins = catalogue(prop)
    tasks = [(prop, 'fault', f[0], f[1], f[2], f[3], f[4] if len(f) > 4 else None) for f in faults]
    tasks += [(prop, 'twin', t[0], t[1], t[2], t[3], None) for t in twins]
    out = dict(faults=0, detected=0, twins=0, silent=0, skipped=0, failed=[], details=[])
    if not tasks:
        return out
    jobs = jobs or min(16, len(tasks))
    with ProcessPoolExecutor(max_workers=jobs) as ex:
        res = list(ex.map(_one, tasks))
    for kind, label, verdict, info in res:
        out['details'].append(dict(kind=kind, label=label, verdict=verdict, info=info))
        if verdict == 'skipped':
            out['skipped'] += 1
            continue
        if kind == 'fault':
            out['faults'] += 1
            if verdict == 'detected':
                out['detected'] += 1
            else:
                out['failed'].append('seeded fault not reported: %s (%s)' % (label, info))
        else:
            out['twins'] += 1
            if verdict == 'silent':
                out['silent'] += 1
            else:
                out['failed'].append('benign twin raised an alarm: %s %s' % (label, info))
    say('  self-validation: %d/%d seeded faults reported, %d/%d benign twins silent, %d skipped' % (out['detected'], out['faults'], out['silent'], out['twins'], out['skipped']))
    for f in out['failed']:
        say('    SELFCHECK-FAIL', f)
    return out


if __name__ == '__main__':
    sys.path.insert(0, os.path.dirname(os.path.dirname(os.path.abspath(__file__))))
    r = run(sys.argv[1])
    for d in r['details']:
        print(d)
